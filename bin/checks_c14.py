"""C14 — proof data is packed in allocation order and every input matters.

Plug-in for bin/check (see bin/checks.py). One harness run (`p3r-harness packing`) does, on the
real code: (1) sentinel read-back for generated proof shapes — real `allocate` / `pack_values`,
allocation-only circuit run, every target read back by an independent walk — and prints the
allocation trace and the label sequences of both packed vectors in the driver's format;
(2) the single-position perturbation campaign on real proofs (native verdict vs runner outcome) — proofs with
single-root commitments and with Merkle caps of height 1..8 on both MMCSs — plus two static oracles on each
verifier circuit (every input is an operand of some op; every input reaches a Poseidon permutation),
followed by the *structural* perturbation campaign: every container / option / cap / arity field of
those proofs grown or shrunk by one, the verifier circuit rebuilt for the mutated proof, and — when
that circuit accepts — every surplus element and the first / last element of every other kind
altered (an input whose alteration leaves the rebuilt circuit accepting is dead);
(3) the `hidmerge` correspondence: the real `HidingFriPcs::verify_circuit` called directly on
generated opening structures x hiding-random-openings shapes (mirrored, or with a surplus / missing
round, matrix or point), answered as which shape check fired;
(4) the `sibcheck` correspondence: the shape loop at the head of the real `verify_fri_circuit` (reached through the PCS's
`RecursivePcs::verify_circuit`; directly for log-arities beyond the field) on generated per-query (log-arity, sibling count)
tables — a malformed sibling count must be refused when the verifier circuit is built (repair /repo fc0321f).
The Lean driver `p3r_driver_c14` evaluates `P3R.Model.Packing` on the same shape lines (5 lines per
shape) and `P3R.Packing.hidMerge` on the same `hidmerge` lines (1 line each); the answer streams are
compared line by line; likewise `friphase` -> `P3R.Packing.friPhases` and `sibcheck` -> `P3R.Packing.friSibCheck`.
"""
import json, os

PROPERTY = "C14"

CORRESPONDENCE_MERGE = ("hiding random openings merge (recursion/src/pcs/fri/targets.rs merge_hiding_random_openings, reached through "
                        "RecursivePcs::verify_circuit of HidingFriPcs) vs lean/P3R/Model/HidingMerge.lean hidMerge")

CORRESPONDENCE = ("packing (recursion/src/types/proof.rs, pcs/fri/targets.rs Recursive::{new,get_values,get_private_values}, "
                  "public_inputs.rs Stark/BatchStarkVerifierInputsBuilder::{allocate,pack_values}) "
                  "vs lean/P3R/Model/Packing.lean")

CORRESPONDENCE_PHASE = ("FRI query openings verified against their commitments (recursion/src/pcs/fri/verifier.rs verify_fri_circuit: open_input + "
                        "commit-phase loop incl. its log_folded_height == 0 special case, pcs/mmcs.rs cap handling; reached through "
                        "RecursivePcs::verify_circuit, answer read off the graph of the built circuit) vs lean/P3R/Model/FriPhases.lean friPhases")

CORRESPONDENCE_SIB = ("per-query folding data refused at build time (recursion/src/pcs/fri/verifier.rs verify_fri_circuit: schedule entry 0, "
                      "commit-phase opening count, log_arity vs the first query's schedule, sibling coefficient count == (2^log_arity - 1) * "
                      "EF::DIMENSION with checked arithmetic; pcs/fri/targets.rs CommitPhaseProofStepTargets::new allocating "
                      "sibling_values.len() * DIMENSION; reached through RecursivePcs::verify_circuit, and directly for log-arities > 27) "
                      "vs lean/P3R/Model/Packing.lean friSibCheck")

LINES_PER_CASE = 5

# every full run must exercise all of these (uni-ZK became usable with fix C14-1; their honest proofs are
# regression cases: if the circuit refuses them again the harness reports honest-proof-not-accepted:uni-zk)
EXPECTED_SETUPS = ["bb_plain.uni", "bb_plain.batch", "bb_plain.tables", "bb_hid.uni", "bb_hid.batch",
                   "bb_salted.uni", "bb_salted.batch"]

# Merkle cap heights of the additional campaign setups `<cfg>.<uni|batch>_cap<h>` (both MMCSs — input and FRI
# commit phase — get a cap of that height; `u8` would mean uni setups only). The native MMCS clamps the height per tree,
# so with the testing FRI parameters h=2 puts the last commit-phase codeword entirely inside its cap (empty
# Merkle path), h=3 the last two, h=8 every tree of the proof (input commitments included).
CAPS_QUICK = "1,2,3,4,8"
CAPS_THOROUGH = "1,2,3,4,5,6,7,8"


def expected_setups(caps):
    out = list(EXPECTED_SETUPS)
    for cfg in ("bb_plain", "bb_hid", "bb_salted"):
        for c in caps.split(","):
            c = c.strip()
            u, b = (c[0] != "b"), (c[0] != "u")
            h = c.lstrip("ub")
            if u:
                out.append(f"{cfg}.uni_cap{h}")
            if b:
                out.append(f"{cfg}.batch_cap{h}")
    return out


def _read(p):
    with open(p) as fh:
        return [l.rstrip("\n") for l in fh]


def _harness(ctx, out, seed, shapes, corpus, campaign, per_kind, setups="all", label="", op="", merges=0, caps=CAPS_QUICK, phases=0, sibs=0, sib_huge=0):
    cmd = [ctx["harness"], "packing", "--seed", str(seed), "--shapes", str(shapes), "--out", out,
           "--campaign", str(campaign), "--per-kind", str(per_kind), "--setups", setups, "--merges", str(merges), "--caps", caps, "--phases", str(phases), "--sibs", str(sibs), "--sib-huge", str(sib_huge)]
    if corpus:
        cmd += ["--corpus", corpus]
    if label:
        cmd += ["--label", label]
    if op:
        cmd += ["--op", op]
    rc, o = ctx["sh"](cmd, timeout=7200)
    return cmd, rc, o


def run(ctx):
    tier, seed, work = ctx["tier"], ctx["seed"], ctx["work"]
    violations = []
    empty = {"evaluations": 0, "distinct_nontrivial": 0, "rule": "", "samples": [], "input_distribution": {},
             "traces_validated_against_impl": 0, "disagreements_checked": 0}
    runs = []   # (out, kwargs)
    if ctx.get("replay"):
        rp = json.load(open(ctx["replay"]))
        rp = rp.get("replay", rp)
        if "setup" in rp:      # one campaign observation
            runs.append((f"{work}/run0", dict(seed=rp.get("seed", seed), shapes=0, corpus=None, campaign=1, per_kind=0,
                                               setups=rp["setup"], label=rp.get("label", ""), op=rp.get("op", ""))))
        else:                  # one shape
            os.makedirs(f"{work}/replay_corpus", exist_ok=True)
            json.dump(rp, open(f"{work}/replay_corpus/r.json", "w"))
            runs.append((f"{work}/run0", dict(seed=seed, shapes=0, corpus=f"{work}/replay_corpus", campaign=0, per_kind=0)))
    elif tier == "quick":
        runs.append((f"{work}/run0", dict(seed=seed, shapes=3000, corpus=f"{ctx['root']}/corpus/c14", campaign=1, per_kind=0, merges=6000, phases=4000, sibs=6000)))
        # log-arities 28..255 in a process of their own: code that sizes an allocation with 2^log_arity is killed, not failed
        runs.append((f"{work}/run_huge", dict(seed=seed, shapes=0, corpus=None, campaign=0, per_kind=0, sibs=600, sib_huge=1)))
    else:
        runs.append((f"{work}/run0", dict(seed=seed, shapes=120000, corpus=f"{ctx['root']}/corpus/c14", campaign=1, per_kind=0, merges=400000,
                                          caps=CAPS_THOROUGH, phases=200000, sibs=300000)))
        runs.append((f"{work}/run_huge", dict(seed=seed, shapes=0, corpus=None, campaign=0, per_kind=0, sibs=20000, sib_huge=1)))
        for k in range(1, 9):   # the ZK provers are randomised: more proofs, every position each
            runs.append((f"{work}/run{k}", dict(seed=seed + 7919 * k, shapes=0, corpus=None, campaign=1, per_kind=0)))

    tot = {"evaluations": 0, "distinct": 0, "inputs": 0, "perturbations": 0, "lines": 0, "disagreements": 0,
           "merges": 0, "merge_distinct": 0, "shape_perturbations": 0, "shape_followups": 0, "phases": 0, "phase_distinct": 0,
           "sibs": 0, "sib_distinct": 0}
    hist, samples, campaign, corpus_notes = {}, [], [], []
    model_flags = {"validated": 0, "not_validated": 0, "dead_when_validated": 0, "dead_when_not_validated": 0, "wf0": 0, "built0": 0,
                   "dead_when_validated_but_not_built": 0}
    for out, kw in runs:
        cmd, rc, o = _harness(ctx, out, **kw)
        if rc != 0 or not os.path.exists(f"{out}/c14.report.json"):
            if kw.get("sib_huge"):
                violations.append({"class": "sibling-count-crash:huge-log-arity",
                                   "what": f"harness exited {rc} while the real verifier-circuit builder handled FRI proofs with a commit-phase log_arity in "
                                           f"28..255 (before /repo fc0321f CommitPhaseProofStepTargets::new allocated 2^log_arity targets): {o[-200:]}",
                                   "replay": {"cmd": cmd}})
            else:
                violations.append({"class": "harness-crash", "what": f"harness packing exited {rc}: {o[-300:]}",
                                   "replay": {"cmd": cmd}, "no_input": True})
            continue
        rep = json.load(open(f"{out}/c14.report.json"))
        for v in rep["violations"]:
            d = json.dumps(v.get("detail", {}))[:200]
            violations.append({"class": v["class"], "what": f"{v['kind']} {v['class']} {d}", "replay": v["replay"]})
        tot["evaluations"] += rep["evaluations"]; tot["distinct"] += rep["distinct"]
        tot["inputs"] += rep["inputs_checked"]; tot["perturbations"] += rep["perturbations"]
        tot["merges"] += rep.get("merge_evaluations", 0); tot["merge_distinct"] += rep.get("merge_distinct", 0)
        tot["phases"] += rep.get("phase_evaluations", 0); tot["phase_distinct"] += rep.get("phase_distinct", 0)
        tot["sibs"] += rep.get("sib_evaluations", 0); tot["sib_distinct"] += rep.get("sib_distinct", 0)
        tot["shape_perturbations"] += sum(c.get("shape_perturbations", 0) for c in rep["campaign"])
        tot["shape_followups"] += sum(c.get("shape_followup_perturbations", 0) for c in rep["campaign"])
        for k, v in rep["hist"].items():
            if k.startswith("campaign.") and k.endswith(".positions"):
                hist[k] = v
            else:
                hist[k] = hist.get(k, 0) + v
        samples += rep["samples"][:4]
        campaign += rep["campaign"]
        if kw.get("campaign") == 1 and kw.get("setups", "all") == "all":
            got = {c["setup"]: c for c in rep["campaign"]}
            for st in expected_setups(kw.get("caps", CAPS_QUICK)):
                c = got.get(st)
                if c is None or (c["baseline_ok"] and (c["perturbations"] < c["packed_positions"] or c.get("shape_sites", 0) == 0
                                                       or c.get("shape_perturbations", 0) < c.get("shape_sites", 0))):
                    violations.append({"class": "campaign-setup-incomplete:" + st,
                                       "what": f"campaign setup {st} did not perturb every packed position / apply every structural mutation: "
                                               f"{ {k: v for k, v in (c or {}).items() if k not in ('kinds', 'shape_kinds')} }",
                                       "replay": {"setup": st, "seed": kw["seed"], "label": ""}, "no_input": True})
        corpus_notes += rep.get("corpus_notes", [])
        # model side
        driver = os.path.join(ctx["driver_dir"], "p3r_driver_c14")
        with open(f"{out}/c14.cases") as fin:
            rc, mo = ctx["sh"]([driver], stdin=fin, timeout=3600)
        with open(f"{out}/c14.model", "w") as fh:
            fh.write(mo)
        impl, model, cases = _read(f"{out}/c14.impl"), _read(f"{out}/c14.model"), _read(f"{out}/c14.cases")
        while model and model[-1] == "":
            model.pop()
        tot["lines"] += len(impl)
        shown = 0
        for k in range(max(len(impl), len(model))):
            a = impl[k] if k < len(impl) else None
            b = model[k] if k < len(model) else None
            if b is not None and b.startswith("meta "):
                f = dict(x.split("=") for x in b.split()[1:])
                if f.get("wf") == "0":
                    model_flags["wf0"] += 1
                if f.get("built") == "0":
                    model_flags["built0"] += 1
                if f.get("built") == "1" and f.get("wf") != "1":   # D >= 1 on every driver line
                    violations.append({"class": "model-self-check",
                                       "what": f"model: theorem friSibCheck_ok_wf contradicted by evaluation: {b}",
                                       "replay": {"case_line": cases[k // LINES_PER_CASE]}, "no_input": True})
                if f.get("validated") == "1":
                    model_flags["validated"] += 1
                    if f.get("dead") != "0" and (f.get("wf") == "1" or f.get("built") == "1"):
                        model_flags["dead_when_validated"] += 1
                        violations.append({"class": "model-self-check",
                                           "what": f"model: theorem no_dead_input / no_dead_input_built contradicted by evaluation: {b}",
                                           "replay": {"case_line": cases[k // LINES_PER_CASE]}, "no_input": True})
                    elif f.get("dead") != "0":
                        model_flags["dead_when_validated_but_not_built"] += 1   # P3R.Witness.C14.sib_check_needed
                else:
                    model_flags["not_validated"] += 1
                    if f.get("dead") != "0":
                        model_flags["dead_when_not_validated"] += 1
                if f.get("distinct") != "1":
                    violations.append({"class": "model-self-check", "what": f"model labels not distinct: {b}",
                                       "replay": {"case_line": cases[k // LINES_PER_CASE]}, "no_input": True})
                b = " ".join(b.split()[:3])      # validated / dead are model-only
            if a != b:
                tot["disagreements"] += 1
                if shown < 3:
                    shown += 1
                    case = cases[k // LINES_PER_CASE] if k // LINES_PER_CASE < len(cases) else ""
                    # first differing token, to keep the message readable
                    ta, tb = (a or "").split(), (b or "").split()
                    j = next((i for i in range(max(len(ta), len(tb))) if (ta[i] if i < len(ta) else None) != (tb[i] if i < len(tb) else None)), 0)
                    violations.append({"class": "model-disagreement",
                                       "what": f"correspondence {CORRESPONDENCE} no longer checks: line '{(a or b or '').split(' ')[0]}' "
                                               f"token {j}: impl={ta[j] if j < len(ta) else None!r} model={tb[j] if j < len(tb) else None!r}",
                                       "replay": {"correspondence": CORRESPONDENCE, "case_line": case,
                                                  "line_kind": (a or b or "").split(" ")[0], "token_index": j,
                                                  "impl": (ta[max(0, j - 2):j + 3]), "model": (tb[max(0, j - 2):j + 3])},
                                       "no_input": True})
        # one-answer-line-per-case correspondences: hidmerge, friphase
        for stem, corr, dead_prefix, dead_thm in (("c14m", CORRESPONDENCE_MERGE, "hidmerge ok-dead", "hidMerge_complete"),
                                                   ("c14p", CORRESPONDENCE_PHASE, None, None),
                                                   ("c14s", CORRESPONDENCE_SIB, None, None)):
            if not (os.path.exists(f"{out}/{stem}.cases") and os.path.getsize(f"{out}/{stem}.cases") > 0):
                continue
            with open(f"{out}/{stem}.cases") as fin:
                rc, mo = ctx["sh"]([driver], stdin=fin, timeout=3600)
            with open(f"{out}/{stem}.model", "w") as fh:
                fh.write(mo)
            mimpl, mmodel, mcases = _read(f"{out}/{stem}.impl"), _read(f"{out}/{stem}.model"), _read(f"{out}/{stem}.cases")
            while mmodel and mmodel[-1] == "":
                mmodel.pop()
            tot["lines"] += len(mimpl)
            shown = 0
            for k in range(max(len(mimpl), len(mmodel))):
                a = mimpl[k] if k < len(mimpl) else None
                b = mmodel[k] if k < len(mmodel) else None
                if dead_prefix and b is not None and b.startswith(dead_prefix):
                    violations.append({"class": "model-self-check", "what": f"model: theorem {dead_thm} contradicted by evaluation: {b}",
                                       "replay": {"case_line": mcases[k] if k < len(mcases) else ""}, "no_input": True})
                if a != b:
                    tot["disagreements"] += 1
                    if shown < 3:
                        shown += 1
                        violations.append({"class": "model-disagreement",
                                           "what": f"correspondence {corr} no longer checks: impl={a!r} model={b!r}",
                                           "replay": {"correspondence": corr, "case_line": mcases[k] if k < len(mcases) else "",
                                                      "impl": a, "model": b},
                                           "no_input": True})
    cov = {"evaluations": tot["evaluations"] + tot["perturbations"] + tot["merges"] + tot["phases"] + tot["sibs"],
           "sibcheck_cases": tot["sibs"], "sibcheck_distinct": tot["sib_distinct"],
           "hidmerge_cases": tot["merges"], "hidmerge_distinct": tot["merge_distinct"],
           "friphase_cases": tot["phases"], "friphase_distinct": tot["phase_distinct"],
           "shape_perturbations": tot["shape_perturbations"], "shape_followup_perturbations": tot["shape_followups"],
           "shapes": tot["evaluations"], "inputs_read_back": tot["inputs"], "perturbations": tot["perturbations"],
           "distinct_nontrivial": tot["distinct"] + tot["merge_distinct"] + tot["phase_distinct"] + tot["sib_distinct"],
           "rule": "shapes: seeded generator over {uni, batch} x {TwoAdicFriPcs+MerkleTreeMmcs, HidingFriPcs+MerkleTreeMmcs, "
                   "HidingFriPcs+MerkleTreeHidingMmcs (BabyBear, D=4, E=8), TwoAdicFriPcs (Goldilocks, D=2, E=4)}: 1-4 tables, widths 0-5, "
                   "optional next-row / preprocessed / random openings, 0-4 quotient chunks of 0-4 values, cap roots {1,2,4}, 0-3 FRI phases with "
                   "log-arity 1-3 (one step in 16 carrying 0-9 siblings instead of 2^log_arity - 1), 0-3 queries, 0-3 batch openings of 0-3 matrices, salts, hiding rounds, lookup terminals, preprocessed "
                   "commitment; distinct = distinct shape lines; every shape allocates, packs, builds and runs a real circuit and every one of its "
                   "inputs is read back (none is trivial). perturbations: every packed position of 7 real proofs (uni / batch x plain / hiding PCS / hiding PCS + salted MMCS, "
                   "+ circuit tables) with single-root commitments, and of the same uni / batch proofs made with a Merkle cap of height 1, 2, 3 (quick; "
                   "thorough also 4, 5, 6) and 8 (= every Merkle tree of the proof entirely inside its cap; quick: uni only) on both the input MMCS and "
                   "the FRI commit-phase MMCS, each judged by the native verifier and by the circuit runner; static oracles on each of these verifier "
                   "circuits: every allocated input is an operand of some operation, and has a dataflow path into a Poseidon permutation (transcript "
                   "absorption or Merkle leaf hash); structural perturbations: for the same proofs every "
                   "container (opened-value vectors, quotient chunk lists, hiding random openings at all four nesting levels, FRI commit-phase caps / PoW "
                   "witnesses / query proofs / batch openings / matrices / rows / salts / steps / siblings / final polynomial, instances, lookup terminals, "
                   "air public values) pushed and popped by one, every option dropped / supplied, every cap doubled / halved, every log_arity +-1; the "
                   "verifier circuit is rebuilt for the mutated proof; if it accepts, every surplus element and first/last of every other kind is altered; "
                   "hidmerge: seeded opening structures (0-4 rounds x 0-4 matrices x 0-3 points) against hiding shapes, mirrored or with 1-2 discrepancies "
                   "(surplus / missing round, matrix, point on either side), through the real HidingFriPcs::verify_circuit (plain and salted MMCS); "
                   "friphase: one FRI query over a single matrix, log_blowup {0..3} (0 rarely, to reach the log_folded_height == 0 skip), "
                   "log_final_poly_len {0,1,2}, 1-4 phases of log-arity 1-3, cap heights of the input commitment and of every commit-phase commitment "
                   "in {none, whole tree, one below, in between, one too many} or one MMCS cap height clamped per tree, x {TwoAdicFriPcs, HidingFriPcs, "
                   "HidingFriPcs + salted MMCS}: verifier circuit built by the real verify_circuit, per opening 'values / salt reach a Poseidon "
                   "permutation' read off the circuit graph; "
                   "sibcheck: 1-3 query proofs over a schedule of 0-4 phases of log-arity 1-5, well-formed (1 in 4) or with 1-2 discrepancies (sibling count "
                   "+1 / -1 / 0 / that of the next or previous arity / +2..5, a step's log-arity changed, a step dropped or added, a log-arity 0; second family, own process: a log-arity in "
                   "{28,31,32,33,40,62,63,64,65,128,200,255}) x {TwoAdicFriPcs, HidingFriPcs, HidingFriPcs + salted MMCS}: verifier circuit built by the real "
                   "verify_circuit (verify_fri_circuit directly when the schedule exceeds the field's two-adicity), answer = which shape check fired",
           "samples": samples[:6], "input_distribution": hist,
           "traces_validated_against_impl": tot["lines"], "disagreements_checked": tot["disagreements"],
           "campaign": compress_campaign(campaign), "corpus_notes": corpus_notes, "model_flags": model_flags,
           "known_not_reproduced": []}
    return violations, cov


def compress_campaign(campaign):
    """Per-setup records carry two detailed histograms (`kinds`, `shape_kinds`); with several hundred setups they make the
    evidence file several MB. Keep the per-setup scalars, sum the histograms over all setups."""
    tot_k, tot_s, rows = {}, {}, []

    def add(dst, h):
        if isinstance(h, dict):
            for k, v in h.items():
                if isinstance(v, (int, float)):
                    dst[k] = dst.get(k, 0) + v
                else:
                    dst[k] = dst.get(k, 0) + 1
        elif isinstance(h, list):
            for k in h:
                dst[str(k)] = dst.get(str(k), 0) + 1
    for c in campaign:
        add(tot_k, c.get("kinds")); add(tot_s, c.get("shape_kinds"))
        rows.append({k: v for k, v in c.items() if k not in ("kinds", "shape_kinds") and len(json.dumps(v)) < 200})
    return {"setups": len(campaign), "per_setup": rows[:400], "kinds_total": tot_k, "shape_kinds_total": dict(sorted(tot_s.items(), key=lambda kv: -kv[1])[:300])}


CHECK = {
    "lean_modules": ["P3R.Props.C14Siblings", "P3R.Props.C14", "P3R.Witness.C14", "P3R.Props.C14Merge", "P3R.Witness.C14Merge",
                     "P3R.Props.C14Phases", "P3R.Witness.C14Phases", "P3R.Props.C14Labels", "P3R.Witness.C14Labels"],
    "lean_exes": ["p3r_driver_c14"],
    "theorems": [
        "P3R.C14.packing_aligned_uni", "P3R.C14.packing_aligned_batch",
        "P3R.C14.lengths_eq_uni", "P3R.C14.lengths_eq_batch", "P3R.C14.flat_lens_total",
        "P3R.C14.packed_position_uni", "P3R.C14.packed_position_batch",
        "P3R.C14.no_dead_input_uni", "P3R.C14.no_dead_input_batch",
        "P3R.C14.no_dead_input_uni_coeffs", "P3R.C14.no_dead_input_batch_coeffs",
        "P3R.C14.no_dead_input_uni_built", "P3R.C14.no_dead_input_batch_built",
        "P3R.C14.friSibCheck_ok_iff", "P3R.C14.friSibCheck_ok_coeffs", "P3R.C14.friSibCheck_ok_wf", "P3R.C14.malformed_siblings_rejected",
        "P3R.C14.friSibCheck_ok_schedule", "P3R.C14.friSibCheck_ok_of_wf", "P3R.C14.friSibCheck_large_arity_err",
        "P3R.Witness.C14.bad_lengths", "P3R.Witness.C14.bad_rejected", "P3R.Witness.C14.bad_rejected'", "P3R.Witness.C14.sib_check_needed",
        "P3R.Witness.C14.bad_aligned", "P3R.Witness.C14.pub_aligned_unconditional",
        "P3R.C14.hidMerge_complete", "P3R.C14.hidMerge_no_dead_input", "P3R.C14.hidMerge_ok_iff", "P3R.C14.hidMerge_error_of_mismatch",
        "P3R.Witness.C14.points_check_needed", "P3R.Witness.C14.surplus_point_lengths", "P3R.Witness.C14.surplus_point_rejected",
        "P3R.C14.friPhases_eq_replicate", "P3R.C14.friPhases_all_mmcs", "P3R.C14.friPhases_cap_independent", "P3R.C14.stepUsesAt_mmcs",
        "P3R.Witness.C14.blowup_needed", "P3R.Witness.C14.skipped_salts_dead",
        # label distinctness for every shape (Props/C14Labels.lean)
        "P3R.C14.alloc_labels_nodup_uni", "P3R.C14.alloc_labels_nodup_batch",
        "P3R.C14.alloc_labels_nodup_uni_all", "P3R.C14.alloc_labels_nodup_batch_all",
        "P3R.C14.packed_position_unique_uni", "P3R.C14.packed_position_unique_batch",
        "P3R.C14.allDistinct_uni", "P3R.C14.allDistinct_batch", "P3R.Packing.allDistinct_iff",
        "P3R.Packing.render_injective", "P3R.Packing.nm_ok", "P3R.Packing.Nm.str_injective",
        "P3R.Packing.uniPub_render", "P3R.Packing.uniPriv_render", "P3R.Packing.batchPub_render", "P3R.Packing.batchPriv_render",
        "P3R.Packing.uniT_nodup", "P3R.Packing.batchT_nodup",
        "P3R.Witness.C14.render_examples", "P3R.Witness.C14.wUni_sizes", "P3R.Witness.C14.wBatch_sizes", "P3R.Witness.C14.wUni_pos",
        "P3R.Witness.C14.digit_in_name_collides", "P3R.Witness.C14.dot_in_name_collides", "P3R.Witness.C14.empty_name_collides",
    ],
    "run": run,
    "trusted_base": [
        "label naming scheme of lean/P3R/Model/Packing.lean: distinctness of the model's labels is PROVED for every shape "
        "(P3R.C14.alloc_labels_nodup_uni/batch, via structured labels Model/PackingLabels.lean + P3R.Packing.render_injective; the driver's "
        "per-shape `distinct` flag is still evaluated, P3R.C14.allDistinct_uni/batch say it is always 1); that the harness's two walks give "
        "the same names to the Rust targets / elements is checked per generated shape by the line-exact comparison (next item)",
        "harness/src/c14_cfg.rs: the two hand-written walks (proof structures, target structures) that give names to elements and targets",
        "BatchProofTargets::opened_values_targets and CommonDataTargets::preprocessed are crate-private: per-instance opened-value targets are "
        "reached through the public flattened view, the preprocessed commitment's targets by elimination (last unlabelled public inputs)",
        "hidMerge is a transcription of merge_hiding_random_openings (private fn): tied to the Rust only through the verdict of "
        "HidingFriPcs::verify_circuit (which check fired), and end-to-end by the structural perturbation campaign",
        "friSibCheck is a transcription of the shape loop at the head of verify_fri_circuit (schedule entry 0 / opening count / log_arity vs "
        "schedule / sibling coefficient count, checked arithmetic with usize::BITS = 64); tied to the Rust by which InvalidProofShape the real "
        "verify_circuit returns (message text: 'query q phase k'), for log-arities up to 255",
        "friPhases is a transcription of the commit-phase loop of verify_fri_circuit (control flow only: skip / verify / refuse per phase); tied to "
        "the Rust by reading, per opening of circuits built by the real verify_circuit, whether its values and salt reach a Poseidon permutation",
        "structural perturbation walk (harness/src/c14_campaign.rs ShapeVis / swalk_*): hand-written enumeration of the proof's containers",
        "static oracles (harness/src/c14_campaign.rs static_oracles): operand sets read from the public fields of p3_circuit::Op; a Poseidon "
        "permutation is recognised by the NpoTypeId prefix 'poseidon'; 'created by an op' = operand not defined by an earlier op",
        "no_dead_input is about the block-level consumption model (…Uses); that a consumed operand is constrained is the subject of "
        "C05/C07/C08/C13/C20 and is observed here only through the perturbation campaign",
    ],
    "assumptions": [
        "alloc_labels_nodup_* / packed_position_unique_* / allDistinct_*: no hypothesis on the shape (every length / option / count, every D, E); "
        "render_injective rests on the side condition NameOk (non-empty, no '.', no decimal digit) of the 30 component names, discharged by "
        "`decide` (nm_ok); each clause is needed (P3R.Witness.C14.digit_in_name_collides / dot_in_name_collides / empty_name_collides)",
        "packing_aligned_* / lengths_eq_* / packed_position_*: no hypothesis (the former one, well-formed sibling counts, is gone with /repo "
        "fc0321f: allocation and packing both read sibling_values.len(); generated shapes include malformed counts)",
        "no_dead_input_*_built: the verifier's build-time check of the per-query folding data passes (friSibCheck = ok); every other shape — in "
        "particular every malformed sibling count, P3R.C14.malformed_siblings_rejected — yields InvalidProofShape and no circuit (sibcheck "
        "correspondence; corpus/c14/malformed_siblings.json replayed every run; structural campaign: sibling push/pop and log_arity +-1 on real "
        "proofs must be refused by the verifier-circuit builder). no_dead_input_* (hypothesis wf) kept as before. Without either hypothesis the "
        "statement is false: P3R.Witness.C14.sib_check_needed",
        "no_dead_input: shapes accepted by the verifier's own shape validation (preprocessed openings only with a preprocessed commitment, "
        "lookup terminals only with a permutation commitment); other shapes yield InvalidProofShape and no circuit",
        "commit-phase steps: the block stepUses (siblings and salts of every phase) of pcsUses is justified by friPhases_eq_replicate for "
        "log_blowup + log_final_poly_len >= 1 (every FRI configuration has log_blowup >= 1), for every cap height; without it the last phase can be "
        "fold-only and its salts dead (P3R.Witness.C14.blowup_needed, skipped_salts_dead)",
        "hiding PCS: the block `optL p.hid hidPriv` of pcsUses is justified by hidMerge_complete for proofs on which the merge succeeds; on every "
        "other proof merge_hiding_random_openings returns InvalidProofShape and no circuit is built (hidMerge_ok_iff)",
        "a structurally mutated proof that the rebuilt circuit accepts while the native verifier rejects is a C14 violation only if one of its "
        "inputs is dead (altering it leaves the circuit accepting); shape acceptance as such (observed: one FRI query proof fewer — the number of "
        "queries is taken from the proof, FriVerifierParams has no num_queries) is listed in coverage.campaign[].shape_accepted, subject of C01/C15",
        "allocation and packing use the same proof shape (allocate(proof) then pack_values(proof') with shape(proof') = shape(proof)); a proof of a "
        "different shape is refused by set_public_inputs / set_private_inputs on length, or is C15's subject",
        "static oracle input-not-hash-bound: every element of a STARK/FRI proof is absorbed by the Fiat-Shamir transcript or hashed into a Merkle "
        "leaf that is compared with a commitment (holds for every campaign setup on the unchanged code); it is a necessary condition for an "
        "opening to be bound to its commitment, not a sufficient one",
        "Merkle sibling digests are not circuit inputs (HashProofTargets::new allocates nothing); they are NPO private data, outside the packed "
        "vectors and outside this property's quantifier",
    ],
}

MANIFEST_ENTRY = {
    "property_id": "C14",
    "quick_cmd": "bin/check C14 --tier quick",
    "thorough_cmd": "bin/check C14 --tier thorough",
    "evidence_file": "evidence/C14.json",
    "replay_cmd_template": "bin/check C14 --replay {path}",
    "engine": "lean-models",
    "technique": "Lean 4 theorems over separately transcribed allocation / public-packing / private-packing traversals of every Recursive "
                 "implementation, for every shape, and over the guarded zips of merge_hiding_random_openings; differential correspondence by "
                 "sentinel read-back through real circuits and by the shape verdict of the real HidingFriPcs::verify_circuit; single-position and "
                 "structural (one container grown / shrunk, circuit rebuilt) perturbation of real proofs against the native verifier, on proofs "
                 "with single-root commitments and with Merkle caps of height 1-8 on both MMCSs; Lean model of the FRI commit-phase loop "
                 "(which openings are verified against their commitment, as a function of FRI parameters, folding schedule and cap heights) "
                 "compared with the graph of circuits built by the real verify_circuit; Lean model of the shape loop at the head of "
                 "verify_fri_circuit (sibling counts, schedule) compared with the refusal of the real builder; static dataflow oracles on every "
                 "verifier circuit",
    "level_claimed": {
        "category": "proof",
        "text": "for every proof shape (tables, widths, optional openings, chunks, cap heights, FRI phases and arities, queries, batch "
                "openings, salts, hiding random openings, lookup terminals, preprocessed commitment, D, E): packed public / private vectors = "
                "public / private allocations in order, lengths = public_flat_len / private_flat_len, positions are identified by labels that are "
                "pairwise different for every shape (alloc_labels_nodup_*, packed_position_unique_*), and every allocated input is consumed by "
                "the verifier model for every shape whose verifier circuit gets built (a malformed sibling count is refused at build time: "
                "malformed_siblings_rejected, replayed; without the build check surplus siblings are dead: sib_check_needed). Tied to the Rust "
                "by line-exact comparison of allocation traces and packed label sequences obtained from sentinel-filled proofs through the real "
                "allocate / pack / build / run, and by perturbing every packed position of real proofs (native rejects <=> runner fails); "
                "for every folding schedule and every cap height, with log_blowup + log_final_poly_len >= 1, every commit-phase opening is "
                "hashed and compared with its commitment (friPhases_eq_replicate), tied to the Rust by the friphase correspondence; the build-time "
                "refusal of malformed per-query folding data is tied to the Rust by the sibcheck correspondence",
        "design_ref": "4/C14",
    },
    "level_note": "Lean kernel + 3 standard axioms; label distinctness proved for every shape (alloc_labels_nodup_*, packed_position_unique_*: "
                  "a label names exactly one position / one allocated input; string rendering of structured labels proved injective); "
                  "consumption model is block-level; "
                  "two crate-private target fields reached indirectly"
                  "",
}
