/-
C16 line-protocol driver. One command per stdin line, one canonical result line out; nothing is
defaulted; unknown / malformed command → `bad-op`.

  verify <exp> | <meta> | <meta'> | base=<accept|reject>
      <exp>  = d=<D> w=<none|W> q=<0|1> reg=<-|name:F:<mainW>:<prepW>,name:L:<mainPerLane>:<prepPerLane>,…>
      <meta> = d= w= q= av= pl= al= mh= hk= npol=<-|name:n;…> rows=a,b,c
               np=<-|name:rows:lanes:variant:<-|pv,pv…>;…> common=<none|ncap:<e,e,…>|<inst,…>|<m2i,…>>
               (inst = `-` or matrixIndex:width:degreeBits)
      The proof body is the one produced for <meta> (its shape is `bodyOf (sysOf meta)`); the
      cryptographic check is instantiated with the ideal one: the body verifies against exactly
      the system it was produced for, with verdict `base`.
      → verdict <accept|meta:<Err>|unknown-op|reject|panic> ; stage=<…> airs-changed=<0|1>
  encode <meta>                → tokens t,t,…        (postcard token stream of the metadata)
  decode <digestLen> t,t,…     → meta-ok <re-encoded tokens> | decode-fail
  sig <const|public|alu> d=<D> lanes=<l> k=<k>   → sig main=<w> prep=<w>
  manifest d=<D> red=<base|bin:<W>|quintic> av=<0|1> np=<-|name:variant:pvlen;…> | <meta>
      `VerifierManifest::matches` of that manifest on a proof with that metadata
      → matches <ok|err:<ProofMetadataError variant>[@<index>]>
-/
import P3R.Model.Metadata
import P3R.Model.Manifest

open P3R.Metadata

namespace C16Driver

def nameOf (s : String) : Name := s.toList.map Char.toNat

def kv (toks : List String) (key : String) : Option String :=
  toks.findSome? fun t =>
    match t.splitOn "=" with
    | k :: rest => if k == key then some ("=".intercalate rest) else none
    | _ => none

def csvNats (s : String) : Option (List Nat) :=
  if s == "-" || s == "" then some [] else (s.splitOn ",").mapM String.toNat?

def optNat (s : String) : Option (Option Nat) :=
  if s == "none" then some none else s.toNat?.map some

def chunks (l : List Nat) (n k : Nat) : List (List Nat) :=
  (List.range n).map fun i => (l.drop (i * k)).take k

def parseInst (s : String) : Option (Option InstMeta) :=
  if s == "-" then some none else
  match s.splitOn ":" with
  | [a, b, c] => do
    let a ← a.toNat?; let b ← b.toNat?; let c ← c.toNat?
    pure (some ⟨a, b, c⟩)
  | _ => none

def parseCommon (s : String) : Option (Option Common) :=
  if s == "none" then some none else
  match s.splitOn "|" with
  | [cm, inst, m2i] =>
    match cm.splitOn ":" with
    | [ncap, elems] => do
      let ncap ← ncap.toNat?
      let elems ← csvNats elems
      let per := if ncap = 0 then 0 else elems.length / ncap
      let insts ← if inst == "-" then some [] else (inst.splitOn ",").mapM parseInst
      let m2i ← csvNats m2i
      pure (some ⟨chunks elems ncap per, insts, m2i⟩)
    | _ => none
  | _ => none

def parseEntry (s : String) : Option Entry :=
  match s.splitOn ":" with
  | [nm, rows, lanes, variant, pvs] => do
    let rows ← rows.toNat?; let lanes ← lanes.toNat?; let variant ← variant.toNat?
    let pvs ← csvNats pvs
    pure ⟨nameOf nm, rows, lanes, pvs, variant⟩
  | _ => none

def parseNpol (s : String) : Option (Name × Nat) :=
  match s.splitOn ":" with
  | [nm, n] => do let n ← n.toNat?; pure (nameOf nm, n)
  | _ => none

def semis {α} (f : String → Option α) (s : String) : Option (List α) :=
  if s == "-" then some [] else (s.splitOn ";").mapM f

def parseMeta (part : String) : Option Meta := do
  let t := part.trim.splitOn " "
  let d ← (← kv t "d").toNat?
  let w ← optNat (← kv t "w")
  let q ← (← kv t "q").toNat?
  let av ← (← kv t "av").toNat?
  let pl ← (← kv t "pl").toNat?
  let al ← (← kv t "al").toNat?
  let mh ← (← kv t "mh").toNat?
  let hk ← (← kv t "hk").toNat?
  let npol ← semis parseNpol (← kv t "npol")
  let rows ← csvNats (← kv t "rows")
  let np ← semis parseEntry (← kv t "np")
  let common ← parseCommon (← kv t "common")
  match rows with
  | [a, b, c] => pure ⟨⟨pl, al, npol, mh, hk⟩, (a, b, c), av, d, w, q != 0, np, common⟩
  | _ => none

def parsePlugin (s : String) : Option Plugin :=
  match s.splitOn ":" with
  | [nm, "F", a, b] => do let a ← a.toNat?; let b ← b.toNat?; pure ⟨nameOf nm, .fixed a b⟩
  | [nm, "L", a, b] => do let a ← a.toNat?; let b ← b.toNat?; pure ⟨nameOf nm, .perLane a b⟩
  | _ => none

def parseExp (part : String) : Option (Expected × List Plugin) := do
  let t := part.trim.splitOn " "
  let d ← (← kv t "d").toNat?
  let w ← optNat (← kv t "w")
  let q ← (← kv t "q").toNat?
  let regS ← kv t "reg"
  let reg ← if regS == "-" then some [] else (regS.splitOn ",").mapM parsePlugin
  pure (⟨d, w, q != 0⟩, reg)

def csv (l : List Nat) : String := if l.isEmpty then "-" else ",".intercalate (l.map toString)

def verdictStr : Verdict → String
  | .accept => "accept"
  | .metaErr e => s!"meta:{e}"
  | .unknownOp => "unknown-op"
  | .reject _ => "reject"
  | .panic => "panic"

def stageStr : Verdict → String
  | .reject s => s
  | .accept => "crypto"
  | .metaErr _ => "meta"
  | .unknownOp => "airs"
  | .panic => "symbolic-eval"

def runVerify (rest : String) : Option String := do
  match rest.splitOn " | " with
  | [e, m0, m1, b] =>
    let (exp, reg) ← parseExp e
    let orig ← parseMeta m0
    let alt ← parseMeta m1
    let base ← kv (b.trim.splitOn " ") "base"
    let baseOk := base == "accept"
    -- the body is the one produced for `orig`
    let s0 ← sysOf exp reg orig
    let body := bodyOf s0
    let crypto : Sys → Bool := fun s => decide (s = s0) && baseOk
    let v := verify crypto body exp reg alt
    let changed := match sysOf exp reg alt with
      | some s => if s.airs = s0.airs then 0 else 1
      | none => 1
    pure s!"verdict {verdictStr v} ; stage={stageStr v} airs-changed={changed}"
  | _ => none

def runSig (toks : List String) : Option String := do
  match toks with
  | kind :: rest =>
    let d ← (← kv rest "d").toNat?
    let l ← (← kv rest "lanes").toNat?
    let k ← (← kv rest "k").toNat?
    let a : AirDesc ← match kind with
      | "const" => some (.const d)
      | "public" => some (.pub d l)
      | "alu" => some (.alu d l k .base)
      | _ => none
    pure s!"sig main={a.mainW} prep={a.prepW}"
  | _ => none

def parseExpEntry (s : String) : Option ExpEntry :=
  match s.splitOn ":" with
  | [nm, v, l] => do let v ← v.toNat?; let l ← l.toNat?; pure ⟨nameOf nm, v, l⟩
  | _ => none

def parseRed (s : String) : Option Red :=
  match s.splitOn ":" with
  | ["base"] => some .base
  | ["quintic"] => some .quintic
  | ["bin", w] => w.toNat?.map .binomial
  | _ => none

def parseManifest (part : String) : Option Manifest := do
  let t := part.trim.splitOn " "
  let d ← (← kv t "d").toNat?
  let red ← parseRed (← kv t "red")
  let av ← (← kv t "av").toNat?
  let np ← semis parseExpEntry (← kv t "np")
  pure ⟨d, red, av, np⟩

def manErrStr : ManErr → String
  | .extDegree => "ExtDegreeMismatch"
  | .binomialW => "BinomialWMismatch"
  | .quintic => "QuinticReductionMismatch"
  | .aluVariant => "AluVariantMismatch"
  | .npoCount => "NpoCountMismatch"
  | .npoOp i => s!"NpoOpTypeMismatch@{i}"
  | .npoVariant i => s!"NpoAirVariantMismatch@{i}"
  | .npoPvLen i => s!"NpoPublicValueLenMismatch@{i}"

def runManifest (rest : String) : Option String := do
  match rest.splitOn " | " with
  | [ms, m] =>
    let man ← parseManifest ms
    let mt ← parseMeta m
    match manifestMatches man mt with
    | .ok _ => pure "matches ok"
    | .error e => pure s!"matches err:{manErrStr e}"
  | _ => none

def handle (line : String) : String :=
  let line := line.trim
  match line.splitOn " " with
  | "verify" :: _ => (runVerify (line.drop 7).toString).getD "bad-op"
  | "encode" :: _ =>
    match parseMeta (line.drop 7).toString with
    | some m => s!"tokens {csv (encodeMeta m)}"
    | none => "bad-op"
  | ["decode", n, toks] =>
    match n.toNat?, csvNats toks with
    | some n, some ts =>
      match decodeMeta n ts with
      | some (m, []) => s!"meta-ok {csv (encodeMeta m)}"
      | _ => "decode-fail"
    | _, _ => "bad-op"
  | "sig" :: rest => (runSig rest).getD "bad-op"
  | "manifest" :: _ => (runManifest (line.drop 9).toString).getD "bad-op"
  | _ => "bad-op"

partial def loop (h : IO.FS.Stream) (out : IO.FS.Stream) : IO Unit := do
  let line ← h.getLine
  if line.isEmpty then return
  out.putStrLn (handle line)
  loop h out

end C16Driver

def main : IO Unit := do
  let stdin ← IO.getStdin
  let stdout ← IO.getStdout
  C16Driver.loop stdin stdout
