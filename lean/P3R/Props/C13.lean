/-
C13 — translated AIR constraints evaluate like the native constraint folder.

Property theorems for the model `P3R.Model.SymCompile` (L12) on top of the L1 expression
builder, for every commutative ring `K` (the circuit field), every symbolic DAG (any number of
nodes, any depth, any sharing; base and extension layers; every leaf kind), every cache
content that satisfies the cache invariant, every builder state that satisfies the pool
invariant, and every assignment of the public inputs:

* `compileBase_sound` — `compile_base` terminates within its fuel `3·|nodes| + 1` and the id it
  returns evaluates (`BState.val`) to the native recursive value of the root; it keeps the
  value of every existing id and re-establishes the cache / pool invariants.
* `compileExt_sound` — the same for `compile_ext`, including lifted base sub-trees (which go
  through `compile_base` with the shared base cache).
* `evalFoldedAir_sound` — **the full C13 statement**: for every emission order of base and
  extension constraints, the target returned by `eval_folded_circuit` evaluates to the native
  constraint folder's accumulator (`acc ← acc·α + c` in emission order).

  History: before the repair of finding F-C13-1 `eval_folded_circuit` folded all base
  constraints before all extension constraints and this statement was false for AIRs that
  assert an extension constraint before a base constraint; only a `…_partial` version under
  `BaseFirst em` was provable. `Witness/C13.lean` keeps the two-constraint AIR as a record
  (and as a regression case of the harness).
* `nativeFoldedT_eq` — the bottom-up tables the driver executes equal the recursive native
  evaluation the theorems speak about.
-/
import P3R.Lemmas.BuilderSound
import P3R.Lemmas.WorkStack
import P3R.Lemmas.SymNative

set_option linter.unusedSectionVars false

namespace P3R.C13
open P3R P3R.WSL

variable {K : Type} [CommRing K] [DecidableEq K]

/-- The targets handed to the compiler carry the opened values the native folder is given:
wherever the native side can read a value, the circuit side has a target with that value. -/
structure Agree (val : Nat → Option K) (T : Cols Nat) (E : Cols K) : Prop where
  first : val T.isFirst = some E.isFirst
  last : val T.isLast = some E.isLast
  trans : val T.isTrans = some E.isTrans
  cat : ∀ (c : Cat) (i : Nat) (v : K), (E.cat c)[i]? = some v → ∃ id, (T.cat c)[i]? = some id ∧ val id = some v

theorem Agree.mono {val val' : Nat → Option K} {T : Cols Nat} {E : Cols K} (h : Agree val T E)
    (hle : ∀ i v, val i = some v → val' i = some v) : Agree val' T E :=
  ⟨hle _ _ h.first, hle _ _ h.last, hle _ _ h.trans, fun c i v hv =>
    let ⟨id, h1, h2⟩ := h.cat c i v hv; ⟨id, h1, hle _ _ h2⟩⟩

/-- Invariant carried through `compile_base`: pools sound, nothing of the start state lost. -/
def IB (ρ : Nat → K) (s0 : BState K) (s : BState K) : Prop := BInv ρ s ∧ Le ρ s0 s

theorem baseShape_leaf_cases {dag : Array (BNode K)} {n : Nat} (h : baseShape dag n = some .leaf) :
    (∃ c, dag[n]? = some (.const c)) ∨ (∃ e j, dag[n]? = some (.var e j)) ∨ dag[n]? = some .isFirst ∨
      dag[n]? = some .isLast ∨ dag[n]? = some .isTrans := by
  unfold baseShape at h
  cases hnd : dag[n]? with
  | none => simp [hnd] at h
  | some nd => cases nd <;> simp_all

/-- The hypotheses of the generic work-stack theorem hold for `compile_base`. -/
theorem hyp_base (ρ : Nat → K) (s0 : BState K) (dag : Array (BNode K)) (hwf : WfB dag) (T : Cols Nat)
    (E : Cols K) (hA : Agree (s0.val ρ) T E) :
    Hyp baseOps (baseShape dag) (baseLeaf dag T) (fun s i => s.val ρ i) (IB ρ s0) (nvB dag E) where
  zero_sound := by
    intro s hI
    obtain ⟨h1, h2, h3⟩ := defineConst_sound hI.1 (0 : K)
    exact ⟨⟨h1, Le.trans hI.2 h2⟩, h2, h3⟩
  bin_sound := by
    intro op s l r a b hI hl hr
    cases op with
    | add =>
      obtain ⟨h1, h2, h3⟩ := add_sound hI.1 l r a b hl hr
      exact ⟨⟨h1, Le.trans hI.2 h2⟩, h2, h3⟩
    | sub =>
      obtain ⟨h1, h2, h3⟩ := sub_sound hI.1 l r a b hl hr
      exact ⟨⟨h1, Le.trans hI.2 h2⟩, h2, h3⟩
    | mul =>
      obtain ⟨h1, h2, h3⟩ := mul_sound hI.1 l r a b hl hr
      exact ⟨⟨h1, Le.trans hI.2 h2⟩, h2, h3⟩
  sub_is_bin := fun _ _ _ => rfl
  leaf_sound := by
    intro n s v hsh hv hI
    rw [nvB_step hwf] at hv
    have hAs : Agree (s.val ρ) T E := hA.mono hI.2
    rcases baseShape_leaf_cases hsh with ⟨c, hc⟩ | ⟨e, j, hc⟩ | hc | hc | hc
    · simp only [hc, stepBf] at hv
      cases hv
      obtain ⟨h1, h2, h3⟩ := defineConst_sound hI.1 v
      exact ⟨(s.defineConst v).1, (s.defineConst v).2, by simp [baseLeaf, hc],
        ⟨h1, Le.trans hI.2 h2⟩, h2, h3⟩
    · simp only [hc, stepBf, Cols.base] at hv
      cases hcat : e.cat with
      | none => simp [hcat] at hv
      | some c =>
        simp only [hcat] at hv
        obtain ⟨id, hid, hval⟩ := hAs.cat c j v hv
        exact ⟨s, id, by simp [baseLeaf, hc, Cols.base, hcat, hid], hI, fun _ _ h => h, hval⟩
    · simp only [hc, stepBf] at hv
      cases hv
      exact ⟨s, T.isFirst, by simp [baseLeaf, hc], hI, fun _ _ h => h, hAs.first⟩
    · simp only [hc, stepBf] at hv
      cases hv
      exact ⟨s, T.isLast, by simp [baseLeaf, hc], hI, fun _ _ h => h, hAs.last⟩
    · simp only [hc, stepBf] at hv
      cases hv
      exact ⟨s, T.isTrans, by simp [baseLeaf, hc], hI, fun _ _ h => h, hAs.trans⟩
  shape_some := by
    intro n v hv
    rw [nvB_step hwf] at hv
    cases hnd : dag[n]? with
    | none => simp [hnd, stepBf] at hv
    | some nd => cases nd <;> simp [baseShape, hnd]
  neg_nv := by
    intro n x v hsh hv
    rw [nvB_step hwf] at hv
    have hnd : dag[n]? = some (.neg x) := by
      unfold baseShape at hsh
      cases hnd : dag[n]? with
      | none => simp [hnd] at hsh
      | some nd => cases nd <;> simp_all
    have hlt := hwf n _ hnd
    simp only [BNode.childrenLt, decide_eq_true_eq] at hlt
    simp only [hnd, stepBf] at hv
    cases ha : nvB dag E x with
    | none => simp [ha] at hv
    | some a => simp only [ha, Option.map_some, Option.some.injEq] at hv; exact ⟨hlt, a, rfl, hv.symm⟩
  bin_nv := by
    intro n op x y v hsh hv
    rw [nvB_step hwf] at hv
    have hnd : (op = .add ∧ dag[n]? = some (.add x y)) ∨ (op = .sub ∧ dag[n]? = some (.sub x y)) ∨
        (op = .mul ∧ dag[n]? = some (.mul x y)) := by
      unfold baseShape at hsh
      cases hnd : dag[n]? with
      | none => simp [hnd] at hsh
      | some nd => cases nd <;> simp_all
    rcases hnd with ⟨rfl, hnd⟩ | ⟨rfl, hnd⟩ | ⟨rfl, hnd⟩ <;>
    · have hlt := hwf n _ hnd
      simp only [BNode.childrenLt, Bool.and_eq_true, decide_eq_true_eq] at hlt
      simp only [hnd, stepBf] at hv
      cases ha : nvB dag E x with
      | none => simp [ha] at hv
      | some a =>
        cases hb : nvB dag E y with
        | none => simp [ha, hb] at hv
        | some b =>
          simp only [ha, hb, Option.some.injEq] at hv
          exact ⟨hlt.1, hlt.2, a, b, rfl, rfl, hv.symm⟩

/-- Cache invariant of the base cache. -/
abbrev CB (ρ : Nat → K) (dag : Array (BNode K)) (E : Cols K) (s : BState K) (c : Cache) : Prop :=
  CInv (fun (s : BState K) i => s.val ρ i) (nvB dag E) s c

theorem nvB_lt_size {dag : Array (BNode K)} (hwf : WfB dag) {E : Cols K} {i : Nat} {v : K}
    (h : nvB dag E i = some v) : i < dag.size := by
  by_contra hc
  rw [nvB_none_of_size hwf E (by omega)] at h; cases h

theorem nvX_lt_size (bdag : Array (BNode K)) {xdag : Array (XNode K)} (hwf : WfX xdag) {E : Cols K}
    {i : Nat} {v : K} (h : nvX bdag xdag E i = some v) : i < xdag.size := by
  by_contra hc
  rw [nvX_none_of_size bdag hwf E (by omega)] at h; cases h

/-- **C13 / `compile_base`.** For every base DAG (children before parents), every root whose
native evaluation is defined, every cache and builder state satisfying the invariants: the
work-stack compiler terminates within its fuel and returns an id that evaluates to the native
recursive value of the root. -/
theorem compileBase_sound (ρ : Nat → K) (s0 s : BState K) (dag : Array (BNode K)) (hwf : WfB dag)
    (T : Cols Nat) (E : Cols K) (hA : Agree (s0.val ρ) T E) (root : Nat) (v : K)
    (hv : nvB dag E root = some v) (cache : Cache) (hI : BInv ρ s) (hle0 : Le ρ s0 s)
    (hC : CB ρ dag E s cache) (hK : KInv dag.size cache) :
    ∃ id cache' s', compileBase dag T root cache s = some (id, cache', s') ∧ BInv ρ s' ∧ Le ρ s s' ∧
      CB ρ dag E s' cache' ∧ KInv dag.size cache' ∧ s'.val ρ id = some v := by
  obtain ⟨id, cache', s', h1, h2, h3, h4, h5, h6⟩ :=
    wsCompile_sound (hyp_base ρ s0 dag hwf T E hA) dag.size (3 * dag.size + 1) root cache s v
      (Nat.le_refl _) (nvB_lt_size hwf hv) hv ⟨hI, hle0⟩ hC hK
  exact ⟨id, cache', s', h1, h2.1, h3, h4, h5, h6⟩

/-- Invariant carried through `compile_ext` (builder + base cache). -/
def IX (ρ : Nat → K) (s0 : BState K) (bdag : Array (BNode K)) (E : Cols K) (s : BState K × Cache) : Prop :=
  BInv ρ s.1 ∧ Le ρ s0 s.1 ∧ CB ρ bdag E s.1 s.2 ∧ KInv bdag.size s.2

theorem extShape_leaf_cases {dag : Array (XNode K)} {n : Nat} (h : extShape dag n = some .leaf) :
    (∃ r, dag[n]? = some (.base r)) ∨ (∃ e j, dag[n]? = some (.var e j)) ∨
      (∃ c, dag[n]? = some (.const c)) := by
  unfold extShape at h
  cases hnd : dag[n]? with
  | none => simp [hnd] at h
  | some nd => cases nd <;> simp_all

theorem hyp_ext (ρ : Nat → K) (s0 : BState K) (bdag : Array (BNode K)) (hwfb : WfB bdag)
    (xdag : Array (XNode K)) (hwf : WfX xdag) (T : Cols Nat) (E : Cols K)
    (hA : Agree (s0.val ρ) T E) :
    Hyp extOps (extShape xdag) (extLeaf bdag xdag T) (fun (s : BState K × Cache) i => s.1.val ρ i)
      (IX ρ s0 bdag E) (nvX bdag xdag E) where
  zero_sound := by
    intro s hI
    obtain ⟨h1, h2, h3⟩ := defineConst_sound hI.1 (0 : K)
    exact ⟨⟨h1, Le.trans hI.2.1 h2, cinv_mono hI.2.2.1 h2, hI.2.2.2⟩, h2, h3⟩
  bin_sound := by
    intro op s l r a b hI hl hr
    cases op with
    | add =>
      obtain ⟨h1, h2, h3⟩ := add_sound hI.1 l r a b hl hr
      exact ⟨⟨h1, Le.trans hI.2.1 h2, cinv_mono hI.2.2.1 h2, hI.2.2.2⟩, h2, h3⟩
    | sub =>
      obtain ⟨h1, h2, h3⟩ := sub_sound hI.1 l r a b hl hr
      exact ⟨⟨h1, Le.trans hI.2.1 h2, cinv_mono hI.2.2.1 h2, hI.2.2.2⟩, h2, h3⟩
    | mul =>
      obtain ⟨h1, h2, h3⟩ := mul_sound hI.1 l r a b hl hr
      exact ⟨⟨h1, Le.trans hI.2.1 h2, cinv_mono hI.2.2.1 h2, hI.2.2.2⟩, h2, h3⟩
  sub_is_bin := fun _ _ _ => rfl
  leaf_sound := by
    intro n s v hsh hv hI
    rw [nvX_step bdag hwf] at hv
    obtain ⟨hB, hL, hCb, hKb⟩ := hI
    have hAs : Agree (s.1.val ρ) T E := hA.mono hL
    rcases extShape_leaf_cases hsh with ⟨r, hc⟩ | ⟨e, j, hc⟩ | ⟨c, hc⟩
    · simp only [hc, stepXf] at hv
      obtain ⟨id, cache', s', h1, h2, h3, h4, h5, h6⟩ :=
        compileBase_sound ρ s0 s.1 bdag hwfb T E hA r v hv s.2 hB hL hCb hKb
      exact ⟨(s', cache'), id, by simp [extLeaf, hc, h1], ⟨h2, Le.trans hL h3, h4, h5⟩, h3, h6⟩
    · simp only [hc, stepXf, Cols.ext] at hv
      cases hcat : e.cat with
      | none => simp [hcat] at hv
      | some c =>
        simp only [hcat] at hv
        obtain ⟨id, hid, hval⟩ := hAs.cat c j v hv
        exact ⟨s, id, by simp [extLeaf, hc, Cols.ext, hcat, hid], ⟨hB, hL, hCb, hKb⟩,
          fun _ _ h => h, hval⟩
    · simp only [hc, stepXf] at hv
      cases hv
      obtain ⟨h1, h2, h3⟩ := defineConst_sound hB v
      exact ⟨((s.1.defineConst v).1, s.2), (s.1.defineConst v).2, by simp [extLeaf, hc],
        ⟨h1, Le.trans hL h2, cinv_mono hCb h2, hKb⟩, h2, h3⟩
  shape_some := by
    intro n v hv
    rw [nvX_step bdag hwf] at hv
    cases hnd : xdag[n]? with
    | none => simp [hnd, stepXf] at hv
    | some nd => cases nd <;> simp [extShape, hnd]
  neg_nv := by
    intro n x v hsh hv
    rw [nvX_step bdag hwf] at hv
    have hnd : xdag[n]? = some (.neg x) := by
      unfold extShape at hsh
      cases hnd : xdag[n]? with
      | none => simp [hnd] at hsh
      | some nd => cases nd <;> simp_all
    have hlt := hwf n _ hnd
    simp only [XNode.childrenLt, decide_eq_true_eq] at hlt
    simp only [hnd, stepXf] at hv
    cases ha : nvX bdag xdag E x with
    | none => simp [ha] at hv
    | some a => simp only [ha, Option.map_some, Option.some.injEq] at hv; exact ⟨hlt, a, rfl, hv.symm⟩
  bin_nv := by
    intro n op x y v hsh hv
    rw [nvX_step bdag hwf] at hv
    have hnd : (op = .add ∧ xdag[n]? = some (.add x y)) ∨ (op = .sub ∧ xdag[n]? = some (.sub x y)) ∨
        (op = .mul ∧ xdag[n]? = some (.mul x y)) := by
      unfold extShape at hsh
      cases hnd : xdag[n]? with
      | none => simp [hnd] at hsh
      | some nd => cases nd <;> simp_all
    rcases hnd with ⟨rfl, hnd⟩ | ⟨rfl, hnd⟩ | ⟨rfl, hnd⟩ <;>
    · have hlt := hwf n _ hnd
      simp only [XNode.childrenLt, Bool.and_eq_true, decide_eq_true_eq] at hlt
      simp only [hnd, stepXf] at hv
      cases ha : nvX bdag xdag E x with
      | none => simp [ha] at hv
      | some a =>
        cases hb : nvX bdag xdag E y with
        | none => simp [ha, hb] at hv
        | some b =>
          simp only [ha, hb, Option.some.injEq] at hv
          exact ⟨hlt.1, hlt.2, a, b, rfl, rfl, hv.symm⟩

abbrev CX (ρ : Nat → K) (bdag : Array (BNode K)) (xdag : Array (XNode K)) (E : Cols K)
    (s : BState K) (c : Cache) : Prop :=
  CInv (fun (s : BState K × Cache) i => s.1.val ρ i) (nvX bdag xdag E) (s, ([] : Cache)) c

/-- **C13 / `compile_ext`.** -/
theorem compileExt_sound (ρ : Nat → K) (s0 s : BState K) (bdag : Array (BNode K)) (hwfb : WfB bdag)
    (xdag : Array (XNode K)) (hwf : WfX xdag) (T : Cols Nat) (E : Cols K)
    (hA : Agree (s0.val ρ) T E) (root : Nat) (v : K) (hv : nvX bdag xdag E root = some v)
    (bc xc : Cache) (hI : BInv ρ s) (hle0 : Le ρ s0 s) (hCb : CB ρ bdag E s bc)
    (hKb : KInv bdag.size bc) (hCx : CX ρ bdag xdag E s xc) (hKx : KInv xdag.size xc) :
    ∃ id bc' xc' s', compileExt bdag xdag T root bc xc s = some (id, bc', xc', s') ∧ BInv ρ s' ∧
      Le ρ s s' ∧ CB ρ bdag E s' bc' ∧ KInv bdag.size bc' ∧ CX ρ bdag xdag E s' xc' ∧
      KInv xdag.size xc' ∧ s'.val ρ id = some v := by
  have hCx' : CInv (fun (s : BState K × Cache) i => s.1.val ρ i) (nvX bdag xdag E) (s, bc) xc := hCx
  obtain ⟨id, cache', s', h1, h2, h3, h4, h5, h6⟩ :=
    wsCompile_sound (hyp_ext ρ s0 bdag hwfb xdag hwf T E hA) xdag.size (3 * xdag.size + 1) root xc
      (s, bc) v (Nat.le_refl _) (nvX_lt_size bdag hwf hv) hv ⟨hI, hle0, hCb, hKb⟩ hCx' hKx
  refine ⟨id, s'.2, cache', s'.1, ?_, h2.1, h3, h2.2.2.1, h2.2.2.2, h4, h5, h6⟩
  simp [compileExt, h1]

/-! ### Folding -/

theorem nativeFold_append (α : K) (xs ys : List K) :
    nativeFold α (xs ++ ys) = ys.foldl (fun acc c => acc * α + c) (nativeFold α xs) := by
  simp [nativeFold, List.foldl_append]

/-- Loop invariant of the two folding loops. -/
structure FInv (ρ : Nat → K) (s0 : BState K) (bdag : Array (BNode K)) (xdag : Array (XNode K))
    (E : Cols K) (st : FoldSt K) (accv : K) : Prop where
  binv : BInv ρ st.b
  le0 : Le ρ s0 st.b
  cb : CB ρ bdag E st.b st.bc
  kb : KInv bdag.size st.bc
  cx : CX ρ bdag xdag E st.b st.xc
  kx : KInv xdag.size st.xc
  acc : st.b.val ρ st.acc = some accv

theorem foldBaseStep_sound (ρ : Nat → K) (s0 : BState K) (bdag : Array (BNode K)) (hwfb : WfB bdag)
    (xdag : Array (XNode K)) (T : Cols Nat) (E : Cols K) (hA : Agree (s0.val ρ) T E)
    (alpha : Nat) (α : K) (hα : s0.val ρ alpha = some α) (st : FoldSt K) (accv : K) (r : Nat) (c : K)
    (hr : nvB bdag E r = some c) (hF : FInv ρ s0 bdag xdag E st accv) :
    ∃ st', foldBaseStep bdag T alpha st r = some st' ∧ FInv ρ s0 bdag xdag E st' (accv * α + c) := by
  obtain ⟨id, bc', b', h1, h2, h3, h4, h5, h6⟩ :=
    compileBase_sound ρ s0 st.b bdag hwfb T E hA r c hr st.bc hF.binv hF.le0 hF.cb hF.kb
  have hle0' : Le ρ s0 b' := Le.trans hF.le0 h3
  obtain ⟨m1, m2, m3⟩ := mulAdd_sound h2 st.acc alpha id accv α c (h3 _ _ hF.acc) (hle0' _ _ hα) h6
  refine ⟨{ st with b := (b'.mulAdd st.acc alpha id).1, bc := bc', acc := (b'.mulAdd st.acc alpha id).2,
                     ids := st.ids ++ [id] }, by simp [foldBaseStep, h1], ?_⟩
  exact ⟨m1, Le.trans hle0' m2, cinv_mono h4 m2, h5,
    cinv_mono (s' := ((b'.mulAdd st.acc alpha id).1, ([] : Cache))) hF.cx
      (fun i w h => m2 _ _ (h3 _ _ h)), hF.kx, m3⟩

theorem foldExtStep_sound (ρ : Nat → K) (s0 : BState K) (bdag : Array (BNode K)) (hwfb : WfB bdag)
    (xdag : Array (XNode K)) (hwf : WfX xdag) (T : Cols Nat) (E : Cols K)
    (hA : Agree (s0.val ρ) T E) (alpha : Nat) (α : K) (hα : s0.val ρ alpha = some α)
    (st : FoldSt K) (accv : K) (r : Nat) (c : K) (hr : nvX bdag xdag E r = some c)
    (hF : FInv ρ s0 bdag xdag E st accv) :
    ∃ st', foldExtStep bdag xdag T alpha st r = some st' ∧
      FInv ρ s0 bdag xdag E st' (accv * α + c) := by
  obtain ⟨id, bc', xc', b', h1, h2, h3, h4, h5, h6, h7, h8⟩ :=
    compileExt_sound ρ s0 st.b bdag hwfb xdag hwf T E hA r c hr st.bc st.xc hF.binv hF.le0
      hF.cb hF.kb hF.cx hF.kx
  have hle0' : Le ρ s0 b' := Le.trans hF.le0 h3
  obtain ⟨m1, m2, m3⟩ := mulAdd_sound h2 st.acc alpha id accv α c (h3 _ _ hF.acc) (hle0' _ _ hα) h8
  refine ⟨{ b := (b'.mulAdd st.acc alpha id).1, bc := bc', xc := xc',
            acc := (b'.mulAdd st.acc alpha id).2, ids := st.ids ++ [id] },
    by simp [foldExtStep, h1], ?_⟩
  exact ⟨m1, Le.trans hle0' m2, cinv_mono h4 m2, h5,
    cinv_mono (s' := ((b'.mulAdd st.acc alpha id).1, ([] : Cache))) h6 (fun i w h => m2 _ _ h),
    h7, m3⟩

/-- The folding loop, over any emission order. -/
theorem fold_loop (ρ : Nat → K) (s0 : BState K) (bdag : Array (BNode K)) (hwfb : WfB bdag)
    (xdag : Array (XNode K)) (hwf : WfX xdag) (T : Cols Nat) (E : Cols K)
    (hA : Agree (s0.val ρ) T E) (alpha : Nat) (α : K) (hα : s0.val ρ alpha = some α) :
    ∀ (em : Emission) (vals : List K) (st : FoldSt K) (accv : K),
      emissionValues bdag xdag E em = some vals → FInv ρ s0 bdag xdag E st accv →
      ∃ st', em.foldlM (foldStep bdag xdag T alpha) st = some st' ∧
        FInv ρ s0 bdag xdag E st' (vals.foldl (fun acc c => acc * α + c) accv) := by
  intro em
  induction em with
  | nil =>
    intro vals st accv hm hF
    simp [emissionValues] at hm; subst hm
    exact ⟨st, by simp, by simpa using hF⟩
  | cons p ps ih =>
    intro vals st accv hm hF
    unfold emissionValues at hm
    rw [List.mapM_cons] at hm
    cases hp : (if p.1 then nvX bdag xdag E p.2 else nvB bdag E p.2) with
    | none => simp [hp] at hm
    | some c =>
      cases hps : ps.mapM (fun p => if p.1 then nvX bdag xdag E p.2 else nvB bdag E p.2) with
      | none => simp [hp, hps] at hm
      | some cs =>
        simp [hp, hps] at hm
        subst hm
        have hstep : ∃ st1, foldStep bdag xdag T alpha st p = some st1 ∧
            FInv ρ s0 bdag xdag E st1 (accv * α + c) := by
          unfold foldStep
          by_cases hx : p.1 = true
          · simp only [hx, if_true] at hp ⊢
            exact foldExtStep_sound ρ s0 bdag hwfb xdag hwf T E hA alpha α hα st accv p.2 c hp hF
          · have hx' : p.1 = false := by simpa using hx
            simp only [hx', Bool.false_eq_true, if_false] at hp ⊢
            exact foldBaseStep_sound ρ s0 bdag hwfb xdag T E hA alpha α hα st accv p.2 c hp hF
        obtain ⟨st1, h1, hF1⟩ := hstep
        obtain ⟨st', hrun, hF'⟩ := ih cs st1 _ hps hF1
        refine ⟨st', ?_, by simpa using hF'⟩
        simp only [List.foldlM_cons, h1, Option.bind_eq_bind, Option.bind_some]
        exact hrun

/-- **C13.** For every AIR — every emission order `em` of base and extension constraints over
every symbolic DAG (all leaf kinds, any sharing, any depth) — every assignment of the opened
values (`E`, carried by the targets `T`: `Agree`), every challenge `α` and every builder state
satisfying the pool invariant: whenever the native constraint folder evaluates to `v`
(`nativeFolded`: recursive evaluation of every constraint, `acc ← acc·α + c` in emission
order), `eval_folded_circuit` returns a target whose value is `v`. -/
theorem evalFoldedAir_sound (ρ : Nat → K) (s0 : BState K) (hI : BInv ρ s0)
    (bdag : Array (BNode K)) (hwfb : WfB bdag) (xdag : Array (XNode K)) (hwf : WfX xdag)
    (T : Cols Nat) (E : Cols K) (hA : Agree (s0.val ρ) T E) (alpha : Nat) (α : K)
    (hα : s0.val ρ alpha = some α) (em : Emission) (v : K)
    (hv : nativeFolded bdag xdag E α em = some v) :
    ∃ st, evalFoldedAir bdag xdag T alpha em s0 = some st ∧ st.b.val ρ st.acc = some v ∧
      BInv ρ st.b ∧ Le ρ s0 st.b := by
  unfold nativeFolded at hv
  cases hm : emissionValues bdag xdag E em with
  | none => simp [hm] at hv
  | some vals =>
    simp only [hm, Option.map_some, Option.some.injEq] at hv
    obtain ⟨z1, z2, z3⟩ := defineConst_sound hI (0 : K)
    have hF0 : FInv ρ s0 bdag xdag E
        { b := (s0.defineConst 0).1, bc := [], xc := [], acc := (s0.defineConst 0).2, ids := [] } 0 :=
      ⟨z1, z2, fun n id h => by simp at h, kinv_nil _, fun n id h => by simp at h, kinv_nil _, z3⟩
    obtain ⟨st, hrun, hF⟩ := fold_loop ρ s0 bdag hwfb xdag hwf T E hA alpha α hα em vals _ 0 hm hF0
    refine ⟨st, by simpa [evalFoldedAir] using hrun, ?_, hF.binv, hF.le0⟩
    rw [← hv]
    exact hF.acc

/-- The executable tables of the driver compute the native folder value of the theorems. -/
theorem nativeFoldedT_eq (bdag : Array (BNode K)) (hwfb : WfB bdag) (xdag : Array (XNode K))
    (hwf : WfX xdag) (E : Cols K) (α : K) (em : Emission) :
    nativeFoldedT bdag xdag E α em = nativeFolded bdag xdag E α em := by
  unfold nativeFoldedT nativeFolded emissionValues
  have : (fun (p : Bool × Nat) =>
      if p.1 then getv (tableX xdag E (tableB bdag E bdag.size) xdag.size) p.2
      else getv (tableB bdag E bdag.size) p.2) =
      fun p => if p.1 then nvX bdag xdag E p.2 else nvB bdag E p.2 := by
    funext p
    rw [tableX_eq hwfb hwf, tableB_eq hwfb]
  simp only [this]

/-! ### Non-vacuity of the hypotheses -/

/-- `BInv` holds for a fresh builder, `Agree` for the empty column set once three selector
targets exist, `WfB`/`WfX` for small DAGs. -/
example (ρ : Nat → K) : BInv ρ (BState.init : BState K) := binv_init ρ
example : WfB (#[] : Array (BNode K)) := fun i nd h => by simp at h
example : WfX (#[.base 0] : Array (XNode K)) := wfX_sound rfl
example (ρ : Nat → K) :
    Agree ((BState.init : BState K).val ρ) { isFirst := 0, isLast := 0, isTrans := 0, cat := fun _ => #[] }
      { isFirst := 0, isLast := 0, isTrans := 0, cat := fun _ => #[] } :=
  ⟨(binv_init ρ).zero0, (binv_init ρ).zero0, (binv_init ρ).zero0, fun c i v h => by simp at h⟩

end P3R.C13

#print axioms P3R.C13.compileBase_sound
#print axioms P3R.C13.compileExt_sound
#print axioms P3R.C13.evalFoldedAir_sound
#print axioms P3R.C13.nativeFoldedT_eq
