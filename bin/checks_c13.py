"""C13 plug-in for bin/check: translated AIR constraints evaluate like the native folder."""
import json, os, itertools

PROPERTY = "C13"

CORRESPONDENCE = ("symbolic compile + fold: circuit/src/symbolic/{compiler,targets,dag}.rs + "
                  "recursion/src/traits/air.rs::eval_folded_circuit vs lean/P3R/Model/SymCompile.lean "
                  "(ids of every compiled constraint, folded target id, builder node count, value of the folded "
                  "target after running the real circuit, native folder value)")


def _read(p):
    with open(p) as fh:
        return [l.rstrip() for l in fh]


def _blocks(lines):
    out, cur = [], []
    for l in lines:
        if l.startswith("case ") and cur:
            out.append(cur); cur = []
        cur.append(l)
    if cur:
        out.append(cur)
    return out


def run(ctx):
    tier, seed, work = ctx["tier"], ctx["seed"], ctx["work"]
    driver = os.path.join(ctx["driver_dir"], "p3r_driver_c13")
    corpus = os.path.join(ctx["root"], "corpus", "c13")
    if ctx.get("replay"):
        rp = json.load(open(ctx["replay"]))
        os.makedirs(f"{work}/replay_corpus", exist_ok=True)
        json.dump(rp.get("replay", rp), open(f"{work}/replay_corpus/r.json", "w"))
        runs = [dict(dags=0, airs=0, reals=0, max_nodes=40, corpus=f"{work}/replay_corpus")]
    elif tier == "quick":
        runs = [dict(dags=20000, airs=6000, reals=60, max_nodes=40, corpus=corpus),
                dict(dags=1000, airs=300, reals=0, max_nodes=300, corpus=None)]
    else:
        runs = [dict(dags=400000, airs=120000, reals=600, max_nodes=40, corpus=corpus),
                dict(dags=20000, airs=6000, reals=0, max_nodes=300, corpus=None),
                dict(dags=600, airs=100, reals=0, max_nodes=1000, corpus=None)]
    violations, hist, samples = [], {}, []
    evaluations = cases = distinct = disagreements = blocks = 0
    for n, r in enumerate(runs):
        out = f"{work}/run{n}"
        cmd = [ctx["harness"], "c13", "--seed", str(seed + 1000 * n), "--dags", str(r["dags"]),
               "--airs", str(r["airs"]), "--reals", str(r["reals"]), "--max-nodes", str(r["max_nodes"]),
               "--inputs", "3", "--out", out]
        if r["corpus"]:
            cmd += ["--corpus", r["corpus"]]
        rc, o = ctx["sh"](cmd, timeout=7200)
        if rc != 0:
            violations.append({"class": "harness-crash", "what": f"harness c13 exited {rc}: {o[-300:]}",
                               "replay": {"cmd": cmd}, "no_input": True})
            continue
        rep = json.load(open(f"{out}/c13.report.json"))
        evaluations += rep["evaluations"]; cases += rep["cases"]; distinct += rep["distinct"]
        for k, v in rep["hist"].items():
            hist[k] = hist.get(k, 0) + v
        samples += rep["samples"][:2]
        for v in rep["violations"]:
            violations.append({"class": v["class"],
                               "what": f"{v['kind']} {json.dumps(v.get('detail', {}))[:220]}",
                               "replay": v["replay"]})
        # the model on the same cases
        with open(f"{out}/c13.cases") as fin:
            rc, mo = ctx["sh"]([driver], stdin=fin, timeout=7200)
        with open(f"{out}/c13.model", "w") as fh:
            fh.write(mo)
        ib = _blocks(_read(f"{out}/c13.impl"))
        mb = _blocks(_read(f"{out}/c13.model"))
        cb = _blocks(_read(f"{out}/c13.cases"))
        blocks += len(ib)
        bad = []
        for k in range(max(len(ib), len(mb))):
            a = ib[k] if k < len(ib) else []
            b = mb[k] if k < len(mb) else []
            if a != b:
                first = next(((x, y) for x, y in itertools.zip_longest(a, b) if x != y), None)
                bad.append((k, first))
        disagreements += len(bad)
        for (k, first) in bad[:3]:
            violations.append({"class": "model-disagreement",
                               "what": f"correspondence symcompile-model (L12) no longer checks: impl={first[0]!r} model={first[1]!r}",
                               "replay": {"correspondence": CORRESPONDENCE,
                                          "case_block": (cb[k] if k < len(cb) else [])[:400],
                                          "first_difference": first},
                               "no_input": True})
    cov = {"evaluations": evaluations, "programs": cases, "distinct_nontrivial": distinct,
           "rule": "cases = (pre-program creating the targets, symbolic base+extension DAG dumped by pointer identity, "
                   "emission order, 3 input vectors); kind dag: hand-built Arc-shared DAGs (all leaf kinds, shared children, "
                   "inline roots, deep chains, repeated squaring, panic arms) asserted by an AIR in a chosen order; kind air: "
                   "script AIRs against the generic AirBuilder API with 0-2 bus interactions (LogUp constraints appended); kind real: "
                   "the repository's AluAir (D=1, D=4), ConstAir, PublicAir and the Fibonacci test AIR with their lookups; "
                   "every case goes through the real eval_folded_circuit, is built and run, and is compared line-by-line with "
                   "the Lean model; evaluations = (case, input vector) pairs; distinct = distinct case texts with >=1 folded constraint",
           "samples": samples[:3], "input_distribution": hist,
           "traces_validated_against_impl": blocks, "disagreements_checked": disagreements}
    return violations, cov


CHECK = {
    "lean_modules": ["P3R.Props.C13", "P3R.Witness.C13"],
    "lean_exes": ["p3r_driver_c13"],
    "theorems": ["P3R.C13.compileBase_sound", "P3R.C13.compileExt_sound", "P3R.C13.evalFoldedAir_sound",
                 "P3R.C13.nativeFoldedT_eq", "P3R.Witness.C13.regression"],
    "run": run,
    "trusted_base": [
        "executable field instances of the driver: PF p and the quartic binomial extension Ext4 (Model/ExtField.lean), "
        "validated against p3-field's BinomialExtensionField<BabyBear,4> by every value line of the run",
        "L1 expression-builder model (Model/Builder.lean) for define_const/add/sub/mul/mul_add: proved sound w.r.t. the "
        "denotation BState.val here; its equality with the Rust builder is the C02 correspondence plus the id/node-count lines of this run",
        "p3-air / p3-lookup / p3-uni-stark 0.6.3 as the native side (VerifierConstraintFolderWithLookups, SymbolicExpression::resolve, "
        "LogUpGadget::eval_air_and_lookups, get_symbolic_constraints, get_constraint_layout)",
    ],
    "assumptions": [
        "node identity: pointer-keyed caches are modelled by node index; holds while every constraint vector outlives both "
        "caches, which is how eval_folded_circuit and the harness call the compiler (address reuse after a drop is not expressible in the model)",
        "symbolic DAGs are numbered with children before parents (every Arc DAG admits this; the harness dumps in post-order and the driver checks it)",
        "the builder state before eval_folded_circuit satisfies the pool invariant BInv (proved for a fresh builder and preserved by "
        "public_input/define_const/add/sub/mul/mul_add; other builder calls are not covered by a proof)",
        "evaluation is compared where the native side is defined (row offsets 0/1, indices inside the opened slices); elsewhere both sides panic (checked differentially)",
        "public values are base-field elements on the native side (VerifierConstraintFolder takes &[Val]); the model and the circuit accept any extension value",
        "finding F-C13-1 (fold order) is repaired in /repo: the model folds in emission order like the code; its former witness "
        "is a regression case of the corpus (corpus/c13/fc13_1_ext_before_base.json) and of Witness/C13.lean",
    ],
}

MANIFEST_ENTRY = {
    "property_id": "C13",
    "quick_cmd": "bin/check C13 --tier quick",
    "thorough_cmd": "bin/check C13 --tier thorough",
    "evidence_file": "evidence/C13.json",
    "replay_cmd_template": "bin/check C13 --replay {path}",
    "engine": "lean-models",
    "technique": "Lean 4 proof of the work-stack symbolic compiler (generic big-step lemma, cache invariant, fuel bound) and of "
                 "constraint folding over the L1 builder model + differential correspondence through the real eval_folded_circuit "
                 "against p3's verifier constraint folder",
    "level_claimed": {
        "category": "proof",
        "text": "compile_base/compile_ext terminate within fuel 3|nodes|+1 and return an id whose value is the native recursive "
                "value, for every DAG / sharing / depth / cache content / assignment; eval_folded_circuit's value equals the native "
                "constraint folder's accumulator (acc*alpha+c in emission order) for every emission order of base and extension "
                "constraints: the full C13 statement (P3R.C13.evalFoldedAir_sound).",
        "design_ref": "4/C13",
    },
    "level_note": "Lean kernel + 3 standard axioms; model hand-written and tied to the Rust by id-exact and value-exact differential runs "
                  "(BabyBear, D=4); builder model trusted as in C02; pointer-address reuse outside the model",
}
