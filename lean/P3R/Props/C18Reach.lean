/-
C18 — `privOk` (private-input nodes carry distinct positions below `privCount`), the one builder-side
hypothesis of `P3R.C18.compile_order_independent_total`, holds for every builder state reachable through
the builder API of `Model/Builder.lean` (`Reachable.privOk`): only `alloc_private_input` creates a
private-input node, and it hands out the next position.

`PFr b b'` — frame: `b'` has the nodes of `b` followed by nodes that are not private inputs, and the same
`privCount`. Every builder operation except `allocPrivate` satisfies it unconditionally.
-/
import P3R.Props.C02BuilderOk
import P3R.Model.DefUse

namespace P3R.C18L
open P3R P3R.C02T

variable {K : Type}

def PFr (b b' : BState K) : Prop :=
  b'.privCount = b.privCount ∧
  ∃ new : List (Expr K), b'.nodes.toList = b.nodes.toList ++ new ∧ ∀ e ∈ new, ∀ pos, e ≠ .priv pos

theorem PFr.refl (b : BState K) : PFr b b := ⟨rfl, [], by simp, by simp⟩

theorem PFr.trans {b b' b'' : BState K} (h1 : PFr b b') (h2 : PFr b' b'') : PFr b b'' := by
  obtain ⟨p1, n1, e1, f1⟩ := h1
  obtain ⟨p2, n2, e2, f2⟩ := h2
  refine ⟨p2.trans p1, n1 ++ n2, by rw [e2, e1, List.append_assoc], ?_⟩
  intro e he
  rcases List.mem_append.mp he with he | he
  · exact f1 e he
  · exact f2 e he

theorem PFr.of_push {b : BState K} (e : Expr K) (b' : BState K) (he : ∀ pos, e ≠ .priv pos)
    (hn : b'.nodes = b.nodes.push e) (hp : b'.privCount = b.privCount) : PFr b b' :=
  ⟨hp, [e], by rw [hn]; simp, by intro e' he'; simp only [List.mem_singleton] at he'; subst he'; exact he⟩

theorem PFr.of_same {b b' : BState K} (hn : b'.nodes = b.nodes) (hp : b'.privCount = b.privCount) : PFr b b' :=
  ⟨hp, [], by rw [hn]; simp, by simp⟩

/-- Prop form of `privOk`. -/
@[reducible] def PInv (b : BState K) : Prop :=
  ∀ (i pos : Nat), b.nodes[i]? = some (Expr.priv pos) →
    pos < b.privCount ∧ ∀ (j : Nat), b.nodes[j]? = some (Expr.priv pos) → j = i

theorem privOk_of_PInv (b : BState K) (h : PInv b) : privOk b = true := by
  unfold privOk
  rw [List.all_eq_true]
  intro i _
  split
  · next pos hi =>
    obtain ⟨h1, h2⟩ := h i pos hi
    simp only [Bool.and_eq_true, decide_eq_true_eq, List.all_eq_true]
    refine ⟨h1, fun j _ => ?_⟩
    split
    · next pos' hj =>
      by_cases hpp : pos' = pos
      · subst hpp
        simp [h2 j hj]
      · simp [hpp]
    · rfl
  · rfl

theorem getElem?_append_nopriv {l new : List (Expr K)} (hnew : ∀ e ∈ new, ∀ pos, e ≠ .priv pos) {i pos : Nat}
    (h : (l ++ new)[i]? = some (.priv pos)) : l[i]? = some (.priv pos) := by
  by_cases hi : i < l.length
  · rwa [List.getElem?_append_left hi] at h
  · rw [List.getElem?_append_right (by omega)] at h
    exact absurd rfl (hnew _ (List.mem_of_getElem? h) pos)

theorem PInv.frame {b b' : BState K} (h : PInv b) (hf : PFr b b') : PInv b' := by
  obtain ⟨hp, new, hn, hnew⟩ := hf
  intro i pos hi
  have conv : ∀ j : Nat, b'.nodes[j]? = some (Expr.priv pos) → b.nodes[j]? = some (Expr.priv pos) := by
    intro j hj
    rw [← Array.getElem?_toList] at hj ⊢
    rw [hn] at hj
    exact getElem?_append_nopriv hnew hj
  obtain ⟨h1, h2⟩ := h i pos (conv i hi)
  exact ⟨by rw [hp]; exact h1, fun j hj => h2 j (conv j hj)⟩

theorem PInv.allocPrivate {b : BState K} (h : PInv b) : PInv b.allocPrivate.1 := by
  intro i pos hi
  simp only [BState.allocPrivate, BState.push] at hi ⊢
  have key : ∀ j pos', (b.nodes.push (Expr.priv b.privCount))[j]? = some (.priv pos') →
      (j < b.nodes.size ∧ b.nodes[j]? = some (.priv pos') ∧ pos' < b.privCount) ∨
      (j = b.nodes.size ∧ pos' = b.privCount) := by
    intro j pos' hj
    rw [Array.getElem?_push] at hj
    split at hj
    · next hjs =>
      simp only [Option.some.injEq, Expr.priv.injEq] at hj
      exact Or.inr ⟨hjs, hj.symm⟩
    · next hjs =>
      have hlt : j < b.nodes.size := by
        by_contra hge
        rw [Array.getElem?_eq_none (by omega)] at hj
        cases hj
      exact Or.inl ⟨hlt, hj, (h j pos' hj).1⟩
  rcases key i pos hi with ⟨hil, hio, hpl⟩ | ⟨his, hps⟩
  · refine ⟨by omega, fun j hj => ?_⟩
    rcases key j pos hj with ⟨_, hjo, _⟩ | ⟨_, hps⟩
    · exact (h i pos hio).2 j hjo
    · omega
  · refine ⟨by omega, fun j hj => ?_⟩
    rcases key j pos hj with ⟨_, _, hpl⟩ | ⟨hjs, _⟩
    · omega
    · omega

section ops
variable [Zero K] [One K] [Add K] [Sub K] [Mul K] [DecidableEq K]

theorem defineConst_fr (b : BState K) (v : K) : PFr b (b.defineConst v).1 := by
  unfold BState.defineConst BState.push
  split
  · exact PFr.refl _
  · exact PFr.of_push (.const v) _ (by intro pos h; cases h) rfl rfl

theorem allocPublic_fr (b : BState K) : PFr b b.allocPublic.1 :=
  PFr.of_push (.pub b.pubCount) _ (by intro pos h; cases h) rfl rfl

theorem cseOrPush_fr (b : BState K) (key : BinKind × Nat × Nat) (e : Expr K) (he : ∀ pos, e ≠ .priv pos) :
    PFr b (b.cseOrPush key e).1 := by
  unfold BState.cseOrPush BState.push
  split
  · exact PFr.refl _
  · exact PFr.of_push e _ he rfl rfl

theorem add_fr (b : BState K) (l r : Nat) : PFr b (b.add l r).1 := by
  unfold BState.add
  repeat' (first | exact PFr.refl _ | exact defineConst_fr _ _ |
    exact cseOrPush_fr _ _ _ (by intro pos h; cases h) | split)

theorem sub_fr (b : BState K) (l r : Nat) : PFr b (b.sub l r).1 := by
  unfold BState.sub
  repeat' (first | exact PFr.refl _ | exact defineConst_fr _ _ |
    exact cseOrPush_fr _ _ _ (by intro pos h; cases h) | split)

theorem mul_fr (b : BState K) (l r : Nat) : PFr b (b.mul l r).1 := by
  unfold BState.mul
  repeat' (first | exact PFr.refl _ | exact defineConst_fr _ _ |
    exact cseOrPush_fr _ _ _ (by intro pos h; cases h) | split)

theorem div_fr (b : BState K) (l r : Nat) : PFr b (b.div l r).1 := by
  unfold BState.div
  repeat' (first | exact PFr.refl _ | exact defineConst_fr _ _ |
    exact cseOrPush_fr _ _ _ (by intro pos h; cases h) | split)

theorem horner_fr (b : BState K) (acc al pz px : Nat) : PFr b (b.horner acc al pz px).1 := by
  unfold BState.horner BState.push
  repeat' (first | exact PFr.refl _ | exact defineConst_fr _ _ |
    exact PFr.of_push (.horner acc al pz px) _ (by intro pos h; cases h) rfl rfl | split)

theorem boolCheck_fr (b : BState K) (v : Nat) : PFr b (b.boolCheck v).1 := by
  unfold BState.boolCheck BState.push
  repeat' (first | exact PFr.refl _ |
    exact PFr.of_push (.boolCheck v) _ (by intro pos h; cases h) rfl rfl | split)

theorem mulAdd_fr (b : BState K) (x y z : Nat) : PFr b (b.mulAdd x y z).1 := by
  unfold BState.mulAdd BState.push
  repeat' (first | exact PFr.refl _ | exact defineConst_fr _ _ |
    exact PFr.of_push (.mulAdd x y z) _ (by intro pos h; cases h) rfl rfl | split)

theorem connect_fr (b : BState K) (x y : Nat) : PFr b (b.connect x y) := by
  unfold BState.connect
  split
  · exact PFr.refl _
  · exact PFr.of_same rfl rfl

theorem assertBool_fr (b : BState K) (x : Nat) : PFr b (b.assertBool x) := by
  unfold BState.assertBool
  exact (boolCheck_fr b x).trans (connect_fr _ _ _)

theorem select_fr (b : BState K) (c t f : Nat) : PFr b (b.select c t f).1 := by
  unfold BState.select
  repeat' (first | exact PFr.refl _ | exact (sub_fr _ _ _).trans (mulAdd_fr _ _ _ _) | split)

theorem foldl_fr {α : Type} (f : BState K × Nat → α → BState K × Nat)
    (hf : ∀ acc a, PFr acc.1 (f acc a).1) : ∀ (xs : List α) (acc : BState K × Nat), PFr acc.1 (xs.foldl f acc).1 := by
  intro xs
  induction xs with
  | nil => intro acc; exact PFr.refl _
  | cons a rest ih => intro acc; exact (hf acc a).trans (ih (f acc a))

theorem mulMany_fr (b : BState K) (xs : List Nat) : PFr b (b.mulMany xs).1 := by
  unfold BState.mulMany
  cases xs with
  | nil => exact defineConst_fr _ _
  | cons x rest => exact foldl_fr _ (fun acc y => mul_fr _ _ _) rest (b, x)

theorem innerProduct_fr (b : BState K) (xs ys : List Nat) : PFr b (b.innerProduct xs ys).1 := by
  unfold BState.innerProduct
  exact (defineConst_fr b 0).trans (foldl_fr _ (fun acc xy => mulAdd_fr _ _ _ _) _ _)

theorem expPow2_fr (b : BState K) (base k : Nat) : PFr b (b.expPow2 base k).1 := by
  unfold BState.expPow2
  exact foldl_fr _ (fun acc _ => mul_fr _ _ _) _ (b, base)

theorem pushNp_fr (b : BState K) (kind : NpKind) (ins : List (List Nat)) (nOut : Nat) :
    PFr b (b.pushNp kind ins nOut).1 := by
  unfold BState.pushNp
  simp only [BState.push]
  have h1 : PFr b { b with nodes := b.nodes.push (Expr.npCall b.npOps.size ins.flatten) } :=
    PFr.of_push _ _ (by intro pos h; cases h) rfl rfl
  have key : ∀ (idxs : List Nat) (acc : BState K × List Nat),
      PFr acc.1 (idxs.foldl (fun (acc : BState K × List Nat) i =>
        (({ acc.1 with nodes := acc.1.nodes.push (Expr.npOut b.nodes.size i) } : BState K),
          acc.2 ++ [acc.1.nodes.size])) acc).1 := by
    intro idxs
    induction idxs with
    | nil => intro acc; exact PFr.refl _
    | cons i rest ih =>
      intro acc
      simp only [List.foldl_cons]
      have hstep : PFr acc.1 ({ acc.1 with nodes := acc.1.nodes.push (Expr.npOut b.nodes.size i) } : BState K) :=
        PFr.of_push (Expr.npOut b.nodes.size i) _ (by intro pos h; cases h) rfl rfl
      exact hstep.trans (ih (({ acc.1 with nodes := acc.1.nodes.push (Expr.npOut b.nodes.size i) } : BState K),
        acc.2 ++ [acc.1.nodes.size]))
  exact (h1.trans (key _ _)).trans (PFr.of_same rfl rfl)

theorem reconstructBits_fr (b : BState K) (pow2 : Nat → K) (bits : List Nat) :
    PFr b (b.reconstructBits pow2 bits).1 := by
  unfold BState.reconstructBits
  refine (defineConst_fr b 0).trans (foldl_fr _ (fun acc bi => ?_) _ _)
  exact ((defineConst_fr _ _).trans (assertBool_fr _ _)).trans (mulAdd_fr _ _ _ _)

theorem decomposeToBits_fr (b : BState K) (pow2 : Nat → K) (x n : Nat) :
    PFr b (b.decomposeToBits pow2 x n).1 := by
  unfold BState.decomposeToBits
  exact ((pushNp_fr b _ _ _).trans (reconstructBits_fr _ _ _)).trans (connect_fr _ _ _)

/-- **Every reachable builder state has `privOk`.** -/
theorem Reachable.PInv {b : BState K} (h : Reachable b) : PInv b := by
  induction h with
  | init =>
    intro i pos hi
    simp only [BState.init] at hi
    cases i with
    | zero => simp at hi
    | succ i => simp at hi
  | defineConst _ v ih => exact ih.frame (defineConst_fr _ v)
  | allocPublic _ ih => exact ih.frame (allocPublic_fr _)
  | allocPrivate _ ih => exact ih.allocPrivate
  | add _ _ _ ih => exact ih.frame (add_fr _ _ _)
  | sub _ _ _ ih => exact ih.frame (sub_fr _ _ _)
  | mul _ _ _ ih => exact ih.frame (mul_fr _ _ _)
  | div _ _ _ ih => exact ih.frame (div_fr _ _ _)
  | horner _ _ _ _ _ ih => exact ih.frame (horner_fr _ _ _ _ _)
  | boolCheck _ _ ih => exact ih.frame (boolCheck_fr _ _)
  | mulAdd _ _ _ _ ih => exact ih.frame (mulAdd_fr _ _ _ _)
  | connect _ _ _ ih => exact ih.frame (connect_fr _ _ _)
  | assertZero _ _ ih => exact ih.frame (connect_fr _ _ _)
  | assertBool _ _ ih => exact ih.frame (assertBool_fr _ _)
  | select _ _ _ _ ih => exact ih.frame (select_fr _ _ _ _)
  | mulMany _ _ ih => exact ih.frame (mulMany_fr _ _)
  | innerProduct _ _ _ ih => exact ih.frame (innerProduct_fr _ _ _)
  | expPow2 _ _ k ih => exact ih.frame (expPow2_fr _ _ k)
  | pushNp _ kind ins nOut ih => exact ih.frame (pushNp_fr _ kind ins nOut)
  | reconstructBits _ pow2 _ ih => exact ih.frame (reconstructBits_fr _ pow2 _)
  | decomposeToBits _ pow2 _ n ih => exact ih.frame (decomposeToBits_fr _ pow2 _ n)

theorem Reachable.privOk {b : BState K} (h : Reachable b) : privOk b = true :=
  privOk_of_PInv b (Reachable.PInv h)

end ops

end P3R.C18L

#print axioms P3R.C18L.Reachable.privOk
