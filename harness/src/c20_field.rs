// Included twice by c20.rs (modules `bb` and `kb`) with `params`, `TAG`, `P` in scope.
// Not a module of its own.

use std::panic::{AssertUnwindSafe, catch_unwind};

use p3_circuit::CircuitBuilder;
use p3_commit::PolynomialSpace;
use p3_dft::{Radix2Dit, TwoAdicSubgroupDft};
use p3_field::coset::TwoAdicMultiplicativeCoset;
use p3_field::{BasedVectorSpace, Field, PrimeCharacteristicRing, PrimeField64, TwoAdicField};
use p3_recursion::Target;
use p3_fri::{FriParameters, HidingFriPcs};
use p3_recursion::pcs::fri::HidingFriProofTargets;
use p3_recursion::pcs::{FriProofTargets, InputProofTargets, MerkleCapTargets, RecExtensionValMmcs, RecValMmcs, Witness};
use p3_uni_stark::StarkConfig;
use rand::SeedableRng;
use rand::rngs::SmallRng;
use p3_recursion::traits::RecursivePcs;
use p3_recursion::verifier::recompose_quotient_from_chunks_circuit;
use p3_uni_stark::StarkGenericConfig;
use p3_util::reverse_bits_len;
use params::{
    Challenge, ChallengeMmcs, Challenger, DIGEST_ELEMS, Dft, F, MyCompress, MyConfig, MyHash, MyMmcs, MyPcs, make_test_config,
};
use serde_json::{Value, json};

use super::extracted;
use super::{Res, Spec};
use crate::rng::Rng;

type Dom = TwoAdicMultiplicativeCoset<F>;
type RecVal = RecValMmcs<F, DIGEST_ELEMS, MyHash, MyCompress>;
type InputProof = InputProofTargets<F, Challenge, RecVal>;
type InnerFri =
    FriProofTargets<F, Challenge, RecExtensionValMmcs<F, Challenge, DIGEST_ELEMS, RecVal>, InputProof, Witness<F>>;
type Comm = MerkleCapTargets<F, DIGEST_ELEMS>;
// the second `RecursivePcs` impl (HidingFriPcs) has its own copy of `selectors_at_point_circuit`
type MyPcsZk = HidingFriPcs<F, Dft, MyMmcs, ChallengeMmcs, SmallRng>;
type MyConfigZk = StarkConfig<MyPcsZk, Challenge, Challenger>;
type InnerFriZk =
    HidingFriProofTargets<F, Challenge, RecExtensionValMmcs<F, Challenge, DIGEST_ELEMS, RecVal>, InputProof, Witness<F>>;

fn make_zk_config() -> MyConfigZk {
    let perm = default_perm();
    let hash = MyHash::new(perm.clone());
    let compress = MyCompress::new(perm.clone());
    let val_mmcs = MyMmcs::new(hash, compress, 0);
    let challenge_mmcs = ChallengeMmcs::new(val_mmcs.clone());
    let fri_params = FriParameters::new_testing(challenge_mmcs, 0);
    let pcs = MyPcsZk::new(Dft::default(), val_mmcs, fri_params, 2, SmallRng::seed_from_u64(1));
    MyConfigZk::new(pcs, Challenger::new(perm))
}

const DEG: usize = 4;

fn ef(c: &[u64]) -> Challenge {
    Challenge::from_basis_coefficients_fn(|j| F::from_u64(c.get(j).copied().unwrap_or(0) % P))
}
fn lift(x: F) -> Challenge {
    Challenge::from(x)
}
fn coeffs(x: Challenge) -> Vec<u64> {
    let s: &[F] = x.as_basis_coefficients_slice();
    s.iter().map(|c| c.as_canonical_u64()).collect()
}
fn fmt(x: Challenge) -> String {
    coeffs(x).iter().map(|c| c.to_string()).collect::<Vec<_>>().join(",")
}
fn fmts(xs: &[Challenge]) -> String {
    xs.iter().map(|x| fmt(*x)).collect::<Vec<_>>().join(" ")
}

enum Out {
    Vals(Vec<Challenge>),
    Err(String),
    Panic,
}

fn err_name<E: core::fmt::Debug>(e: &E) -> String {
    let s = format!("{e:?}");
    s.chars().take_while(|c| c.is_alphanumeric() || *c == '_').collect()
}

/// Build a circuit whose public inputs are `pubs`, let `build` add the gadget, build + run it
/// with the real code and read the gadget's output targets back from the witness.
fn run_gadget(
    pubs: &[Challenge],
    build: impl FnOnce(&mut CircuitBuilder<Challenge>, &[Target]) -> Result<Vec<Target>, String>,
) -> Out {
    let r = catch_unwind(AssertUnwindSafe(|| -> Result<Vec<Challenge>, String> {
        let mut cb = CircuitBuilder::<Challenge>::new();
        let ins: Vec<Target> = (0..pubs.len()).map(|_| cb.public_input()).collect();
        let outs = build(&mut cb, &ins)?;
        let circuit = cb.build().map_err(|e| format!("Build{}", err_name(&e)))?;
        let e2w = circuit.expr_to_widx.clone();
        let mut runner = circuit.runner();
        runner.set_public_inputs(pubs).map_err(|e| err_name(&e))?;
        let traces = runner.run().map_err(|e| err_name(&e))?;
        outs.iter()
            .map(|o| {
                let w = e2w.get(o).ok_or_else(|| "OutputHasNoSlot".to_string())?;
                traces.witness_trace.get_value(*w).copied().ok_or_else(|| "OutputUnset".to_string())
            })
            .collect()
    }));
    match r {
        Ok(Ok(v)) => Out::Vals(v),
        Ok(Err(e)) => Out::Err(e),
        Err(_) => Out::Panic,
    }
}

fn native<T>(f: impl FnOnce() -> T) -> Option<T> {
    catch_unwind(AssertUnwindSafe(f)).ok()
}

/// Shared verdict: circuit output vs native value.
fn judge(gadget: &str, out: &Out, nat: &Option<Vec<Challenge>>, notes: &mut Vec<String>) -> Option<(String, Value)> {
    match (out, nat) {
        (Out::Vals(v), Some(n)) => {
            if v == n {
                None
            } else {
                Some((format!("{gadget}:value-mismatch"), json!({"circuit": fmts(v), "native": fmts(n)})))
            }
        }
        (Out::Vals(_), None) => {
            notes.push(format!("native-undefined-circuit-defined.{gadget}"));
            None
        }
        (Out::Err(e), Some(n)) => {
            Some((format!("{gadget}:circuit-fails-native-defined"), json!({"circuit_error": e, "native": fmts(n)})))
        }
        (Out::Panic, Some(n)) => {
            Some((format!("{gadget}:circuit-panics-native-defined"), json!({"native": fmts(n)})))
        }
        (_, None) => {
            notes.push(format!("both-undefined.{gadget}"));
            None
        }
    }
}

fn impl_line(op: &str, out: &Out, panic_word: bool) -> String {
    match out {
        Out::Vals(v) => format!("{op} {}", fmts(v)),
        Out::Err(e) => format!("{op} err {e}"),
        Out::Panic => {
            if panic_word {
                format!("{op} panic")
            } else {
                format!("{op} err Panic")
            }
        }
    }
}

fn dom(shift: u64, log_n: usize) -> Option<Dom> {
    let s = F::from_u64(shift % P);
    if s == F::ZERO || log_n > F::TWO_ADICITY {
        return None;
    }
    Dom::new(s, log_n)
}

fn bits_of(index: u64, n: usize) -> Vec<Challenge> {
    (0..n).map(|i| if (index >> i) & 1 == 1 { Challenge::ONE } else { Challenge::ZERO }).collect()
}

/// `idft` correspondence line: the constants `Radix2Dit::coset_idft(col, s)` uses (twiddle root
/// `two_adic_generator(log m)`, `divide_by_height`'s `ONE.div_2exp_u64(log m)`, `s.inverse()`), the
/// column, and — as the implementation's answer — the coefficient vector it returned. The Lean
/// driver recomputes the vector from the column with `P3R.Idft.cosetIdftLoop` and checks the
/// hypotheses of `P3R.C20.cosetIdft_interpolates` on the constants (`ok`).
fn idft_lines(col: &[F], sub_shift: F, cs: &[F]) -> (String, String) {
    let log_p = col.len().trailing_zeros() as usize;
    let w = F::two_adic_generator(log_p);
    let m_inv = F::ONE.div_2exp_u64(log_p as u64);
    let s_inv = sub_shift.inverse();
    let l = |x: F| fmt(lift(x));
    let cols: Vec<Challenge> = col.iter().map(|c| lift(*c)).collect();
    let cse: Vec<Challenge> = cs.iter().map(|c| lift(*c)).collect();
    (
        format!("idft {TAG} {log_p} {} {} {} {} {}", l(w), l(m_inv), l(sub_shift), l(s_inv), fmts(&cols)),
        format!("idft ok {}", fmts(&cse)),
    )
}

pub fn execute(spec: &Spec) -> Option<Res> {
    let config = make_test_config();
    let pcs: &MyPcs = config.pcs();
    let e = |i: usize| -> Option<Challenge> { spec.elems.get(i).map(|c| ef(c)) };
    let n = |i: usize| -> Option<u64> { spec.nums.get(i).copied() };
    let mut notes: Vec<String> = vec![];
    let zk_pcs = matches!(spec.gadget.as_str(), "selz" | "quotz");
    let config_zk = make_zk_config();
    let pcs_zk: &MyPcsZk = config_zk.pcs();
    let g = spec.gadget.as_str().trim_end_matches('z');
    if zk_pcs {
        notes.push(format!("{g}.via-HidingFriPcs"));
    }
    match g {
        "exp2" => {
            let (k, x) = (n(0)? as usize, e(0)?);
            let out = run_gadget(&[x], |cb, ins| Ok(vec![cb.exp_power_of_2(ins[0], k)]));
            let nat = native(|| vec![x.exp_power_of_2(k)]);
            notes.push(format!("exp2.k.{}", if k == 0 { "0".into() } else { format!("{}", k.min(20) / 5 * 5) }));
            let verdict = judge(g, &out, &nat, &mut notes);
            Some(Res {
                line: format!("exp2 {TAG} {k} {}", fmt(x)),
                impl_line: impl_line("exp2", &out, true),
                notes,
                verdict,
                circuit_ok: matches!(out, Out::Vals(_)),
                extra: vec![],
            })
        }
        "expc" => {
            let (nn, x) = (n(0)? as usize, e(0)?);
            let out = run_gadget(&[x], |cb, ins| Ok(vec![extracted::circuit_exp_by_constant(cb, ins[0], nn)]));
            let nat = native(|| {
                // both the closed form and the verifier's own way (`alpha_pow *= alpha`, n times)
                let v = x.exp_u64(nn as u64);
                if nn <= 4096 {
                    let mut w = Challenge::ONE;
                    for _ in 0..nn {
                        w *= x;
                    }
                    assert_eq!(v, w);
                }
                vec![v]
            });
            let verdict = if nn == 0 {
                // precondition of the private function (debug_assert!(n > 0)); every caller guards it
                notes.push(format!("expc.n0.precondition.{}", if matches!(out, Out::Panic) { "panic" } else { "no-panic" }));
                None
            } else {
                notes.push(format!("expc.bits.{}", 64 - (nn as u64).leading_zeros()));
                judge(g, &out, &nat, &mut notes)
            };
            Some(Res {
                line: format!("expc {TAG} {nn} {}", fmt(x)),
                impl_line: impl_line("expc", &out, true),
                notes,
                verdict,
                circuit_ok: matches!(out, Out::Vals(_)),
                extra: vec![],
            })
        }
        "van" | "sel" => {
            let (log_n, x) = (n(0)? as usize, e(0)?);
            let d = dom(*spec.shifts.first()?, log_n)?;
            notes.push(format!("{g}.logN.{}", if log_n == 0 { "0".into() } else { format!("{}+", log_n / 5 * 5) }));
            if g == "van" {
                let out = run_gadget(&[x], |cb, ins| {
                    Ok(vec![extracted::vanishing_poly_at_point_circuit::<MyConfig, InputProof, InnerFri, Comm, Dom>(
                        pcs, &d, ins[0], cb,
                    )])
                });
                let nat = native(|| vec![d.vanishing_poly_at_point(x)]);
                let verdict = judge(g, &out, &nat, &mut notes);
                let gp: Challenge = lift(d.first_point());
                return Some(Res {
                    line: format!("van {TAG} {} {} {log_n} {}", fmt(gp), fmt(gp.inverse()), fmt(x)),
                    impl_line: impl_line("van", &out, true),
                    notes,
                    verdict,
                    circuit_ok: matches!(out, Out::Vals(_)),
                    extra: vec![],
                });
            }
            let out = run_gadget(&[x], |cb, ins| {
                let s = if zk_pcs {
                    <MyPcsZk as RecursivePcs<MyConfigZk, InputProof, InnerFriZk, Comm, Dom>>::selectors_at_point_circuit(
                        pcs_zk, cb, &d, &ins[0],
                    )
                } else {
                    <MyPcs as RecursivePcs<MyConfig, InputProof, InnerFri, Comm, Dom>>::selectors_at_point_circuit(
                        pcs, cb, &d, &ins[0],
                    )
                };
                Ok(vec![s.row_selectors.is_first_row, s.row_selectors.is_last_row, s.row_selectors.is_transition, s.inv_vanishing])
            });
            let nat = native(|| {
                let s = d.selectors_at_point(x);
                vec![s.is_first_row, s.is_last_row, s.is_transition, s.inv_vanishing]
            });
            if nat.is_none() {
                notes.push("sel.native-panics".into());
            }
            let verdict = judge(g, &out, &nat, &mut notes);
            Some(Res {
                line: format!(
                    "sel {TAG} {} {} {log_n} {}",
                    fmt(lift(d.shift_inverse())),
                    fmt(lift(d.subgroup_generator().inverse())),
                    fmt(x)
                ),
                impl_line: impl_line("sel", &out, false),
                notes,
                verdict,
                circuit_ok: matches!(out, Out::Vals(_)),
                extra: vec![],
            })
        }
        "quot" => {
            let domains: Vec<Dom> = if n(3) == Some(1) {
                let logs = &spec.nums[4..];
                if logs.len() != spec.shifts.len() {
                    return None;
                }
                notes.push("quot.domains.explicit".into());
                logs.iter().zip(&spec.shifts).map(|(l, s)| dom(*s, *l as usize)).collect::<Option<Vec<_>>>()?
            } else {
                let (db, log_qd, zk) = (n(0)? as usize, n(1)? as usize, n(2)? as usize);
                if zk > 1 || db < zk || db + log_qd > 22 {
                    return None;
                }
                notes.push(format!("quot.chunks.{}.zk{zk}", 1usize << (log_qd + zk)));
                if db == zk {
                    notes.push("quot.chunk-domain-size-1".into());
                }
                // as verifier/stark.rs: trace domain of the (extended) degree, disjoint quotient
                // domain, split into 2^(log_qd + zk) chunks
                let trace_domain = Dom::new(F::ONE, db)?;
                if zk_pcs {
                    let qd = <MyPcsZk as RecursivePcs<MyConfigZk, InputProof, InnerFriZk, Comm, Dom>>::create_disjoint_domain(
                        pcs_zk,
                        trace_domain,
                        1 << (db + log_qd),
                    );
                    <MyPcsZk as RecursivePcs<MyConfigZk, InputProof, InnerFriZk, Comm, Dom>>::split_domains(
                        pcs_zk,
                        &qd,
                        1 << (log_qd + zk),
                    )
                } else {
                    let qd = <MyPcs as RecursivePcs<MyConfig, InputProof, InnerFri, Comm, Dom>>::create_disjoint_domain(
                        pcs,
                        trace_domain,
                        1 << (db + log_qd),
                    );
                    <MyPcs as RecursivePcs<MyConfig, InputProof, InnerFri, Comm, Dom>>::split_domains(pcs, &qd, 1 << (log_qd + zk))
                }
            };
            let nch = domains.len();
            let zeta = e(0)?;
            if spec.elems.len() != 1 + nch * DEG {
                return None;
            }
            let chunks: Vec<Vec<Challenge>> =
                (0..nch).map(|i| (0..DEG).map(|j| ef(&spec.elems[1 + i * DEG + j])).collect()).collect();
            let mut pubs = vec![zeta];
            pubs.extend(chunks.iter().flatten().copied());
            let out = run_gadget(&pubs, |cb, ins| {
                let ch: Vec<Vec<Target>> = (0..nch).map(|i| ins[1 + i * DEG..1 + (i + 1) * DEG].to_vec()).collect();
                Ok(vec![if zk_pcs {
                    recompose_quotient_from_chunks_circuit::<MyConfigZk, InputProof, InnerFriZk, Comm, Dom>(
                        cb, &domains, &ch, ins[0], pcs_zk,
                    )
                } else {
                    recompose_quotient_from_chunks_circuit::<MyConfig, InputProof, InnerFri, Comm, Dom>(
                        cb, &domains, &ch, ins[0], pcs,
                    )
                }])
            });
            let nat = native(|| {
                vec![if zk_pcs {
                    p3_uni_stark::recompose_quotient_from_chunks::<MyConfigZk>(&domains, &chunks, zeta)
                } else {
                    p3_uni_stark::recompose_quotient_from_chunks::<MyConfig>(&domains, &chunks, zeta)
                }]
            });
            let zero_at: Vec<usize> =
                (0..nch).filter(|&i| domains[i].vanishing_poly_at_point(zeta) == Challenge::ZERO).collect();
            if !zero_at.is_empty() {
                notes.push("quot.zeta-in-chunk-domain".into());
            }
            let mut verdict = judge(g, &out, &nat, &mut notes);
            if let (Some((class, detail)), Out::Err(err)) = (&mut verdict, &out) {
                if err == "DivisionByZero" && !zero_at.is_empty() && nch >= 2 {
                    // F12: the circuit divides the total product by Z_i(zeta); native multiplies over j != i
                    *class = "quot:div-by-zero-at-zeta-in-chunk-domain".to_string();
                    detail["zeta_vanishes_on_chunk"] = json!(zero_at);
                    detail["chunks"] = json!(nch);
                }
            }
            let basis: Vec<Challenge> = (0..DEG).map(|i| <Challenge as BasedVectorSpace<F>>::ith_basis_element(i).unwrap()).collect();
            let doms_s: Vec<String> = domains
                .iter()
                .map(|d| {
                    let gp: Challenge = lift(d.first_point());
                    format!("{} {} {}", fmt(gp), fmt(gp.inverse()), d.log_size())
                })
                .collect();
            let flat: Vec<Challenge> = chunks.iter().flatten().copied().collect();
            Some(Res {
                line: format!("quot {TAG} {nch} {DEG} {} {} {} {}", fmt(zeta), doms_s.join(" "), fmts(&flat), fmts(&basis))
                    .split_whitespace()
                    .collect::<Vec<_>>()
                    .join(" "),
                impl_line: impl_line("quot", &out, false),
                notes,
                verdict,
                circuit_ok: matches!(out, Out::Vals(_)),
                extra: vec![],
            })
        }
        "perm" => {
            // several periodic columns in ONE gadget call, periods in arbitrary order (the gadget shares
            // work between columns); every output is judged against the native value, the model line is
            // the last column's (`per` protocol)
            let (log_n, x) = (n(0)? as usize, e(0)?);
            let d = dom(*spec.shifts.first()?, log_n)?;
            let ncols = n(1)? as usize;
            let mut cols: Vec<Vec<F>> = vec![];
            let mut off = 0usize;
            for k in 0..ncols {
                let lp = n(2 + k)? as usize;
                let len = 1usize << lp;
                cols.push(spec.base.get(off..off + len)?.iter().map(|c| F::from_u64(*c % P)).collect());
                off += len;
            }
            let out = run_gadget(&[x], |cb, ins| {
                <MyPcs as RecursivePcs<MyConfig, InputProof, InnerFri, Comm, Dom>>::evaluate_periodic_columns_at_point_circuit(pcs, cb, &d, &cols, ins[0])
                    .map_err(|e| format!("Rejected{}", err_name(&e)))
            });
            let nat = native(|| cols.iter().map(|c| d.evaluate_periodic_column_at(c, x)).collect());
            notes.push(format!("perm.cols.{ncols}"));
            let verdict = judge("perm", &out, &nat, &mut notes);
            let last = cols.last()?;
            let log_p = last.len().trailing_zeros() as usize;
            let folds = log_n - log_p;
            let sub_shift = d.shift().exp_power_of_2(folds);
            let cs: Vec<F> = Radix2Dit::default().coset_idft(last.clone(), sub_shift);
            let cse: Vec<Challenge> = cs.iter().map(|c| lift(*c)).collect();
            let out_last = match &out {
                Out::Vals(v) => Out::Vals(v.last().map(|x| vec![*x]).unwrap_or_default()),
                Out::Err(e) => Out::Err(e.clone()),
                Out::Panic => Out::Panic,
            };
            Some(Res {
                line: format!("per {TAG} {folds} {} {} {}", fmt(x), cse.len(), fmts(&cse)),
                impl_line: impl_line("per", &out_last, true),
                notes,
                verdict,
                circuit_ok: matches!(out, Out::Vals(_)),
                extra: vec![idft_lines(last, sub_shift, &cs)],
            })
        }
        "per" => {
            let (log_n, x) = (n(0)? as usize, e(0)?);
            let d = dom(*spec.shifts.first()?, log_n)?;
            let col: Vec<F> = spec.base.iter().map(|c| F::from_u64(*c % P)).collect();
            let period = col.len();
            let valid = period.is_power_of_two() && period <= d.size();
            let out = run_gadget(&[x], |cb, ins| {
                <MyPcs as RecursivePcs<MyConfig, InputProof, InnerFri, Comm, Dom>>::evaluate_periodic_columns_at_point_circuit(
                    pcs,
                    cb,
                    &d,
                    &[col.clone()],
                    ins[0],
                )
                .map_err(|e| format!("Rejected{}", err_name(&e)))
            });
            if !valid {
                // build-time rejection is the specified behaviour; nothing for the model to say
                let ok = matches!(&out, Out::Err(e) if e.starts_with("Rejected"));
                notes.push(format!("per.invalid-length.{}", if ok { "rejected" } else { "NOT-rejected" }));
                let verdict = if ok {
                    None
                } else {
                    Some(("per:invalid-length-not-rejected".to_string(), json!({"period": period, "log_n": log_n})))
                };
                return Some(Res {
                    line: format!("per {TAG} 0 {} 0", fmt(x)),
                    impl_line: "per panic".into(),
                    notes,
                    verdict,
                    circuit_ok: false,
                    extra: vec![],
                });
            }
            let log_p = period.trailing_zeros() as usize;
            let folds = log_n - log_p;
            notes.push(format!("per.period.{period}.folds.{}", if folds == 0 { "0" } else { "pos" }));
            notes.push(format!("idft.model-recomputes-coeffs.m.{period}"));
            let sub_shift = d.shift().exp_power_of_2(folds);
            let cs: Vec<F> = Radix2Dit::default().coset_idft(col.clone(), sub_shift);
            // build-time iDFT postcondition (hypothesis of periodic_interpolates): the coefficient
            // polynomial takes the column's values on the sub-coset
            let h = F::two_adic_generator(log_p);
            let mut pt = sub_shift;
            let mut idft_ok = true;
            for v in &col {
                let mut acc = F::ZERO;
                for c in cs.iter().rev() {
                    acc = acc * pt + *c;
                }
                idft_ok &= acc == *v;
                pt *= h;
            }
            let nat = native(|| vec![d.evaluate_periodic_column_at(&col, x)]);
            if nat.is_none() {
                notes.push("per.native-panics".into());
            }
            let mut verdict = judge(g, &out, &nat, &mut notes);
            if !idft_ok && verdict.is_none() {
                verdict = Some(("per:idft-postcondition-fails".to_string(), json!({"period": period})));
            }
            let cse: Vec<Challenge> = cs.iter().map(|c| lift(*c)).collect();
            Some(Res {
                line: format!("per {TAG} {folds} {} {} {}", fmt(x), cse.len(), fmts(&cse)),
                impl_line: impl_line("per", &out, true),
                notes,
                verdict,
                circuit_ok: matches!(out, Out::Vals(_)),
                extra: vec![idft_lines(&col, sub_shift, &cs)],
            })
        }
        "poly" => {
            let x = e(0)?;
            let cs: Vec<Challenge> = spec.elems[1..].iter().map(|c| ef(c)).collect();
            let mut pubs = vec![x];
            pubs.extend(cs.iter().copied());
            let out = run_gadget(&pubs, |cb, ins| Ok(vec![extracted::evaluate_polynomial(cb, &ins[1..], ins[0])]));
            let nat = native(|| {
                let mut acc = Challenge::ZERO;
                for c in cs.iter().rev() {
                    acc = acc * x + *c;
                }
                // p3-fri: `final_poly.iter().copied().horner(x)`
                use p3_field::HornerIter;
                let hv: Challenge = cs.iter().copied().horner(x);
                assert_eq!(acc, hv);
                vec![acc]
            });
            let verdict = if cs.is_empty() {
                notes.push(format!("poly.len0.precondition.{}", if matches!(out, Out::Panic) { "panic" } else { "no-panic" }));
                None
            } else {
                notes.push(format!("poly.len.{}", if cs.len() == 1 { "1".into() } else { format!("{}+", cs.len() / 8 * 8) }));
                judge(g, &out, &nat, &mut notes)
            };
            Some(Res {
                line: format!("poly {TAG} {} {} {}", fmt(x), cs.len(), fmts(&cs)).trim_end().to_string(),
                impl_line: impl_line("poly", &out, true),
                notes,
                verdict,
                circuit_ok: matches!(out, Out::Vals(_)),
                extra: vec![],
            })
        }
        "fqp" => {
            let (log_max, consumed, index) = (n(0)? as usize, n(1)? as usize, n(2)?);
            if consumed > log_max || log_max > F::TWO_ADICITY {
                return None;
            }
            let explicit = !spec.elems.is_empty();
            let bits: Vec<Challenge> =
                if explicit { spec.elems.iter().map(|c| ef(c)).collect() } else { bits_of(index, log_max) };
            if bits.len() != log_max {
                return None;
            }
            let out = run_gadget(&bits, |cb, ins| {
                let powers = extracted::precompute_two_adic_powers::<F, Challenge>(cb, log_max);
                Ok(vec![extracted::compute_final_query_point::<F, Challenge>(cb, ins, log_max, consumed, &powers)])
            });
            let gen_ = F::two_adic_generator(log_max);
            let verdict = if explicit {
                notes.push("fqp.nonboolean-bits(model-only)".into());
                None
            } else {
                let nat = native(|| {
                    let domain_index = (index & ((1u64 << log_max) - 1)) >> consumed;
                    vec![lift(gen_.exp_u64(reverse_bits_len(domain_index as usize, log_max) as u64))]
                });
                judge(g, &out, &nat, &mut notes)
            };
            notes.push(format!("fqp.logMax.{}.consumed.{}", log_max.min(20) / 4 * 4, if consumed == 0 { "0" } else if consumed == log_max { "all" } else { "some" }));
            Some(Res {
                line: format!("fqp {TAG} {} {log_max} {consumed} {}", fmt(lift(gen_)), fmts(&bits[consumed..])).trim_end().to_string(),
                impl_line: impl_line("fqp", &out, true),
                notes,
                verdict,
                circuit_ok: matches!(out, Out::Vals(_)),
                extra: vec![],
            })
        }
        "evp" => {
            let (lgm, index) = (n(0)? as usize, n(1)?);
            let hs: Vec<usize> = spec.nums[2..].iter().map(|h| *h as usize).collect();
            if hs.is_empty() || hs[0] > lgm || lgm > F::TWO_ADICITY || hs.windows(2).any(|w| w[0] <= w[1]) || *hs.last()? == 0 {
                return None;
            }
            let explicit = !spec.elems.is_empty();
            let bits: Vec<Challenge> = if explicit { spec.elems.iter().map(|c| ef(c)).collect() } else { bits_of(index, lgm) };
            if bits.len() != lgm {
                return None;
            }
            let h_max = hs[0];
            let mut asc = hs.clone();
            asc.sort_unstable();
            let out = run_gadget(&bits, |cb, ins| {
                let m = extracted::precompute_evaluation_points::<F, Challenge>(cb, &hs, ins, lgm);
                asc.iter().map(|h| m.get(h).copied().ok_or_else(|| "MissingHeight".to_string())).collect()
            });
            let verdict = if explicit {
                notes.push("evp.nonboolean-bits(model-only)".into());
                None
            } else {
                let nat = native(|| {
                    asc.iter()
                        .map(|&h| {
                            let idx = (index & ((1u64 << lgm) - 1)) as usize;
                            let rev = reverse_bits_len(idx >> (lgm - h), h);
                            lift(F::GENERATOR * F::two_adic_generator(h).exp_u64(rev as u64))
                        })
                        .collect::<Vec<_>>()
                });
                judge(g, &out, &nat, &mut notes)
            };
            notes.push(format!("evp.heights.{}", hs.len().min(4)));
            let impl_line = match &out {
                Out::Vals(v) => format!(
                    "evp {}",
                    asc.iter().zip(v).map(|(h, x)| format!("{h}:{}", fmt(*x))).collect::<Vec<_>>().join(" ")
                ),
                o => impl_line("evp", o, true),
            };
            Some(Res {
                line: format!(
                    "evp {TAG} {} {} {lgm} {h_max} {} {} {}",
                    fmt(lift(F::GENERATOR)),
                    fmt(lift(F::two_adic_generator(h_max))),
                    hs.len(),
                    hs.iter().map(|h| h.to_string()).collect::<Vec<_>>().join(" "),
                    fmts(&bits)
                )
                .trim_end()
                .to_string(),
                impl_line,
                notes,
                verdict,
                circuit_ok: matches!(out, Out::Vals(_)),
                extra: vec![],
            })
        }
        _ => None,
    }
}

// ------------------------------------------------------------------------------ generator

fn rand_ef(r: &mut Rng) -> Vec<u64> {
    match r.below(10) {
        0 => vec![r.below(3), 0, 0, 0],            // 0, 1, 2
        1 => vec![r.below(P), 0, 0, 0],            // base-field point
        2 => vec![P - 1 - r.below(2), 0, 0, 0],    // -1, -2
        _ => (0..DEG).map(|_| r.below(P)).collect(),
    }
}
fn rand_shift(r: &mut Rng) -> u64 {
    match r.below(4) {
        0 => 1,
        1 => F::GENERATOR.as_canonical_u64(),
        _ => 1 + r.below(P - 1),
    }
}
fn base_as_ef(x: F) -> Vec<u64> {
    vec![x.as_canonical_u64(), 0, 0, 0]
}
fn rand_log(r: &mut Rng, max: usize) -> usize {
    match r.below(6) {
        0 => 0,
        1 => 1,
        2 => max,
        _ => r.range(0, max),
    }
}

fn spec(gadget: &str, origin: String) -> Spec {
    Spec { field: TAG.to_string(), gadget: gadget.to_string(), nums: vec![], shifts: vec![], base: vec![], elems: vec![], origin }
}

/// Points of / next to the coset `d`, where the divisions of the gadgets degenerate.
fn special_points(r: &mut Rng, d: &Dom) -> Vec<u64> {
    let h = d.subgroup_generator();
    let k = r.below(d.size() as u64);
    match r.below(5) {
        0 => base_as_ef(d.shift()),                    // first point: u = 1
        1 => base_as_ef(d.shift() * h.inverse()),      // last point: u = h^-1
        2 => base_as_ef(d.shift() * h.exp_u64(k)),     // some point of the coset
        3 => vec![0, 0, 0, 0],
        _ => base_as_ef(d.shift() * F::GENERATOR),     // a base-field point off the subgroup coset
    }
}

pub fn generate(r: &mut Rng, scale: usize, todo: &mut Vec<Spec>) {
    let seed_tag = r.0;
    let mut push = |mut s: Spec, i: usize| {
        s.origin = format!("gen:{TAG}:{seed_tag:x}:{}:{i}", s.gadget);
        todo.push(s);
    };
    // exp2
    for i in 0..60 * scale {
        let mut s = spec("exp2", String::new());
        s.nums = vec![rand_log(r, 24) as u64];
        s.elems = vec![rand_ef(r)];
        push(s, i);
    }
    // expc: exponents 0..2^31 and beyond, all small ones
    for i in 0..(140 * scale) {
        let mut s = spec("expc", String::new());
        let nn = if i <= 40 {
            i as u64
        } else {
            match r.below(5) {
                0 => 1u64 << r.below(32),
                1 => (1u64 << r.range(1, 32)) - 1,
                2 => r.below(1 << 31),
                3 => r.below(1 << 12),
                _ => r.next() >> r.below(40),
            }
        };
        s.nums = vec![nn];
        s.elems = vec![rand_ef(r)];
        push(s, i);
    }
    // vanishing polynomial and selectors: every log size 0..=20 with several shifts, plus random
    for g in ["van", "sel"] {
        let mut i = 0;
        for log_n in 0..=20usize {
            for rep in 0..(5 * scale) {
                let mut s = spec(if g == "sel" && rep % 2 == 1 { "selz" } else { g }, String::new());
                let shift = rand_shift(r);
                s.nums = vec![log_n as u64];
                s.shifts = vec![shift];
                let d = dom(shift, log_n).unwrap();
                s.elems = vec![if rep % 5 < 2 { special_points(r, &d) } else { rand_ef(r) }];
                push(s, i);
                i += 1;
            }
        }
    }
    // quotient recomposition: chunk counts 1,2,4,8 (16 with ZK), with and without ZK doubling
    {
        let mut i = 0;
        for zk in 0..=1usize {
            for log_qd in 0..=3usize {
                for rep in 0..(12 * scale) {
                    let db = match rep % 6 {
                        0 => zk,        // chunk domains of size one
                        1 => zk + 1,
                        _ => r.range(zk, 14),
                    };
                    let nch = 1usize << (log_qd + zk);
                    let mut s = spec(if zk == 1 && rep % 2 == 0 { "quotz" } else { "quot" }, String::new());
                    s.nums = vec![db as u64, log_qd as u64, zk as u64];
                    // the chunk domains, to place zeta on / next to them
                    let trace = Dom::new(F::ONE, db).unwrap();
                    let qd = trace.create_disjoint_domain(1 << (db + log_qd));
                    let doms = qd.split_domains(nch);
                    let zeta = match rep % 4 {
                        0 => {
                            let which = r.usize(nch);
                            special_points(r, &doms[which])
                        }
                        1 => special_points(r, &trace),
                        _ => rand_ef(r),
                    };
                    s.elems = vec![zeta];
                    for _ in 0..nch * DEG {
                        s.elems.push(rand_ef(r));
                    }
                    push(s, i);
                    i += 1;
                }
            }
        }
        // explicit coset lists (need not be disjoint: a zero denominator constant fails on both sides)
        for _ in 0..(30 * scale) {
            let nch = r.range(0, 5);
            let mut s = spec("quot", String::new());
            s.nums = vec![0, 0, 0, 1];
            for _ in 0..nch {
                s.nums.push(r.range(0, 6) as u64);
                s.shifts.push(if r.chance(1, 3) { 1 + r.below(4) } else { rand_shift(r) });
            }
            s.elems = vec![rand_ef(r)];
            for _ in 0..nch * DEG {
                s.elems.push(rand_ef(r));
            }
            push(s, i);
            i += 1;
        }
    }
    // periodic columns: every period 2^k <= 2^logN, k <= 6
    {
        let mut i = 0;
        for log_n in 0..=10usize {
            for log_p in 0..=log_n.min(6) {
                for rep in 0..(3 * scale) {
                    let mut s = spec("per", String::new());
                    let shift = rand_shift(r);
                    s.nums = vec![log_n as u64];
                    s.shifts = vec![shift];
                    s.base = (0..1usize << log_p).map(|_| r.below(P)).collect();
                    let d = dom(shift, log_n).unwrap();
                    s.elems = vec![if rep % 3 == 0 { special_points(r, &d) } else { rand_ef(r) }];
                    push(s, i);
                    i += 1;
                }
            }
        }
        // several columns per call, periods in every order (increasing, decreasing, mixed, repeated)
        for log_n in 2..=8usize {
            for rep in 0..(4 * scale) {
                let mut s = spec("perm", String::new());
                let shift = rand_shift(r);
                let ncols = 2 + r.usize(4);
                let lps: Vec<usize> = (0..ncols).map(|_| r.usize(log_n.min(5) + 1)).collect();
                s.nums = vec![log_n as u64, ncols as u64];
                s.nums.extend(lps.iter().map(|x| *x as u64));
                s.shifts = vec![shift];
                s.base = lps.iter().flat_map(|lp| (0..1usize << lp).map(|_| 0u64).collect::<Vec<_>>()).collect();
                for v in s.base.iter_mut() {
                    *v = r.below(P);
                }
                let d = dom(shift, log_n).unwrap();
                s.elems = vec![if rep % 4 == 0 { special_points(r, &d) } else { rand_ef(r) }];
                push(s, i);
                i += 1;
            }
        }
        // invalid lengths: must be rejected at build time
        for (log_n, len) in [(3usize, 3usize), (2, 8), (0, 2), (4, 6), (3, 0)] {
            let mut s = spec("per", String::new());
            s.nums = vec![log_n as u64];
            s.shifts = vec![1];
            s.base = (0..len).map(|_| r.below(P)).collect();
            s.elems = vec![rand_ef(r)];
            push(s, i);
            i += 1;
        }
    }
    // polynomial evaluation: lengths 0..=33 and a few long ones
    {
        let mut i = 0;
        for len in 0..=33usize {
            for _ in 0..(3 * scale) {
                let mut s = spec("poly", String::new());
                s.elems = vec![rand_ef(r)];
                for _ in 0..len {
                    s.elems.push(rand_ef(r));
                }
                push(s, i);
                i += 1;
            }
        }
        for _ in 0..(4 * scale) {
            let len = r.range(34, 200);
            let mut s = spec("poly", String::new());
            s.elems = vec![rand_ef(r)];
            for _ in 0..len {
                s.elems.push(rand_ef(r));
            }
            push(s, i);
            i += 1;
        }
    }
    // final query point: all (logMax <= 5, consumed, index); random larger
    {
        let mut i = 0;
        for log_max in 0..=5usize {
            for consumed in 0..=log_max {
                for index in 0..(1u64 << log_max) {
                    if log_max == 5 && index % 3 != 0 {
                        continue;
                    }
                    let mut s = spec("fqp", String::new());
                    s.nums = vec![log_max as u64, consumed as u64, index];
                    push(s, i);
                    i += 1;
                }
            }
        }
        for _ in 0..(80 * scale) {
            let log_max = r.range(6, 22);
            let mut s = spec("fqp", String::new());
            s.nums = vec![log_max as u64, rand_log(r, log_max) as u64, r.below(1 << log_max)];
            if r.chance(1, 8) {
                s.elems = (0..log_max).map(|_| rand_ef(r)).collect();
            }
            push(s, i);
            i += 1;
        }
    }
    // evaluation points per height: all indices for lgm <= 4 with every height subset; random larger
    {
        let mut i = 0;
        for lgm in 1..=4usize {
            for mask in 1u32..(1 << lgm) {
                let hs: Vec<u64> = (1..=lgm as u64).rev().filter(|h| (mask >> (h - 1)) & 1 == 1).collect();
                for index in 0..(1u64 << lgm) {
                    if lgm == 4 && (index + mask as u64) % 4 != 0 {
                        continue;
                    }
                    let mut s = spec("evp", String::new());
                    s.nums = vec![lgm as u64, index];
                    s.nums.extend(hs.iter().copied());
                    push(s, i);
                    i += 1;
                }
            }
        }
        for _ in 0..(80 * scale) {
            let lgm = r.range(5, 22);
            let mut hs: Vec<u64> = (1..=lgm as u64).filter(|_| r.chance(1, 4)).collect();
            if hs.is_empty() {
                hs.push(r.range(1, lgm) as u64);
            }
            hs.reverse();
            let mut s = spec("evp", String::new());
            s.nums = vec![lgm as u64, r.below(1 << lgm)];
            s.nums.extend(hs.iter().copied());
            if r.chance(1, 8) {
                s.elems = (0..lgm).map(|_| rand_ef(r)).collect();
            }
            push(s, i);
            i += 1;
        }
    }
}
