/-
Line-protocol driver: reads one command per line on stdin, runs the *model* definitions of
`P3R.Model.*` and prints one canonical result line per command. The Rust harness prints the
same lines from the real implementation; `bin/check` diffs the two streams.
Imports only the import-free model modules, so it links as a native executable.
-/
import P3R.Model.Runner
import P3R.Model.Driver

open P3R

partial def loop (h : IO.FS.Stream) (st : Driver.St) : IO Unit := do
  let line ← h.getLine
  if line.isEmpty then return ()
  let (st', outs) := Driver.step st line
  for o in outs do IO.println o
  loop h st'

def main : IO Unit := do
  loop (← IO.getStdin) Driver.St.init
