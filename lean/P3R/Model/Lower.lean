/-
L2 — lowering of the expression graph to the flat op list.
Mirrors `circuit/src/builder/compiler/lowerer/{connect_dsu,state}.rs` and `ops/op.rs`.

The union–find of the Rust code (hash map of parents with path compression) is modelled by
its *partition*: `rep : Array Nat` maps every expression id to a class representative.
Only "same class?" and first-allocation order are observable in the emitted ops, so the model
is faithful whichever representative each side picks; the correspondence check compares the
emitted witness numbering exactly.
-/
import P3R.Model.Builder

namespace P3R

inductive AluKind where
  | add | mul | boolCheck | mulAdd | horner
deriving Repr, DecidableEq

/-- `ops/op.rs::Op` (executors reduced to their kind). -/
inductive Op (K : Type) where
  | const (out : Nat) (v : K)
  | pub (out : Nat) (pos : Nat)
  | alu (kind : AluKind) (a b : Nat) (c : Option Nat) (out : Nat) (io : Option Nat)
  | hint (ins outs : List Nat) (kind : NpKind)
  | npo (ins outs : List (List Nat)) (opId : Nat) (kind : NpKind)
deriving Repr, DecidableEq

namespace Op
def add {K} (a b out : Nat) : Op K := .alu .add a b none out none
def mul {K} (a b out : Nat) : Op K := .alu .mul a b none out none
def mulAdd {K} (a b c out : Nat) : Op K := .alu .mulAdd a b (some c) out none
/-- `Op::horner_acc(a = p_at_x, b = alpha, c = p_at_z, out, acc)`. -/
def horner {K} (a b c out acc : Nat) : Op K := .alu .horner a b (some c) out (some acc)
end Op

/-! ### Connect classes -/

/-- Partition after merging `(a, b)`: every member of `b`'s class moves to `a`'s class. -/
def Dsu.union (rep : Array Nat) (a b : Nat) : Array Nat :=
  let ra := rep.getD a a
  let rb := rep.getD b b
  if ra = rb then rep else rep.map fun r => if r = rb then ra else r

def Dsu.ofConnects (n : Nat) (cs : List (Nat × Nat)) : Array Nat :=
  cs.foldl (fun rep ab => Dsu.union rep ab.1 ab.2) (Array.range n)

/-- Lowering state (`LoweringState`). `e2w`/`rootW` are indexed by expression id, sized
`nodes + 1` so that the synthetic id `nodes.len()` of the sub fast path is addressable. -/
structure LState (K : Type) where
  rep : Array Nat
  inConnect : Array Bool
  rootW : Array (Option Nat)
  next : Nat
  ops : Array (Op K)
  e2w : Array (Option Nat)
  pubRows : Array Nat
  privRows : Array Nat
  emitted : Array Bool

inductive LowerErr where
  | missingExpr (e : Nat)
  | missingNp (op : Nat)
  | unanchoredNp (op : Nat)
  | malformedOutputs (op : Nat)
  | badHintArity
  | hornerNotChained
deriving Repr, DecidableEq

section
variable {K : Type}

/-- `ConnectDsu::alloc_witness`. -/
def LState.allocWitness (s : LState K) (e : Nat) : LState K × Nat :=
  if s.inConnect.getD e false then
    let root := s.rep.getD e e
    match s.rootW.getD root none with
    | some w => (s, w)
    | none => ({ s with rootW := s.rootW.setIfInBounds root (some s.next), next := s.next + 1 }, s.next)
  else ({ s with next := s.next + 1 }, s.next)

def LState.setW (s : LState K) (e w : Nat) : LState K :=
  { s with e2w := s.e2w.setIfInBounds e (some w) }

def LState.resolve (s : LState K) (e : Nat) : Except LowerErr Nat :=
  match s.e2w.getD e none with
  | some w => .ok w
  | none => .error (.missingExpr e)

def LState.pushOp (s : LState K) (op : Op K) : LState K := { s with ops := s.ops.push op }

end

section
variable {K : Type} [Neg K]

/-- `op_id_to_output_exprs`: output expression ids of call `opId`, sorted by output index;
`none` if the indices are not exactly `0..n`. -/
def npOutputsOf (nodes : Array (Expr K)) (opId : Nat) : Option (List (Nat × Nat)) :=
  let raw : List (Nat × Nat) := (List.range nodes.size).filterMap fun i =>
    match nodes[i]? with
    | some (Expr.npOut call idx) =>
      match nodes[call]? with
      | some (Expr.npCall op _) => if op = opId then some (idx, i) else none
      | _ => none
    | _ => none
  -- outputs are created in index order by `pushNp`; a stable insertion sort keeps the model total
  let sorted := raw.mergeSort (fun a b => a.1 ≤ b.1)
  if (sorted.zipIdx.all fun p => p.1.1 = p.2) then some sorted else none

/-- `emit_npo_call`. -/
def LState.emitNpCall (s : LState K) (nodes : Array (Expr K)) (npOps : Array NpData) (opId : Nat) :
    Except LowerErr (LState K) :=
  if s.emitted.getD opId false then .ok s else
  match npOps[opId]? with
  | none => .error (.missingNp opId)
  | some data =>
    let s := { s with emitted := s.emitted.setIfInBounds opId true }
    match npOutputsOf nodes opId with
    | none => .error (.malformedOutputs opId)
    | some outs =>
      -- pre-allocate witnesses for all output expressions
      let s := outs.foldl (fun (st : LState K) (o : Nat × Nat) =>
        match st.e2w.getD o.2 none with
        | some _ => st
        | none => let (st', w) := st.allocWitness o.2; st'.setW o.2 w) s
      match data.kind with
      | .table _ =>
        -- table-backed plugin: inputs resolved per group, outputs are the pre-allocated slots
        let insE : Except LowerErr (List (List Nat)) :=
          data.ins.mapM fun g => g.mapM fun e => s.resolve e
        match insE with
        | .error e => .error e
        | .ok ins =>
          let outsW := outs.map fun o => [(s.e2w.getD o.2 none).getD 0]
          .ok (s.pushOp (.npo ins outsW opId data.kind))
      | k =>
        match data.ins with
        | [g] =>
          match g.mapM fun e => s.resolve e with
          | .error e => .error e
          | .ok ins =>
            let outsW := outs.map fun o => (s.e2w.getD o.2 none).getD 0
            .ok (s.pushOp (.hint ins outsW k))
        | _ => .error .badHintArity

/-- One step of `emit_operations`. -/
def LState.emitNode (s : LState K) (nodes : Array (Expr K)) (npOps : Array NpData) (i : Nat)
    (e : Expr K) : Except LowerErr (LState K) :=
  match e with
  | .const _ | .pub _ | .priv _ => .ok s
  | .add l r =>
    let (s, out) := s.allocWitness i
    match s.resolve l, s.resolve r with
    | .ok a, .ok b => .ok ((s.pushOp (Op.add a b out)).setW i out)
    | .error e, _ => .error e
    | _, .error e => .error e
  | .sub l r =>
    let (s, res) := s.allocWitness i
    match s.resolve l with
    | .error e => .error e
    | .ok lw =>
      match nodes[l]?, nodes[r]? with
      | some (Expr.mul _ _), some (Expr.const c) =>
        let (s, nw) := s.allocWitness nodes.size
        .ok (((s.pushOp (.const nw (-c))).pushOp (Op.add lw nw res)).setW i res)
      | _, _ =>
        match s.resolve r with
        | .error e => .error e
        | .ok rw => .ok ((s.pushOp (Op.add rw res lw)).setW i res)
  | .mul l r =>
    let (s, out) := s.allocWitness i
    match s.resolve l, s.resolve r with
    | .ok a, .ok b => .ok ((s.pushOp (Op.mul a b out)).setW i out)
    | .error e, _ => .error e
    | _, .error e => .error e
  | .div l r =>
    let (s, q) := s.allocWitness i
    match s.resolve l, s.resolve r with
    | .ok out, .ok a => .ok ((s.pushOp (Op.mul a q out)).setW i q)
    | .error e, _ => .error e
    | _, .error e => .error e
  | .horner acc alpha pz px =>
    let (s, out) := s.allocWitness i
    match s.resolve acc, s.resolve alpha, s.resolve pz, s.resolve px with
    | .ok accW, .ok alW, .ok pzW, .ok pxW => .ok ((s.pushOp (Op.horner pxW alW pzW out accW)).setW i out)
    | .error e, _, _, _ => .error e
    | _, .error e, _, _ => .error e
    | _, _, .error e, _ => .error e
    | _, _, _, .error e => .error e
  | .boolCheck v =>
    let (s, out) := s.allocWitness i
    match s.resolve v, s.resolve 0 with
    | .ok vw, .ok zw => .ok ((s.pushOp (.alu .boolCheck vw zw (some vw) out none)).setW i out)
    | .error e, _ => .error e
    | _, .error e => .error e
  | .mulAdd a b c =>
    let (s, out) := s.allocWitness i
    match s.resolve a, s.resolve b, s.resolve c with
    | .ok aw, .ok bw, .ok cw => .ok ((s.pushOp (Op.mulAdd aw bw cw out)).setW i out)
    | .error e, _, _ => .error e
    | _, .error e, _ => .error e
    | _, _, .error e => .error e
  | .npCall op _ => s.emitNpCall nodes npOps op
  | .npOut call _ =>
    match nodes[call]? with
    | some (Expr.npCall op _) =>
      match s.emitNpCall nodes npOps op with
      | .error e => .error e
      | .ok s =>
        match s.e2w.getD i none with
        | some _ => .ok s
        | none => let (s, w) := s.allocWitness i; .ok (s.setW i w)
    | _ => .error (.missingExpr call)

/-- Result of lowering (`LoweringResult`). -/
structure Lowered (K : Type) where
  ops : Array (Op K)
  pubRows : Array Nat
  privRows : Array Nat
  e2w : Array (Option Nat)
  witnessCount : Nat

def forNodes (nodes : Array (Expr K)) (s : LState K)
    (f : LState K → Nat → Expr K → Except LowerErr (LState K)) : Except LowerErr (LState K) :=
  (List.range nodes.size).foldlM (fun st i =>
    match nodes[i]? with
    | some e => f st i e
    | none => .ok st) s

/-- `ExpressionLowerer::lower`: constants, publics, privates, operations, NPO validation,
backfill of connect-only expressions. -/
def lower (b : BState K) : Except LowerErr (Lowered K) := do
  let n := b.nodes.size
  let inC := b.connects.foldl (fun (m : Array Bool) ab =>
      (m.setIfInBounds ab.1 true).setIfInBounds ab.2 true) (Array.replicate (n + 1) false)
  let s0 : LState K :=
    { rep := Dsu.ofConnects (n + 1) b.connects, inConnect := inC,
      rootW := Array.replicate (n + 1) none, next := 0, ops := #[],
      e2w := Array.replicate (n + 1) none,
      pubRows := Array.replicate b.pubCount 0, privRows := Array.replicate b.privCount 0,
      emitted := Array.replicate b.npOps.size false }
  let s1 ← forNodes b.nodes s0 fun st i e =>
    match e with
    | .const v => let (st, w) := st.allocWitness i; .ok ((st.pushOp (.const w v)).setW i w)
    | _ => .ok st
  let s2 ← forNodes b.nodes s1 fun st i e =>
    match e with
    | .pub pos =>
      let (st, w) := st.allocWitness i
      let st := (st.pushOp (.pub w pos)).setW i w
      .ok { st with pubRows := st.pubRows.setIfInBounds pos w }
    | _ => .ok st
  let s3 ← forNodes b.nodes s2 fun st i e =>
    match e with
    | .priv pos =>
      let (st, w) := st.allocWitness i
      let st := st.setW i w
      .ok { st with privRows := st.privRows.setIfInBounds pos w }
    | _ => .ok st
  let s4 ← forNodes b.nodes s3 fun st i e => st.emitNode b.nodes b.npOps i e
  -- validate_all_npo_emitted
  match (List.range b.npOps.size).find? fun i => !(s4.emitted.getD i false) with
  | some i => .error (.unanchoredNp i)
  | none =>
    -- backfill_connect_mappings
    let s5 := (List.range (n + 1)).foldl (fun (st : LState K) e =>
      if st.inConnect.getD e false then
        match st.e2w.getD e none with
        | some _ => st
        | none =>
          match st.rootW.getD (st.rep.getD e e) none with
          | some w => st.setW e w
          | none => st
      else st) s4
    .ok { ops := s5.ops, pubRows := s5.pubRows, privRows := s5.privRows, e2w := s5.e2w,
          witnessCount := s5.next }

end

end P3R
