/-
L13 (part) — `merge_hiding_random_openings` (`recursion/src/pcs/fri/targets.rs`), the step of
`HidingFriPcs::verify_circuit` that decides which of the hiding random opened values
(`HidingOpenedValuesTargets`, allocated rounds → matrices → points → values by
`P3R.Packing.hidAlloc`) become operands of the FRI verifier. Imports only the packing model.

The Rust walks `commitments_with_opening_points` (what the STARK verifier wants opened: per
commitment round, per matrix, the list of opening points) **zipped** with the random opened values
of the proof, and appends the random values of a pair to the opened values of that point. A `zip`
stops at the shorter side, so three explicit length checks guard it:

    rounds:   coms.len()   != random_opened_values.len()   → InvalidProofShape
    matrices: mats.len()   != rand_round.len()             → InvalidProofShape   (per round)
    points:   points.len() != rand_mat.len()               → InvalidProofShape   (per matrix)

`hidMerge` transcribes exactly this control flow (the zips as structural recursion on both lists,
the checks as the `if`s in front of them, errors in program order) and returns the names of the
random values that were merged, i.e. consumed. `P3R.C14.hidMerge_complete` proves that a successful
merge consumes *every* allocated hiding input; `P3R.Witness.C14.points_check_needed` shows that the
zip alone does not (a surplus point is allocated and packed, but read by nothing).

An *opening structure* (`OpenShape`) is everything the merge reads from the verifier's side: the
number of opening points of every matrix of every round.
-/
import P3R.Model.Packing

namespace P3R.Packing

/-- rounds → matrices → number of opening points. -/
abbrev OpenShape := List (List Nat)

/-- Which of the three shape checks fired (`InvalidProofShape("Hiding FRI proof shape mismatch: random
    {rounds,matrices,points} count does not match …")`). -/
inductive MergeErr | rounds | matrices | points
  deriving DecidableEq, Repr

def MergeErr.name : MergeErr → String
  | .rounds => "rounds"
  | .matrices => "matrices"
  | .points => "points"

/-- `points.iter().zip(rand_mat.iter())` for matrix `m` of round `r`: `k` opening points left,
    `rm` the remaining random point-vectors (their lengths), `p` the index of the next one. Each
    pair merges (consumes) all values of its random point-vector. -/
def zipPoints (r m : Nat) : Nat → Nat → List Nat → List Label
  | _, 0, _ => []
  | _, _ + 1, [] => []
  | p, k + 1, n :: rest => idx s!"hid.r{r}.m{m}.p{p}" n ++ zipPoints r m (p + 1) k rest

/-- `mats.iter().zip(rand_round.iter())` for round `r`, with the per-matrix points check. -/
def mergeMats (r : Nat) : Nat → List Nat → List (List Nat) → Except MergeErr (List Label)
  | _, [], _ => .ok []
  | _, _ :: _, [] => .ok []
  | m, pts :: ms, rm :: rms =>
    if pts ≠ rm.length then .error .points
    else match mergeMats r (m + 1) ms rms with
      | .error e => .error e
      | .ok rest => .ok (zipPoints r m 0 pts rm ++ rest)

/-- `coms.iter().zip(random_opened_values.iter())`, with the per-round matrices check. -/
def mergeRounds : Nat → OpenShape → List (List (List Nat)) → Except MergeErr (List Label)
  | _, [], _ => .ok []
  | _, _ :: _, [] => .ok []
  | r, mats :: os, rr :: rrs =>
    if mats.length ≠ rr.length then .error .matrices
    else match mergeMats r 0 mats rr with
      | .error e => .error e
      | .ok a => match mergeRounds (r + 1) os rrs with
        | .error e => .error e
        | .ok b => .ok (a ++ b)

/-- `merge_hiding_random_openings`: the rounds check, then the guarded zips. `ok uses`: the merge
    succeeded and `uses` are the hiding inputs that became FRI operands. -/
def hidMerge (o : OpenShape) (h : List (List (List Nat))) : Except MergeErr (List Label) :=
  if o.length ≠ h.length then .error .rounds else mergeRounds 0 o h

/-- The opening structure a hiding shape must mirror. -/
def hidStructure (h : List (List (List Nat))) : OpenShape := h.map fun round => round.map List.length

end P3R.Packing
