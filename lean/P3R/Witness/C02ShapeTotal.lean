/-
Witnesses for `P3R.C02S` (Props/C02ShapeTotal.lean).

* `good_*` — the reachable example of `Witness.C09Total` (public, private, a bit-decomposition hint,
  `assert_bool`, a fusable mul+add, a backward `sub` row) satisfies `privOk`, `pubOk`, `primOk`;
  `lowered_shape_ok` applies, the optimiser keeps the shape run (`optKeepsShape`), hence
  `compile_shape_ok_of_optKeeps`: the compiled circuit's shape run succeeds.
* `bad_*` — the point excluded by `hintsGuarded` on the bus side (C09: a hint output in the `b`
  column with no creator) is NOT excluded on the runner side: guards hold and the shape run of the
  compiled circuit succeeds (the runner executes the hint before the row).
* `tbl_*`, `own_*` — the guard `primOk` is necessary for the modelled runner layer: a table-backed op
  (executed by plugins outside this layer) and a hint that reads its own output (reachable through
  `pushNp` with a forged id; model-level limit, not a defect of /repo) make the shape run fail.
-/
import P3R.Props.C02ShapeTotal
import P3R.Witness.C09Compile
open P3R P3R.C02T P3R.C02S P3R.Witness.C09Total P3R.Witness.C09Compile

namespace P3R.Witness.C02ShapeTotal

theorem good_guards : privOk bGood = true ∧ pubOk bGood = true ∧ primOk bGood = true := by
  decide +kernel

theorem good_optKeeps :
    (match lower bGood with
     | .ok l => optKeepsShape l
     | .error _ => false) = true := by decide +kernel

/-- `lowered_shape_ok` applies to the example. -/
example (l : Lowered Int) (hl : lower bGood = .ok l) :
    runShape l.asCircuit (allInputsSet l.asCircuit) = true :=
  lowered_shape_ok bGood good_reachable.ok good_guards.1 good_guards.2.1 good_guards.2.2 l hl

/-- … and the example compiles, so the statement is not vacuous. -/
theorem good_compiles : (match compile bGood with | .ok _ => true | .error _ => false) = true := by
  decide +kernel

example (c : Circuit Int) (hc : compile bGood = .ok c) : runShape c (allInputsSet c) = true := by
  apply compile_shape_ok_of_optKeeps bGood good_reachable.ok good_guards.1 good_guards.2.1
    good_guards.2.2 c hc
  intro l hl
  have := good_optKeeps
  rw [hl] at this
  exact this

/-- The bus-side guard is not needed by the runner. -/
theorem bad_runs : hintsGuarded bBad = false ∧ privOk bBad = true ∧ pubOk bBad = true ∧
    primOk bBad = true ∧
    (match compile bBad with
     | .ok c => runShape c (allInputsSet c)
     | .error _ => false) = true := by decide +kernel

/-- A table-backed op is outside the modelled runner layer. -/
theorem tbl_needs_primOk : primOk bTbl = false ∧
    (match compile bTbl with
     | .ok c => runShape c (allInputsSet c)
     | .error _ => true) = false := by decide +kernel

/-- A hint that reads its own output. -/
def bOwn : BState Int := ((BState.init : BState Int).pushNp .hintBits [[2]] 1).1

theorem own_reachable : Reachable bOwn := Reachable.pushNp Reachable.init .hintBits [[2]] 1

theorem own_needs_primOk : primOk bOwn = false ∧ privOk bOwn = true ∧ pubOk bOwn = true ∧
    (match compile bOwn with
     | .ok c => runShape c (allInputsSet c)
     | .error _ => true) = false := by decide +kernel

end P3R.Witness.C02ShapeTotal
