/-
C14 line-protocol driver. One shape per stdin line, five canonical result lines out; runs the
*model* traversals of `P3R.Model.Packing` (the very definitions the theorems of
`P3R.Props.C14` are about). Every line is self-contained (kind, extension degree `D`, digest
width `E`, then the shape as a flat list of naturals in the grammar of `Packing.pUni` /
`Packing.pBatch`); nothing is defaulted. Unknown / malformed command → `bad-op`.

  shape uni   D E tokens…   |   shape batch D E tokens…
    → alloc n  P:lab S:lab …      allocation trace in program order (P = public, S = private)
      pub   n  lab …              packed public vector, by position
      priv  n  lab …              packed private vector, by position
      flat  publicFlatLen privateFlatLen
      meta  wf=0|1 distinct=0|1 validated=0|1 dead=k built=0|1
            (`dead` = allocated inputs not consumed by the verifier model; `built` = the verifier
             model's build-time check of the per-query folding data passes (`friSibCheck`);
             `validated`, `dead`, `built` are model-only and judged by `bin/checks_c14.py`
             (`validated ∧ (wf ∨ built) → dead = 0`: `no_dead_input_*`, `no_dead_input_*_built`;
             `built → wf`: `friSibCheck_ok_wf`), not compared with the implementation)

  sibcheck D nq (n (log_arity siblings){n}){nq}
                        per query proof its commit-phase steps as (log_arity, sibling_values.len())
    → sibcheck ok | sibcheck error:zero:<k> | error:count:<q> | error:arity:<q>:<k> | error:sib:<q>:<k>
      (`P3R.Packing.friSibCheck`, the model of the shape loop at the head of `verify_fri_circuit`:
       schedule entry 0 / opening count / log_arity vs schedule of the first query / sibling
       coefficient count `(2^log_arity − 1)·D` with checked arithmetic; `P3R.C14.friSibCheck_ok_wf`,
       `malformed_siblings_rejected`)

  hidmerge tokens…      tokens = opening structure (list of rounds, each a list of matrices, each
                        the number of opening points) then the hiding random opened values
                        (rounds → matrices → points → length), both in the list grammar of `pList`
    → hidmerge ok | hidmerge mismatch:rounds | mismatch:matrices | mismatch:points
      (`P3R.Packing.hidMerge`, the model of `merge_hiding_random_openings`; `ok-dead=k` would mean
       a successful merge left `k` allocated hiding inputs unconsumed — excluded by
       `P3R.C14.hidMerge_complete`)

  friphase logBlowup logFinal inCap n a_0 h_0 … a_{n-1} h_{n-1}
                        one FRI query over a single committed matrix of maximal height: FRI parameters,
                        cap height of the input commitment, then per commit phase its log-arity and the
                        cap height of its commitment
    → friphase in=m ph=v_0,…,v_{n-1}    v = m (opening hashed and compared with the cap) | f (fold only)
      friphase error:in | friphase error:ph<k>   (cap higher than the tree: construction refused)
      (`P3R.Packing.friPhases`, the model of the commit-phase loop of `verify_fri_circuit`)
-/
import P3R.Model.Packing
import P3R.Model.HidingMerge
import P3R.Model.FriPhases

open P3R.Packing

namespace C14Driver

def b2s (b : Bool) : String := if b then "1" else "0"

def render (alloc : List Slot) (pub priv uses : List Label) (wf validated built : Bool) : List String :=
  let labs := alloc.map Slot.lab
  let dead := (labs.filter fun l => !(uses.contains l)).length
  [ s!"alloc {alloc.length} " ++ " ".intercalate (alloc.map showSlot),
    s!"pub {pub.length} " ++ " ".intercalate pub,
    s!"priv {priv.length} " ++ " ".intercalate priv,
    s!"flat {(pubOf alloc).length} {(privOf alloc).length}",
    s!"meta wf={b2s wf} distinct={b2s (allDistinct labs)} validated={b2s validated} dead={dead} built={b2s built}" ]

def builtOk (D : Nat) (f : FriShape) : Bool :=
  match friSibCheck D f with
  | .ok _ => true
  | .error _ => false

def hidmerge (toks : List Nat) : List String :=
  match pList (pList pNat) toks with
  | some (o, r1) =>
    match pList (pList (pList pNat)) r1 with
    | some (h, []) =>
      match hidMerge o h with
      | .error e => [s!"hidmerge mismatch:{e.name}"]
      | .ok uses =>
        let dead := ((hidAlloc h).map Slot.lab |>.filter fun l => !(uses.contains l)).length
        if dead = 0 then ["hidmerge ok"] else [s!"hidmerge ok-dead={dead}"]
    | _ => ["bad-op"]
  | none => ["bad-op"]

def pPair : P (Nat × Nat) := fun r => do
  let (a, r) ← pNat r
  let (b, r) ← pNat r
  pure ((a, b), r)

def sibcheck : List Nat → List String
  | D :: toks =>
    match pList (pList pPair) toks with
    | some (qs, []) =>
      if D = 0 ∨ D > 8 ∨ qs.any (fun q => q.any (fun p => p.1 > 255)) then ["bad-op"] else
      let f : FriShape := ⟨[], 0, qs.map (fun q => ⟨[], q.map (fun p => ⟨p.1, p.2, []⟩)⟩), 0⟩
      match friSibCheck D f with
      | .ok _ => ["sibcheck ok"]
      | .error e => [s!"sibcheck error:{e.name}"]
    | _ => ["bad-op"]
  | _ => ["bad-op"]

def pairs : List Nat → Option (List (Nat × Nat))
  | [] => some []
  | a :: h :: rest => (pairs rest).map ((a, h) :: ·)
  | _ => none

def friphase : List Nat → List String
  | lb :: lf :: ic :: n :: rest =>
    match pairs rest with
    | some ps =>
      if ps.length ≠ n ∨ n > 64 ∨ lb > 64 ∨ lf > 64 ∨ ps.any (fun p => p.1 > 64 ∨ p.2 > 64) then ["bad-op"] else
      match friPhases ⟨lb, lf, ic, ps⟩ with
      | .error e => [s!"friphase error:{e.name}"]
      | .ok vs => ["friphase in=m ph=" ++ ",".intercalate (vs.map PhaseVerdict.name)]
    | none => ["bad-op"]
  | _ => ["bad-op"]

def step (line : String) : List String :=
  match (line.trimAscii.toString.splitOn " ").filter (· ≠ "") with
  | "friphase" :: rest =>
    match rest.mapM String.toNat? with
    | some toks => friphase toks
    | none => ["bad-op"]
  | "sibcheck" :: rest =>
    match rest.mapM String.toNat? with
    | some toks => if toks.length > 20000 then ["bad-op"] else sibcheck toks
    | none => ["bad-op"]
  | "hidmerge" :: rest =>
    match rest.mapM String.toNat? with
    | some toks => if toks.length > 20000 then ["bad-op"] else hidmerge toks
    | none => ["bad-op"]
  | "shape" :: kind :: rest =>
    match rest.mapM String.toNat? with
    | some (D :: E :: toks) =>
      if D = 0 ∨ D > 8 ∨ E = 0 ∨ E > 16 ∨ toks.length > 20000 then ["bad-op"] else
      match kind with
      | "uni" =>
        match pUni toks with
        | some (s, []) =>
          render (uniAlloc D E s) (uniPub E s) (uniPriv D s) (uniUses D E s) s.pcs.wf s.validated (builtOk D s.pcs.fri)
        | _ => ["bad-op"]
      | "batch" =>
        match pBatch toks with
        | some (s, []) =>
          render (batchAlloc D E s) (batchPub E s) (batchPriv D s) (batchUses D E s) s.pcs.wf s.validated (builtOk D s.pcs.fri)
        | _ => ["bad-op"]
      | _ => ["bad-op"]
    | _ => ["bad-op"]
  | _ => ["bad-op"]

end C14Driver

partial def loop (h : IO.FS.Stream) : IO Unit := do
  let line ← h.getLine
  if line.isEmpty then return ()
  if line.trimAscii.toString.isEmpty then loop h else
  for l in C14Driver.step line do
    IO.println l
  loop h

def main : IO Unit := do
  loop (← IO.getStdin)
