/-
C17 — records and regression witnesses for the tree with F10 and F10b repaired.

Record of the old behaviour (findings F10, F10b, both repaired): the cache key used to be the
four counters alone, and `prove_next_layer` compared nothing. The circuits below are the
witness that was replayed against the old code (`corpus/c17/f10_*.json`, `f10b_*.json`: AIRs
`x·x − z` and `x·y − z`; here reduced to the differing constraint on publics `x y z`).
Nothing in this file negates a statement of `P3R.Props.C17` about the current model:

* `counters_not_injective` — a fact about the four counters (why a digest was added);
* `counters_only_key_insufficient`, `constant_digest_insufficient` — the current state machine
  instantiated with a key that does not separate the two circuits uses stale data: the
  assumption `DigestInjOn` of `cache_refines_uncached_digest` cannot be dropped;
* `witness_now_recomputed`, `witness_next_now_refused` — with a digest that separates the two
  structures the replayed histories now recompute / are refused (regression form of the
  repaired findings);
* `witness_satisfies_digest_hypothesis` — non-vacuity of `DigestInjOn` on the witness;
* `params_stale` — observation, unchanged by the repair: params are not part of the key, a hit
  after a change of params proves with the stored params (the proof records its packing and
  verifies).
-/
import P3R.Model.Cache
import P3R.Props.C17

namespace P3R.Witness.C17
open P3R P3R.Cache P3R.C17

/-- `z = x·x` on publics `x y z` (slots 0 1 2): what `connect(mul(x,x), z)` compiles to. -/
def cXX : Circuit Nat :=
  { witnessCount := 3, ops := #[.pub 0 0, .pub 1 1, .pub 2 2, .mul 0 0 2],
    pubRows := #[0, 1, 2], privRows := #[], e2w := #[], rewrite := [] }

/-- `z = x·y`. -/
def cXY : Circuit Nat :=
  { witnessCount := 3, ops := #[.pub 0 0, .pub 1 1, .pub 2 2, .mul 0 1 2],
    pubRows := #[0, 1, 2], privRows := #[], e2w := #[], rewrite := [] }

/-- The four counters do not determine the preprocessed columns. -/
theorem counters_not_injective :
    fingerprint cXX = fingerprint cXY ∧ prepData cXX ≠ prepData cXY := by
  constructor
  · decide
  · decide +kernel

/-- The structures differ (so any collision-free digest separates them). -/
theorem structures_differ : structureOf cXX ≠ structureOf cXY := by decide +kernel

/-- The replayed aggregation history: one cache variable, first `cXX`, then `cXY`. -/
def history : List (Step (Circuit Nat × Nat)) := [.agg (cXX, 0) (some 0), .agg (cXY, 0) (some 0)]

/-- A digest that identifies a structure by its ALU operand lists (enough to separate the
witness circuits; any injective digest would do). -/
def dgOps (st : Structure Nat) : List (Nat × Nat) :=
  st.1.filterMap fun
    | .alu _ a b _ _ _ => some (a, b)
    | _ => none

/-- **Regression form of F10**: with the extended fingerprint the second call misses,
recomputes for its own circuit, and the variable then holds the second circuit. -/
theorem witness_now_recomputed :
    ((run (fun j : Circuit Nat × Nat => fingerprintX dgOps j.1) [] history).2.map fun o =>
        (o.hit, o.used.map fun u =>
          (decide (prepData u.1 = prepData cXX), decide (prepData u.1 = prepData cXY)))) =
      [(false, some (true, false)), (false, some (false, true))] := by
  decide +kernel

/-- **Regression form of F10b**: a preparation built for `cXX` handed to `prove_next_layer` on
`cXY` is refused; one built for `cXY` is used. -/
theorem witness_next_now_refused :
    ((run (fun j : Circuit Nat × Nat => fingerprintX dgOps j.1) []
        [.next (cXY, 0) (some (cXX, 0)), .next (cXY, 0) (some (cXY, 0))]).2.map fun o =>
        (o.hit, o.used.isSome)) = [(false, false), (true, true)] := by
  decide +kernel

/-- `DigestInjOn` holds for `dgOps` on the circuits of the witness history. -/
theorem witness_satisfies_digest_hypothesis :
    DigestInjOn dgOps (slotJobs ([] : Slots (FingerprintX (List (Nat × Nat))) (Circuit Nat × Nat)) ++
      mentioned history) := by
  intro j j' hj hj' h
  simp only [slotJobs, mentioned, history, Step.mentioned, List.map_nil, List.nil_append,
    List.flatMap_cons, List.flatMap_nil, List.append_nil, List.cons_append, List.mem_cons,
    List.not_mem_nil, or_false] at hj hj'
  rcases hj with rfl | rfl <;> rcases hj' with rfl | rfl
  · rfl
  · exact absurd h (by decide +kernel)
  · exact absurd h (by decide +kernel)
  · rfl

/-- Why the counters alone were not enough (record of F10): the *current* state machine with a
key that reads the counters only proves the second call with the first circuit's data. -/
theorem counters_only_key_insufficient :
    ((run (fun j : Circuit Nat × Nat => fingerprint j.1) [] history).2.map fun o =>
        (o.hit, o.used.map fun u =>
          (decide (prepData u.1 = prepData cXX), decide (prepData u.1 = prepData cXY)))) =
      [(false, some (true, false)), (true, some (true, false))] := by
  decide +kernel

/-- Boolean form of `Good` for the concrete preparation data. -/
def goodB (st : Step (Circuit Nat × Nat)) (o : StepOut (Circuit Nat × Nat)) : Bool :=
  match o.used with
  | none => true
  | some u => decide (prepData u.1 = prepData st.job.1)

theorem forall₂_zipWith_all {α β : Type} {R : α → β → Prop} (f : α → β → Bool)
    (hf : ∀ a b, R a b → f a b = true) {l : List α} {m : List β} (h : List.Forall₂ R l m) :
    (List.zipWith f l m).all id = true := by
  induction h with
  | nil => rfl
  | cons hh _ ih => simp [List.zipWith, hf _ _ hh, ih]

/-- The assumption `DigestInjOn` of `cache_refines_uncached_digest` cannot be dropped: with a
digest that collides on the two structures (here: constant), the conclusion fails. -/
theorem constant_digest_insufficient :
    ¬ List.Forall₂ (Good (fun j : Circuit Nat × Nat => prepData j.1)) history
        (run (fun j : Circuit Nat × Nat => fingerprintX (fun _ => ()) j.1) [] history).2 := by
  intro h
  have hall := forall₂_zipWith_all goodB (fun st o hg => by
    unfold Good at hg
    unfold goodB
    cases hu : o.used with
    | none => rfl
    | some u => rw [hu] at hg; simpa using hg) h
  have : (List.zipWith goodB history
      (run (fun j : Circuit Nat × Nat => fingerprintX (fun _ => ()) j.1) [] history).2).all id
      = false := by decide +kernel
  rw [this] at hall
  cases hall

/-- Params are not part of the key: same circuit, changed params, one cache variable — the
second call proves with the params of the first. -/
theorem params_stale :
    (run (fun j : Circuit Nat × Nat => fingerprintX dgOps j.1) []
        [.agg (cXX, 1) (some 0), .agg (cXX, 2) (some 0)]).2.map
        (fun o => (o.hit, o.used.map Prod.snd)) =
      [(false, some 1), (true, some 1)] := by
  decide +kernel

end P3R.Witness.C17

#print axioms P3R.Witness.C17.counters_not_injective
#print axioms P3R.Witness.C17.witness_now_recomputed
#print axioms P3R.Witness.C17.witness_next_now_refused
#print axioms P3R.Witness.C17.witness_satisfies_digest_hypothesis
#print axioms P3R.Witness.C17.counters_only_key_insufficient
#print axioms P3R.Witness.C17.constant_digest_insufficient
#print axioms P3R.Witness.C17.params_stale
