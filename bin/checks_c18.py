"""C18: determinism — (a) Lean: every hash-container iteration on the compile / key-generation path is an
explicit ordering argument and the result is proved order-independent (`compile_order_independent`);
(b) source-site inventory oracle (bin/c18_sites.py): the iteration sites found in the Rust sources must be the
inventoried ones — an unknown site is reported and intensifies (c); (c) repeated in-process builds and separate
processes / thread counts must give identical canonical digests (ops, numbering, preprocessed columns, degrees,
commitment); the decidable hypotheses of (a) are evaluated by the Lean driver on every program of (c);
(d) the order-sensitive sites of the inventory are driven on the real code (`c18-orders`)."""
import json, os, subprocess, sys
from checks import read_lines

PROPERTY = "C18"


def site_oracle(ctx):
    try:
        out = subprocess.run([sys.executable, f"{ctx['root']}/bin/c18_sites.py", "check", "--repo", "/repo",
                              "--inventory", f"{ctx['root']}/design_notes/C18_sites.json"],
                             capture_output=True, text=True, timeout=600)
        return json.loads(out.stdout)
    except Exception as e:  # the oracle never makes the check fail by itself
        return {"error": f"{type(e).__name__}: {e}", "unknown_sites": [], "vanished_sites": [], "line_drift": [],
                "unreviewed_sites": [], "order_sensitive_sites": [], "found": 0, "inventory": 0, "scanned_files": 0}


def determinism_pass(ctx, out, seed, nprog, repeats, procs, corpus, cases_tag=None, label=""):
    """one differential pass: `procs` fresh processes, each rebuilding every program `repeats` times."""
    violations, hist, evals, files = [], {}, 0, []
    for p in range(procs):
        env = {"RAYON_NUM_THREADS": "1"} if p % 3 == 1 else ({"RAYON_NUM_THREADS": "16"} if p % 3 == 2 else None)
        tag = f"{label}p{p}"
        cmd = [ctx["harness"], "determinism", "--seed", str(seed), "--programs", str(nprog), "--repeats", str(repeats),
               "--corpus", corpus, "--out", out, "--tag", tag]
        if cases_tag == tag:
            cmd += ["--cases", "1"]
        if label:
            cmd += ["--verifier-circuit", "0"]
        rc, o = ctx["sh"](cmd, timeout=7200, env=env)
        if rc != 0:
            violations.append({"class": "harness-crash", "what": f"determinism exited {rc}: {o[-300:]}", "replay": {}, "no_input": True})
            continue
        rep = json.load(open(f"{out}/determinism.{tag}.report.json"))
        evals += rep["evaluations"]
        for k, v in rep["hist"].items():
            hist[k] = hist.get(k, 0) + v
        for v in rep["violations"]:
            violations.append({"class": v["class"], "what": f"{v['kind']}: {v.get('first_difference')}", "replay": v["replay"]})
        files.append(read_lines(f"{out}/determinism.{tag}"))
    for p in range(1, len(files)):
        for a, b in zip(files[0], files[p]):
            if a != b:
                violations.append({"class": "cross-process-divergence", "what": f"process 0 and {p} disagree: {a} vs {b}",
                                   "replay": {"id": a.split()[0], "seed": seed, "programs": nprog}})
                break
    return violations, hist, evals, files


def run(ctx):
    tier, seed, work = ctx["tier"], ctx["seed"], ctx["work"]
    nprog, repeats, procs = (400, 4, 3) if tier == "quick" else (20000, 8, 6)
    out = f"{work}/run0"
    os.makedirs(out, exist_ok=True)
    corpus = f"{ctx['root']}/corpus/determinism"

    # (b) source-site inventory oracle ------------------------------------------------------------------
    sites = site_oracle(ctx)
    unknown = sites.get("unknown_sites", []) + sites.get("unreviewed_sites", [])
    drift = sites.get("line_drift", [])
    intensify = bool(unknown or drift or sites.get("vanished_sites") or sites.get("error"))
    if intensify:
        # an un-inventoried (or moved) hash iteration: not a violation by itself, but search harder
        repeats, procs = repeats * 3, procs + 3

    # (c) differential rebuilds -------------------------------------------------------------------------
    violations, hist, evals, files = determinism_pass(ctx, out, seed, nprog, repeats, procs, corpus, cases_tag="p0")
    distinct = len(set(files[0])) if files else 0

    # the decidable hypotheses of `compile_order_independent`, per program, by the Lean driver
    inv = {"programs": 0, "ok": 0, "na": 0, "fail": 0, "candidates": 0, "failing_ids": [],
           # `aDefinedOf`: the elementary hypothesis of compile_order_independent_total_partial (implies fusionInvariantOf)
           "adefined": 0, "adefined_fail_ids": []}
    cases = f"{out}/determinism.p0.cases"
    failing = []
    if os.path.exists(cases):
        with open(cases) as fin:
            rc, o = ctx["sh"]([ctx["driver"]], stdin=fin, timeout=3600)
        answers = [l for l in o.splitlines() if l.startswith("c18inv")]
        progs = json.load(open(f"{out}/determinism.p0.programs.json"))
        inv["programs"] = len(progs)
        if rc != 0 or len(answers) != len(progs):
            violations.append({"class": "driver-crash", "what": f"p3r_driver on the C18 cases: rc={rc}, {len(answers)} answers for {len(progs)} programs",
                               "replay": {}, "no_input": True})
        else:
            for pr, a in zip(progs, answers):
                t = a.split()
                adef = next((x.split("=")[1] for x in t if x.startswith("adef=")), None)
                if adef == "1":
                    inv["adefined"] += 1
                elif adef == "0":
                    # outside the hypothesis of the *total* theorem (the weaker per-program `fusionInvariant` may still hold):
                    # recorded, and rebuilt 200x like a program outside compile_order_independent's hypotheses
                    inv["adefined_fail_ids"].append({"id": pr["id"], "answer": a})
                    if t[1] == "ok":
                        failing.append(pr)
                if t[1] == "ok":
                    inv["ok"] += 1
                    inv["candidates"] += int(t[2])
                elif t[1] == "n/a":
                    inv["na"] += 1
                else:
                    inv["fail"] += 1
                    inv["failing_ids"].append({"id": pr["id"], "answer": a})
                    failing.append(pr)
    if failing:
        # a program outside the theorem's hypotheses (or on which the ordered model itself is order-dependent):
        # intensified differential search on exactly these programs; only a digest difference is a violation
        tmpc = f"{out}/uncovered_corpus"
        os.makedirs(tmpc, exist_ok=True)
        for i, pr in enumerate(failing[:50]):
            json.dump({"program": pr["program"], "id": pr["id"]}, open(f"{tmpc}/u{i:03d}.json", "w"))
        v2, h2, e2, _ = determinism_pass(ctx, out, seed, 0, 200 if tier == "quick" else 1000, 3, tmpc, label="u")
        for v in v2:
            v["what"] = "program outside the hypotheses of compile_order_independent: " + v["what"]
        violations += v2
        evals += e2

    # programs reaching un-inventoried code cannot be singled out statically: the intensified pass above covers all of
    # them; additionally rebuild the corpus (the programs that exercised past order bugs) much more often
    if intensify:
        v3, h3, e3, _ = determinism_pass(ctx, out, seed + 1, nprog // 2, repeats, 2, corpus, label="x")
        violations += v3
        evals += e3

    # (c') thread schedules: the library crates built with rayon on (`--features par`), the same programs plus wide
    # Public / Const tables with aliased inputs, under several pool sizes and repeated fresh processes at 16 threads;
    # every digest (incl. preprocessed columns and commitment) must equal the single-thread one
    par_cov = {"processes": 0, "evaluations": 0}
    rc, o = ctx["build_harness"]("par")
    if rc != 0:
        violations.append({"class": "harness-build", "what": "harness does not build with the library's `parallel` feature", "replay": {"log": o[-2000:]}, "no_input": True})
    else:
        parbin = os.path.join(ctx["harness_dir"], "target-par/debug/p3r-harness")
        pools = [1, 2, 3, 4, 8, 16] + [16] * (4 if tier == "quick" else 30)
        nwide, npar = (6, 40) if tier == "quick" else (24, 600)
        pfiles = []
        for i, t in enumerate(pools):
            tag = f"par{i}"
            cmd = [parbin, "determinism", "--seed", str(seed), "--programs", str(npar), "--wide", str(nwide), "--repeats", "2",
                   "--corpus", corpus, "--out", out, "--tag", tag, "--verifier-circuit", "1" if i < 2 else "0"]
            rc, o = ctx["sh"](cmd, timeout=7200, env={"RAYON_NUM_THREADS": str(t)})
            if rc != 0:
                violations.append({"class": "harness-crash", "what": f"determinism (parallel build, {t} threads) exited {rc}: {o[-300:]}", "replay": {}, "no_input": True})
                continue
            rep = json.load(open(f"{out}/determinism.{tag}.report.json"))
            par_cov["processes"] += 1; par_cov["evaluations"] += rep["evaluations"]; evals += rep["evaluations"]
            for v in rep["violations"]:
                violations.append({"class": v["class"] + ":parallel", "what": f"{v['kind']} (rayon on, {t} threads): {v.get('first_difference')}", "replay": {**v["replay"], "rayon_threads": t}})
            pfiles.append((t, {l.split()[0]: l for l in read_lines(f"{out}/determinism.{tag}")}))
        reported = 0
        for t, fl in pfiles[1:]:
            for pid_, l in fl.items():
                a = pfiles[0][1].get(pid_)
                if a is not None and a != l and reported < 3 and not pid_.startswith("verifier-circuit"):
                    reported += 1
                    prog = None
                    try:
                        prog = next((pr for pr in json.load(open(f"{out}/determinism.p0.programs.json")) if pr["id"] == pid_), None)
                    except Exception:
                        pass
                    violations.append({"class": "thread-pool-divergence",
                                       "what": f"key generation with rayon on: pool size {pfiles[0][0]} and {t} disagree on {pid_}: {a.split()[1]} vs {l.split()[1]}",
                                       "replay": {"id": pid_, "seed": seed, "wide": nwide, "rayon_threads": [pfiles[0][0], t],
                                                  "cmd": f"RAYON_NUM_THREADS={t} harness/target-par/debug/p3r-harness determinism --seed {seed} --programs {npar} --wide {nwide}",
                                                  "program": prog["program"] if prog else None}})
        par_cov["pool_sizes"] = pools

    # (d) the order-sensitive sites on the real code ----------------------------------------------------
    orders = {"evaluations": 0, "observations": []}
    rc, o = ctx["sh"]([ctx["harness"], "c18-orders", "--repeats", "40" if tier == "quick" else "400", "--out", out, "--tag", "p0"], timeout=3600)
    if rc != 0:
        violations.append({"class": "harness-crash", "what": f"c18-orders exited {rc}: {o[-300:]}", "replay": {}, "no_input": True})
    else:
        rep = json.load(open(f"{out}/c18orders.p0.report.json"))
        evals += rep["evaluations"]
        orders = {"evaluations": rep["evaluations"],
                  "observations": [{"site": ob.get("site"), "case": ob.get("case"), "distinct_outcomes": ob.get("distinct_outcomes"),
                                    "outcomes": ob.get("outcomes"), "skipped": ob.get("skipped"), "meaning": ob.get("meaning")}
                                   for ob in rep["observations"]]}
        for v in rep["violations"]:
            violations.append({"class": v["class"], "what": f"{v['kind']}: {v.get('first_difference')}", "replay": v["replay"]})

    cov = {"evaluations": evals, "distinct_nontrivial": distinct,
           "rule": f"each generated program built {repeats}x in-process in each of {procs} processes (RAYON_NUM_THREADS default/1/16); "
                   "canonical dump = op list, witness numbering, rewrite map, preprocessed role columns and multiplicities, and for every "
                   "10th program AIR degrees + preprocessed commitment; distinct = distinct program digests; the Lean driver evaluates "
                   "fusionInvariant (hypothesis of compile_order_independent) and the reversed-order model on every program",
           "samples": files[0][:3] if files else [], "input_distribution": hist,
           "parallel_build": {**par_cov, "rule": "harness built with p3-circuit-prover/parallel (rayon on in the library crates): generated programs + wide Public/Const tables "
                              "(64..1024 public inputs, aliased by connect) digested incl. commitment under each pool size, every digest equal to the single-thread one"},
           "hash_iteration_sites": {"scanned_files": sites.get("scanned_files"), "found": sites.get("found"), "inventory": sites.get("inventory"),
                                    "order_sensitive_sites": sites.get("order_sensitive_sites"), "oracle_error": sites.get("error")},
           "unmodelled_hash_iteration_sites": unknown,
           "vanished_hash_iteration_sites": sites.get("vanished_sites", []),
           "hash_iteration_site_line_drift": drift,
           "intensified": intensify,
           "theorem_hypotheses_per_program": inv,
           "order_sensitive_sites_on_real_code": orders}
    return violations, cov


CHECK = {
    "lean_modules": ["P3R.Props.C18", "P3R.Props.C18Order", "P3R.Witness.C18Order", "P3R.Props.C18Lower", "P3R.Props.C18Dedup", "P3R.Props.C18Reach", "P3R.Props.C18Total", "P3R.Witness.C18Total"],
    "theorems": ["P3R.C18.lookup_perm_nodup", "P3R.C18.filterRound_order_independent",
                 # generic shapes
                 "P3R.C18.firstErr_isSome_perm", "P3R.C18.firstErr_perm_of_unique", "P3R.C18.extendMap_lookup_perm",
                 # union-find with path compression, backfill
                 "P3R.C18.Dsu.setParent_root", "P3R.C18.Dsu.compressPath_root", "P3R.C18.Dsu.find_spec",
                 "P3R.C18.backfillDsu_spec", "P3R.C18.backfillDsu_order_independent",
                 "P3R.C18.backfillStep_comm", "P3R.C18.backfill_perm", "P3R.C18.lowerOrd_eq_lower",
                 # fusion
                 "P3R.C18.fusedPos_lookup_eq", "P3R.C18.filterRoundOrd_perm", "P3R.C18.filterValidOrd_perm",
                 "P3R.C18.apply_perm", "P3R.C18.fuseOrd_eq_fuse", "P3R.C18.optimizeOrd_eq",
                 # build_with_public_mapping
                 "P3R.C18.e2wCollect_perm", "P3R.C18.e2wPairs_nodup", "P3R.C18.genOrder_perm", "P3R.C18.canonMap_perm",
                 "P3R.C18.tagTransfer_spec", "P3R.C18.tagTransfer_perm",
                 # key generation, runner
                 "P3R.C18.airLoop_perm", "P3R.C18.sortedEntries_perm", "P3R.C18.airLoop_sorted", "P3R.C18.airLoop_length_perm", "P3R.C18.phase1_perm", "P3R.C18.phase2_lookup_perm",
                 "P3R.C18.rewritePass_perm",
                 # combined
                 "P3R.C18.compile_order_independent", "P3R.C18.compileOrd_core",
                 # C18Total: expr_to_widx round trip; the fusion invariant derived for every op list from def-before-use of
                 # first add operands; the ordered build equals the fixed-order build
                 "P3R.C18.e2wCollect_pairs", "P3R.C18.e2wCollect_ord", "P3R.C18.finalE2w_eq",
                 "P3R.C18.candidates_addIdx_nodup", "P3R.C18.cand_eq_of_mulIdx", "P3R.C18.candidates_mulIdx_nodup",
                 "P3R.C18.defStep_shape", "P3R.C18.scan_inv", "P3R.C18.later_shared_out", "P3R.C18.no_shared_out",
                 "P3R.C18.candidates_out_nodup", "P3R.C18.fusionInvariant_of_aDefined", "P3R.C18.fusionInvariantOf_of_aDefinedOf",
                 "P3R.C18.compileOrd_eq_fixed", "P3R.C18.compile_order_independent_total_partial", "P3R.C18.compileOrd_core_e2w",
                 # the lowering names every first add operand before it reads it; dedup keeps that; the total theorem
                 "P3R.C18L.aDefined_of_ADef", "P3R.C18L.ADef_append", "P3R.C18L.prealloc_E", "P3R.C18L.emitNpCall_E", "P3R.C18L.emit_E",
                 "P3R.C18L.lower_ADef", "P3R.C18L.lower_aDefined",
                 "P3R.C18L.keyReads", "P3R.C18L.step_D", "P3R.C18L.dedup_ADef", "P3R.C18L.lower_aDefinedOf",
                 "P3R.C18.compile_order_independent_total", "P3R.C18.fusionInvariantOf_lower",
                 "P3R.C18L.PInv.frame", "P3R.C18L.PInv.allocPrivate", "P3R.C18L.Reachable.privOk", "P3R.C18.compile_order_independent_reachable",
                 "P3R.Witness.C18Total.prog_reachable", "P3R.Witness.C18Total.reachable_applies",
                 "P3R.Witness.C18Total.prog_privOk", "P3R.Witness.C18Total.total_applies'", "P3R.Witness.C18Total.privOk_needed",
                 "P3R.Witness.C18Total.shared_out_reachable", "P3R.Witness.C18Total.shared_out_invariant",
                 "P3R.Witness.C18Total.useBeforeDef_shared_out", "P3R.Witness.C18Total.subResult_reachable",
                 "P3R.Witness.C18Total.total_applies", "P3R.Witness.C18Total.total_builds",
                 "P3R.Witness.C18Total.duplicate_tags_order_dependent",
                 # witnesses: non-vacuity and necessity of the hypotheses
                 "P3R.Witness.C18Order.prog_hyps", "P3R.Witness.C18Order.prog_order_independent", "P3R.Witness.C18Order.prog_builds",
                 "P3R.Witness.C18Order.tag_error_order_dependent", "P3R.Witness.C18Order.airLoop_order_dependent",
                 "P3R.Witness.C18Order.airLoop_for_configs", "P3R.Witness.C18Order.fusedPos_needs_distinct_outs",
                 "P3R.Witness.C18Order.find_compresses", "P3R.Witness.C18Order.find_roots_unchanged"],
    "run": run,
    "trusted_base": ["process / thread schedules and hash seeds are exercised (rayon on and off, pool sizes 1..16, repeated fresh processes), not modelled (partial by nature)",
                     "the site inventory (design_notes/C18_sites.json) is hand-classified; bin/c18_sites.py (a name-driven scanner, no rustc) "
                     "re-derives the site set on every run and reports differences",
                     "the ordered models (Model/Order.lean) are tied to the code through the fixed-order models they are proved equal to "
                     "(lowerOrd = lower, fuseOrd = fuse), which C02/C09 compare with the real build line by line"],
    "assumptions": ["equality with the Lean model's own output is checked by C02/C09 on the same generator",
                    "fusionInvariant (distinct candidate outputs / mul positions) is a hypothesis of compile_order_independent; compile_order_independent_total "
                    "derives it for every builder state with privOk (private-input nodes at distinct positions, what alloc_private_input constructs; shown necessary): "
                    "lower_ADef (every first add operand is a private row or named by an earlier op) -> dedup_ADef -> fusionInvariant_of_aDefined. The driver still "
                    "evaluates fusionInvariant and aDefined per program (coverage fields ok / adefined) as a model-vs-theorem cross-check",
                    "AIR-builder loop: order-independent only when every builder builds at most one entry (airLoop_perm); the generic Poseidon builders do not satisfy it with two tables"],
}

MANIFEST_ENTRY = {
    "property_id": "C18", "quick_cmd": "bin/check C18 --tier quick", "thorough_cmd": "bin/check C18 --tier thorough",
    "evidence_file": "evidence/C18.json", "replay_cmd_template": "bin/check C18 --replay {path}", "engine": "lean-models",
    "technique": "Lean 4: every hash-container iteration of the compile / key-generation path modelled as an explicit ordering argument and proved "
                 "order-independent (compile_order_independent over a record of all orderings; union-find with path compression; fusion fixpoint; "
                 "AIR-builder loop) + source-site inventory oracle + repeated-build digest comparison across processes + the order-sensitive "
                 "sites driven on the real code",
    "level_claimed": {"category": "proof", "text": "for every builder program and any two assignments of iteration orders to all iterated hash containers "
                      "(in_connect, the fusion pass's valid set, expr_to_widx, trace generators, tags) the compile model returns the same circuit "
                      "(compile_order_independent_total: equal to the fixed-order build compileFixed incl. expr_to_widx; hypotheses: privOk of the builder state, distinct tags, "
                      "at most one unmapped tag — each shown necessary; the fusion invariant is derived, no longer a per-program hypothesis); "
                      "ConnectDsu::find with path compression is proved observationally pure; the AIR-builder loop is proved order-independent when each "
                      "builder builds at most one table and shown order-dependent otherwise (reproduced on the real code); determinism of the real build under "
                      "fresh hash seeds, processes and thread counts is exercised by digest comparison; a hash iteration that is not in the inventory is reported "
                      "and intensifies the search.", "design_ref": "4/C18"},
    "level_note": "schedules are exercised not proved; CommonData / commitment (p3-batch-stark) is exercised, not modelled; the inventory scanner is heuristic",
}
