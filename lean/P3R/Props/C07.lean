/-
C07 — in-circuit FRI verification agrees with native FRI verification.

Property theorems over the models `P3R.Model.FriNative` (p3-fri 0.6.3 `verify_fri`,
`verify_query`, `open_input`, `fold_row`), `P3R.Model.FriCircuit` (value semantics of the
circuit emitted by `verify_fri_circuit`) and `P3R.Model.FriShape` (shape validation). Every
theorem is for an arbitrary field `K` and quantifies over all sizes (no bound on the number of
phases, bits, columns, matrices or the arity).

Full-strength statement (kept visible; *false of the current code*, see `P3R/Witness/C07.lean`):

    ∀ parameters, statement, proof, challenges:
      circuitOutcome env p α βs batches pf = .ok  ↔  verifyFri env p α βs batches pf = .ok ()

What is proved instead, piece by piece (each piece is one mechanism of the property text):

* shape validation       `fri_shape_iff` (under hypotheses H1–H7, each shown necessary)
* query indices          `selChain_eq_pow`, `reverseBits_eq_bitsToNat`, `query_index_eq`,
                         `query_index_prefix_eq`, `expPow2_eq`
* row reconstruction     `reconstruct_arity2_eq`, `reconstruct_arity4_eq`, `reconstruct_arity8_eq`
* folding                `fold_arity2_eq`, `fold_arity4_eq` (= native Lagrange formula incl. its early
                         return; arity 4 with a symbolic primitive 4th root of unity),
                         `fold_arity2_path_eq`, `fold_general_eq` (every arity: sequential folds of
                         the evaluations of a polynomial of degree < 2^k give its value at β)
* reduced openings       `horner_cols_eq`, `native_cols_eq`, `open_input_fast_path_eq`
* final polynomial       `final_poly_eq`

Not proved (stated in design_notes/C07.md): equality of the general-arity fold with native's
*barycentric formula* for arity ≥ 8 (native side of `fold_general_eq`), the roll-in schedule as a
list-level theorem, and the composition into one `fri_agree` statement; these rest on the
correspondence runs.
-/
import P3R.Lemmas.FriFold
import P3R.Model.FriShape

namespace P3R.C07
open P3R.Fri

variable {K : Type} [Field K]

/-! ### Folding -/

/-- Arity 2: the circuit's `arity2_fold_at_point` equals native `lagrange_interpolate_at` on the
points `(x₀, −x₀)` for *every* `β`, including native's early return when `β` is one of the points. -/
theorem fold_arity2_eq [DecidableEq K] (e0 e1 β x0 : K) (hx : x0 ≠ 0) (h2 : (2 : K) ≠ 0) :
    lagrangeAt [x0, -x0] [e0, e1] β = fold2 e0 e1 β x0 := by
  have h11 : (1 : K) + 1 ≠ 0 := by rwa [one_add_one_eq_two]
  rw [fold2_eq _ _ _ _ hx h2]
  unfold lagrangeAt
  simp only [List.length_cons, List.length_nil, List.zip_cons_cons, List.zip_nil_right]
  by_cases h1 : β - x0 = 0
  · have : β = x0 := sub_eq_zero.mp h1
    subst this
    simp [List.find?]
    field_simp
    ring
  · by_cases h3 : β - -x0 = 0
    · have : β = -x0 := sub_eq_zero.mp h3
      subst this
      simp [List.find?, h1]
      field_simp
      ring
    · simp only [List.find?, h1, h3, decide_false]
      simp only [Nat.reduceAdd, OfNat.ofNat_ne_zero, ↓reduceIte, List.headD_cons, List.map_cons,
        List.map_nil, prodList, List.foldl_cons, List.foldl_nil, ofNat, npow]
      have h3' : β + x0 ≠ 0 := by simpa using h3
      simp only [sub_neg_eq_add, zero_add, one_add_one_eq_two, one_mul, mul_one]
      field_simp
      ring

/-- The dedicated `log_arity = 1` branch of `fold_one_phase` (which never materialises the row)
equals `arity2_fold_at_point` on the reconstructed row, for a boolean index bit. -/
theorem fold_arity2_path_eq (folded sib β x0 : K) (b : Bool) :
    foldArity2Path folded sib (toK b) β x0 =
      (match reconstructEvals folded [sib] [toK b] with
       | [e0, e1] => fold2 e0 e1 β x0
       | _ => 0) := by
  cases b <;> simp [foldArity2Path, reconstructEvals, fold2, sel, toK]

theorem lag4_generic (e0 e1 e2 e3 β s t ws : K) (hs : s ≠ 0) (ht : t ≠ 0) (h2 : (2 : K) ≠ 0)
    (h1 : β - s ≠ 0) (h3 : β + s ≠ 0) (h4 : β - t ≠ 0) (h5 : β + t ≠ 0) :
    (0 + e0 * (s * ws) * (β - s)⁻¹ + e1 * (-s * ws) * (β + s)⁻¹ + e2 * (t * ws) * (β - t)⁻¹ +
        e3 * (-t * ws) * (β + t)⁻¹) * ((β - s) * ((β + s) * ((β - t) * ((β + t) * 1)))) =
      ws * ((β * β - t * t) * (2 * (s * s)) * ((e0 + e1) / 2 + β * ((e0 - e1) / (2 * s))) +
            (β * β - s * s) * (2 * (t * t)) * ((e2 + e3) / 2 + β * ((e2 - e3) / (2 * t)))) := by
  field_simp
  ring

theorem brPoints2 (s ω : K) (hω : ω * ω = -1) : brPoints s ω 2 = [s, -s, s * ω, -(s * ω)] := by
  simp [brPoints, reverseBitsLen, npow, List.range_succ, hω]

theorem seqFold2 (e0 e1 e2 e3 β s ω : K) :
    seqFold 2 [e0, e1, e2, e3] β s ω = fold2 (fold2 e0 e1 β s) (fold2 e2 e3 β (s * ω)) (β * β) (s * s) := by
  simp [seqFold, foldStep, reverseBitsLen, npow, List.range_succ]

/-- Arity 4: the circuit's unrolled two-level fold equals native `lagrange_interpolate_at` on the
bit-reversed coset `s·⟨ω⟩` for a symbolic primitive 4th root of unity (`ω² = −1`) and *every* `β`,
including native's early return when `β` hits one of the four points. -/
theorem fold_arity4_eq [DecidableEq K] (e0 e1 e2 e3 β s ω : K) (hs : s ≠ 0) (h2 : (2 : K) ≠ 0)
    (hω : ω * ω = -1) :
    lagrangeAt (brPoints s ω 2) [e0, e1, e2, e3] β = seqFold 2 [e0, e1, e2, e3] β s ω := by
  have hω0 : ω ≠ 0 := by
    intro h; rw [h] at hω; simp at hω
  rw [brPoints2 s ω hω, seqFold2]
  generalize ht' : s * ω = t
  have ht0 : t ≠ 0 := by rw [← ht']; exact mul_ne_zero hs hω0
  have htt : t * t = -(s * s) := by rw [← ht']; linear_combination (s * s) * hω
  have hss : s * s ≠ 0 := mul_ne_zero hs hs
  have h4 : (4 : K) ≠ 0 := by
    have : (4 : K) = 2 * 2 := by norm_num
    rw [this]; exact mul_ne_zero h2 h2
  unfold lagrangeAt
  simp only [List.length_cons, List.length_nil, List.zip_cons_cons, List.zip_nil_right]
  by_cases c1 : β - s = 0
  · have : β = s := sub_eq_zero.mp c1
    subst this
    simp [List.find?]
    rw [fold2_eq _ _ _ _ hs h2, fold2_eq _ _ _ _ ht0 h2, fold2_eq _ _ _ _ hss h2]
    field_simp
    ring
  by_cases c2 : β - -s = 0
  · have : β = -s := sub_eq_zero.mp c2
    subst this
    simp [List.find?, c1]
    rw [fold2_eq _ _ _ _ hs h2, fold2_eq _ _ _ _ ht0 h2, fold2_eq _ _ _ _ hss h2]
    field_simp
    ring
  by_cases c3 : β - t = 0
  · have hβ : β = t := sub_eq_zero.mp c3
    simp only [List.find?, c1, c2, c3, decide_false, decide_true, Nat.reduceAdd, OfNat.ofNat_ne_zero, ↓reduceIte]
    rw [hβ, fold2_eq _ _ _ _ hs h2, fold2_eq _ _ _ _ ht0 h2, fold2_eq _ _ _ _ hss h2, htt]
    field_simp
    ring
  by_cases c4 : β - -t = 0
  · have hβ : β = -t := sub_eq_zero.mp c4
    simp only [List.find?, c1, c2, c3, c4, decide_false, decide_true, Nat.reduceAdd, OfNat.ofNat_ne_zero, ↓reduceIte]
    have hnn : -t * -t = -(s * s) := by rw [neg_mul_neg]; exact htt
    rw [hβ, fold2_eq _ _ _ _ hs h2, fold2_eq _ _ _ _ ht0 h2, fold2_eq _ _ _ _ hss h2, hnn]
    field_simp
    ring
  · simp only [List.find?, c1, c2, c3, c4, decide_false]
    simp only [Nat.reduceAdd, OfNat.ofNat_ne_zero, ↓reduceIte, List.headD_cons, List.map_cons,
      List.map_nil, prodList, List.foldl_cons, List.foldl_nil, sub_neg_eq_add]
    rw [sub_neg_eq_add] at c2 c4
    rw [lag4_generic e0 e1 e2 e3 β s t _ hs ht0 h2 c1 c2 c3 c4, htt,
      fold2_eq _ _ _ _ hs h2, fold2_eq _ _ _ _ ht0 h2, fold2_eq _ _ _ _ hss h2]
    simp only [ofNat, npow, zero_add, one_mul]
    have h1111 : (1 : K) + 1 + 1 + 1 = 4 := by norm_num
    rw [h1111]
    field_simp
    ring

/-- **Every arity.** See `seqFold_evals`. `brPoints s ω k` are native `fold_row`'s points
(`xs`, bit-reversed), `seqFold` is the circuit's fold for `log_arity = k`. -/
theorem fold_general_eq (k : Nat) (a : List K) (β s ω : K) (hlen : a.length ≤ 2 ^ k) (hs : s ≠ 0)
    (h2 : (2 : K) ≠ 0) (hω : k = 0 ∨ ω ^ (2 ^ (k - 1)) = -1) :
    seqFold k ((brPoints s ω k).map (evalPoly a)) β s ω = evalPoly a β :=
  seqFold_evals k a β s ω hlen hs h2 hω

/-! ### Row reconstruction -/

/-- Arity 2: `[select(b,s,f), select(b,f,s)]` is native's placement. -/
theorem reconstruct_arity2_eq (folded s0 : K) (b0 : Bool) :
    reconstructEvals folded [s0] [toK b0] = placeEvals folded [s0] b0.toNat 2 := by
  cases b0 <;> simp [reconstructEvals, placeEvals, sel, toK]

/-- Arity 4 closed form = native placement, for every boolean bit pair. -/
theorem reconstruct_arity4_eq (folded s0 s1 s2 : K) (b0 b1 : Bool) :
    reconstructEvals folded [s0, s1, s2] [toK b0, toK b1] =
      placeEvals folded [s0, s1, s2] (b0.toNat + 2 * b1.toNat) 4 := by
  cases b0 <;> cases b1 <;> simp [reconstructEvals, placeEvals, toK]

/-- Arity 8 closed form (`e_j = h_j·folded + s_j·Σ_{k>j}h_k + s_{j−1}·Σ_{k<j}h_k`) = native
placement, for every boolean bit triple. -/
theorem reconstruct_arity8_eq (folded s0 s1 s2 s3 s4 s5 s6 : K) (b0 b1 b2 : Bool) :
    reconstructEvals folded [s0, s1, s2, s3, s4, s5, s6] [toK b0, toK b1, toK b2] =
      placeEvals folded [s0, s1, s2, s3, s4, s5, s6] (b0.toNat + 2 * b1.toNat + 4 * b2.toNat) 8 := by
  cases b0 <;> cases b1 <;> cases b2 <;>
    simp [reconstructEvals, placeEvals, oneHot, toK, List.range_succ, List.zipIdx]

/-! ### Final polynomial -/

theorem hornerFold_eq (x : K) (cs : List K) :
    cs.reverse.foldl (fun acc c => hornerStep acc x c 0) 0 = evalPoly cs x := by
  induction cs with
  | nil => simp [evalPoly]
  | cons c cs ih =>
    simp only [List.reverse_cons, List.foldl_append, List.foldl_cons, List.foldl_nil, ih, evalPoly]
    simp only [hornerStep]
    ring

/-- `evaluate_polynomial` (with its length-1 shortcut, `HornerAcc` steps with `p_at_x = 0`)
equals native `final_poly.iter().horner(x)`. -/
theorem final_poly_eq (coeffs : List K) (x : K) : evalPolyCircuit coeffs x = evalPoly coeffs x := by
  unfold evalPolyCircuit
  split
  · simp [evalPoly]
  · exact hornerFold_eq x coeffs


/-! ### Reduced openings -/

/-- `Σᵢ αⁱ·(p(z)ᵢ − p(x)ᵢ)` over the zipped columns of one (matrix, point). -/
def wsum (α : K) : List (K × K) → K
  | [] => 0
  | c :: l => (c.2 - c.1) + α * wsum α l

theorem hornerPairs_eq (α inner : K) (l : List (K × K)) :
    l.reverse.foldl (fun acc c => hornerStep acc α c.2 c.1) inner = inner * α ^ l.length + wsum α l := by
  induction l with
  | nil => simp [wsum]
  | cons c l ih =>
    simp only [List.reverse_cons, List.foldl_append, List.foldl_cons, List.foldl_nil, ih, wsum,
      List.length_cons]
    simp only [hornerStep]
    ring

/-- The circuit's reverse Horner chain of `HornerAcc` steps over the columns of a matrix,
started from `inner`, is `inner·αⁿ + Σᵢ αⁱ (p(z)ᵢ − p(x)ᵢ)`. -/
theorem horner_cols_eq (α inner : K) (pxs pzs : List K) :
    hornerCols α inner pxs pzs = inner * α ^ (pxs.zip pzs).length + wsum α (pxs.zip pzs) :=
  hornerPairs_eq α inner (pxs.zip pzs)

/-- Native accumulation over the columns of one (matrix, point). -/
theorem native_cols_eq (α q : K) (pxs pzs : List K) (ap ro : K) :
    accumCols α q pxs pzs (ap, ro) =
      (ap * α ^ (pxs.zip pzs).length, ro + ap * q * wsum α (pxs.zip pzs)) := by
  induction pxs generalizing pzs ap ro with
  | nil => simp [accumCols, wsum]
  | cons px pxs ih =>
    cases pzs with
    | nil => simp [accumCols, wsum]
    | cons pz pzs =>
      simp only [accumCols, ih, List.zip_cons_cons, List.length_cons, wsum, Prod.mk.injEq]
      constructor <;> ring

/-- Inner value of the shared-opening-point fast path: one Horner chain across all matrices of a
height group (last matrix first). -/
def fastInner (α : K) (ms : List (List K × List K)) : K :=
  ms.reverse.foldl (fun inner m => hornerCols α inner m.1 m.2) 0

def totalCols (ms : List (List K × List K)) : Nat := (ms.map fun m => (m.1.zip m.2).length).foldl (· + ·) 0

theorem fastInner_cons (α : K) (m : List K × List K) (ms : List (List K × List K)) :
    fastInner α (m :: ms) = wsum α (m.1.zip m.2) + α ^ (m.1.zip m.2).length * fastInner α ms := by
  simp only [fastInner, List.reverse_cons, List.foldl_append, List.foldl_cons, List.foldl_nil,
    horner_cols_eq]
  ring

theorem foldl_add_shift (l : List Nat) (a : Nat) : l.foldl (· + ·) a = a + l.foldl (· + ·) 0 := by
  induction l generalizing a with
  | nil => simp
  | cons x l ih => simp only [List.foldl_cons]; rw [ih, ih (0 + x)]; omega

/-- **Shared-opening-point fast path.** For a height group whose matrices all open at the same
point (one `1/(z−x)`), the single update of the fast path
`(αᵖ, ro) ↦ (αᵖ·α^N, (αᵖ·inv)·inner + ro)` equals (a) the per-matrix fallback updates of the
circuit and (b) native's column-by-column accumulation over the same matrices in the same order,
from every starting state — for any number of matrices and any widths (width 0 included). -/
theorem open_input_fast_path_eq (α inv : K) (ms : List (List K × List K)) (ap ro : K) :
    (ms.foldl (fun (st : K × K) m => (st.1 * α ^ (m.1.zip m.2).length,
        st.2 + (st.1 * hornerCols α 0 m.1 m.2) * inv)) (ap, ro)
      = (ap * α ^ totalCols ms, (ap * inv) * fastInner α ms + ro)) ∧
    (ms.foldl (fun (st : K × K) m => accumCols α inv m.1 m.2 st) (ap, ro)
      = (ap * α ^ totalCols ms, (ap * inv) * fastInner α ms + ro)) := by
  induction ms generalizing ap ro with
  | nil => simp [totalCols, fastInner]
  | cons m ms ih =>
    have ht : totalCols (m :: ms) = (m.1.zip m.2).length + totalCols ms := by
      simp only [totalCols, List.map_cons, List.foldl_cons]
      rw [foldl_add_shift]; omega
    constructor
    · rw [List.foldl_cons, (ih _ _).1, ht, fastInner_cons]
      simp only [horner_cols_eq, Prod.mk.injEq]
      constructor <;> ring
    · rw [List.foldl_cons, native_cols_eq, (ih _ _).2, ht, fastInner_cons]
      simp only [Prod.mk.injEq]
      constructor <;> ring

/-! ### Shape validation -/

/-- **Shape validation.** The circuit accepts exactly the shapes the native verifier accepts,
*provided*: (H1) the proof has the verifier's number of queries — the circuit has no such
parameter; (H2) the schedule's log-arities are at most `max_log_arity` — the circuit has no upper
bound (the lower bound `1 ≤ log_arity` is checked by both since fixes/C07-2); (H3) every matrix has an opening point; (H4) every matrix height is the
maximum or one reached by a fold phase — otherwise the circuit constrains that reduced opening
to zero where native rejects; (H5) one beta per commitment; (H6) the height bound is the field's
two-adicity (the circuit checks 31 bits); (H7) there is at least one fold phase — the circuit
rejects zero-phase proofs that native accepts. Each of H1, H2, H4, H7 is necessary:
`P3R.C07.Witness.*`, and the corresponding inputs are replayed on the real code. -/
theorem fri_shape_iff (sv : ShapeVec)
    (H1 : sv.queries.length = sv.p.numQueries)
    (H2 : ∀ la ∈ sv.firstArities, la ≤ sv.p.maxLogArity)
    (H3 : ∀ b ∈ sv.batches, ∀ m ∈ b, m.2 ≠ [])
    (H4 : ∀ h ∈ sv.heights, h = sv.logMax ∨ h ∈ sv.foldedHeights)
    (H5 : sv.numBetas = sv.numCommits)
    (H6 : sv.twoAdicity ≤ 31 ∧ sv.logMax ≤ sv.twoAdicity)
    (H7 : sv.numCommits ≠ 0) :
    CircuitShapeOk sv ↔ NativeShapeOk sv := by
  constructor
  · rintro ⟨_, _, c3, _, cpos, c5, _, c7, c8, c9, c10, c11⟩
    refine ⟨?_, ?_, ?_, ?_, H6.2, c10, c11, ?_, c8, H1, c9, H3, ?_, H4⟩
    · intro h
      rw [h] at H1
      exact c5 (List.eq_nil_of_length_eq_zero H1)
    · intro q hq; rw [(c7 q hq).1, H5]
    · intro q hq la hla; rw [(c7 q hq).2.1] at hla; exact ⟨cpos la hla, H2 la hla⟩
    · intro q hq; exact (c7 q hq).2.1
    · rw [← c3, H5]
    · intro q hq; exact (c7 q hq).2.2
  · rintro ⟨n1, n2, n3, n4, _, n6, n7, n8, n9, n10, n11, _, n13, _⟩
    have hne : sv.queries ≠ [] := by
      intro h
      rw [h] at n10
      exact n1 n10.symm
    obtain ⟨q0, rest, hq⟩ := List.exists_cons_of_ne_nil hne
    have hfa : sv.firstArities = q0.arities := by simp [ShapeVec.firstArities, hq]
    have hq0 : q0 ∈ sv.queries := by rw [hq]; exact List.mem_cons_self
    refine ⟨le_trans H6.2 H6.1, H5, by rw [H5, n8], ?_, ?_, hne, by rw [H5]; exact H7, ?_, n9, n11, n6, n7⟩
    · rw [hfa, H5]
      exact n2 q0 hq0
    · intro la hla
      rw [hfa] at hla
      exact (n3 q0 hq0 la hla).1
    · intro q hq
      exact ⟨by rw [H5]; exact n2 q hq, n4 q hq, n13 q hq⟩

end P3R.C07
