//! C06 — sampled challenges are bound to the entire transcript.
//!
//! For generated challenger histories (observe / sample) and the configurations
//! BabyBear D=4 (recompose table on), BabyBear D=4 (recompose table off: ALU chains) and
//! BabyBear D=1 (compact in-table capacity chaining) this harness
//!   1. builds the circuit with the real `CircuitChallenger`, runs it honestly;
//!   2. extracts the bus-role *shape* of the emitted circuit (which permutation limbs are
//!      read from / exposed on the witness bus, hint and recompose rows) from `circuit.ops`;
//!   3. deviates values that are not fixed by the verifier (non-exposed permutation outputs,
//!      recompose outputs, decomposition-hint outputs, in-table capacity cells, exposed
//!      outputs as a control), re-executes consistently downstream with the real executors,
//!      rebuilds `Traces` and calls the real `prove_all_tables` + `verify_all_tables`
//!      (Poseidon2 and recompose table provers registered);
//!   4. judges every accepted proof by the oracle "every sampled slot's value equals the
//!      native `DuplexChallenger` challenge for the values in the observed slots";
//!   5. writes case lines for the Lean driver (`p3r_driver_c06`), which must reproduce the
//!      shape from its own emission model, the accept verdict from its value-level
//!      acceptance conditions and the bound verdict from its native model.

use std::collections::{BTreeMap, HashMap};
use std::panic::{AssertUnwindSafe, catch_unwind};

use p3_baby_bear::{BabyBear, default_babybear_poseidon2_16};
use p3_batch_stark::ProverData;
use p3_challenger::{CanObserve, CanSample, DuplexChallenger};
use p3_circuit::ops::recompose::RecomposeTrace;
use p3_circuit::ops::{
    ExecutionContext, NpoTypeId, Op, OpStateMap, Poseidon2Config, Poseidon2Trace, generate_poseidon2_trace,
    generate_recompose_trace,
};
use p3_circuit::tables::{AluTrace, ConstTrace, PublicTrace, WitnessTrace};
use p3_circuit::{AluOpKind, Circuit, CircuitBuilder, ExprId, Traces, WitnessId};
use p3_circuit_prover::batch_stark_prover::{poseidon2_air_builders, recompose_air_builders};
use p3_circuit_prover::common::{CircuitTableAir, NpoAirBuilder, NpoPreprocessor, get_airs_and_degrees_with_prep};
use p3_circuit_prover::field_params::ExtractBinomialW;
use p3_circuit_prover::config::{self, BabyBearConfig};
use p3_circuit_prover::{
    BatchStarkProver, CircuitProverData, ConstraintProfile, Poseidon2Preprocessor, RecomposePreprocessor, TablePacking,
};
use p3_field::extension::BinomialExtensionField;
use p3_field::{BasedVectorSpace, Field, PrimeCharacteristicRing, PrimeField64};
use p3_poseidon2_circuit_air::{BabyBearD1Width16, BabyBearD4Width16};
use p3_recursion::challenger::CircuitChallenger;
use p3_recursion::traits::RecursiveChallenger;
use p3_symmetric::Permutation;
use serde_json::{Value, json};

use crate::rng::Rng;

type F = BabyBear;
type E4 = BinomialExtensionField<F, 4>;
const WIDTH: usize = 16;
const RATE: usize = 8;

#[derive(Clone, Copy, Debug, PartialEq, Eq)]
pub enum Cfg {
    D4Npo,
    D4Alu,
    D1,
}

impl Cfg {
    fn name(self) -> &'static str {
        match self {
            Cfg::D4Npo => "d4npo",
            Cfg::D4Alu => "d4alu",
            Cfg::D1 => "d1",
        }
    }
    fn parse(s: &str) -> Option<Self> {
        Some(match s {
            "d4npo" => Cfg::D4Npo,
            "d4alu" => Cfg::D4Alu,
            "d1" => Cfg::D1,
            _ => return None,
        })
    }
    fn d(self) -> usize {
        if self == Cfg::D1 { 1 } else { 4 }
    }
}

/// History op: observe the next public input, or sample.
#[derive(Clone, Copy, Debug, PartialEq, Eq)]
pub enum H {
    Obs,
    Smp,
}

fn hist_str(h: &[H]) -> String {
    h.iter().map(|x| if *x == H::Obs { 'o' } else { 's' }).collect()
}
fn hist_parse(s: &str) -> Vec<H> {
    s.chars().filter_map(|c| match c { 'o' => Some(H::Obs), 's' => Some(H::Smp), _ => None }).collect()
}

// ------------------------------------------------------------------------------------------
// Field plumbing shared by the D=1 (EF = F) and D=4 circuits
// ------------------------------------------------------------------------------------------

pub trait Ckt: Field + BasedVectorSpace<F> + p3_field::ExtensionField<F> + ExtractBinomialW<F> + Send + Sync + 'static {
    const DD: usize;
    fn limbs(&self) -> Vec<u64> {
        self.as_basis_coefficients_slice().iter().map(|c| c.as_canonical_u64()).collect()
    }
    fn from_limbs(l: &[u64]) -> Self {
        let v: Vec<F> = l.iter().map(|x| F::from_u64(*x)).collect();
        Self::from_basis_coefficients_slice(&v).unwrap()
    }
    fn emb(x: F) -> Self {
        Self::from(x)
    }
}
impl Ckt for F {
    const DD: usize = 1;
}
impl Ckt for E4 {
    const DD: usize = 4;
}

pub struct Built<EF: Ckt> {
    pub circuit: Circuit<EF>,
    pub obs_w: Vec<u32>,
    pub smp_w: Vec<u32>,
    pub mult_w: u32,
}

fn build<EF: Ckt>(cfg: Cfg, hist: &[H]) -> Result<Built<EF>, String>
where
    CircuitChallenger<WIDTH, RATE, Poseidon2Config>: RecursiveChallenger<F, EF>,
{
    let mut b = CircuitBuilder::<EF>::new();
    let perm = default_babybear_poseidon2_16();
    // enabling is type-directed; dispatch on DD through `Any`-free helper closures
    enable::<EF>(&mut b, cfg, perm);
    let mut ch = match cfg {
        Cfg::D1 => CircuitChallenger::<WIDTH, RATE, Poseidon2Config>::new_babybear_base(),
        _ => CircuitChallenger::<WIDTH, RATE, Poseidon2Config>::new_babybear(),
    };
    let nobs = hist.iter().filter(|h| **h == H::Obs).count();
    let obs: Vec<ExprId> = (0..nobs).map(|_| b.public_input()).collect();
    let mult = b.public_input();
    let mut smp: Vec<ExprId> = vec![];
    let mut oi = 0;
    for h in hist {
        match h {
            H::Obs => {
                RecursiveChallenger::<F, EF>::observe(&mut ch, &mut b, obs[oi]);
                oi += 1;
            }
            H::Smp => {
                let s = RecursiveChallenger::<F, EF>::sample(&mut ch, &mut b);
                smp.push(s);
            }
        }
    }
    // every sampled challenge is consumed by one ALU row (as a verifier circuit would do), so
    // the sampled slot takes part in the witness bus
    for s in &smp {
        let _ = b.mul(*s, mult);
    }
    let circuit = b.build().map_err(|e| format!("build: {e:?}"))?;
    let w = |e: &ExprId| circuit.expr_to_widx.get(e).map(|w| w.0).ok_or_else(|| "expr without slot".to_string());
    let obs_w = obs.iter().map(w).collect::<Result<Vec<_>, _>>()?;
    let smp_w = smp.iter().map(w).collect::<Result<Vec<_>, _>>()?;
    let mult_w = w(&mult)?;
    Ok(Built { circuit, obs_w, smp_w, mult_w })
}

fn enable<EF: Ckt>(b: &mut CircuitBuilder<EF>, cfg: Cfg, perm: p3_baby_bear::Poseidon2BabyBear<16>) {
    use std::any::Any;
    let any: &mut dyn Any = b;
    if let Some(b4) = any.downcast_mut::<CircuitBuilder<E4>>() {
        b4.enable_poseidon2_perm::<BabyBearD4Width16, _>(generate_poseidon2_trace::<E4, BabyBearD4Width16>, perm);
        if cfg == Cfg::D4Npo {
            b4.enable_recompose::<F>(generate_recompose_trace::<F, E4>);
        }
        return;
    }
    let any: &mut dyn Any = b;
    if let Some(b1) = any.downcast_mut::<CircuitBuilder<F>>() {
        b1.enable_poseidon2_perm_base::<BabyBearD1Width16, _>(generate_poseidon2_trace::<F, BabyBearD1Width16>, perm);
        b1.enable_recompose::<F>(generate_recompose_trace::<F, F>);
    }
}


// ------------------------------------------------------------------------------------------
// Real prover
// ------------------------------------------------------------------------------------------

#[derive(Debug, Clone, PartialEq)]
pub enum Outcome {
    Accepted,
    PrepError(String),
    ProveFailed(String),
    VerifyFailed(String),
}

impl Outcome {
    fn tag(&self) -> &'static str {
        match self {
            Outcome::Accepted => "accepted",
            Outcome::PrepError(_) => "prep-error",
            Outcome::ProveFailed(_) => "prove-failed",
            Outcome::VerifyFailed(_) => "verify-failed",
        }
    }
}

/// Poseidon2 D=1 table inside a base-field (D=1) circuit: the repository has the AIR
/// (`...D1Width16Bus1`) and the table prover but no public `NpoAirBuilder<_, 1>`; this adapter
/// is the same code as `poseidon2_air_try_build` with the extension degree 1.
struct P2D1Builder;
impl NpoAirBuilder<BabyBearConfig, 1> for P2D1Builder {
    fn try_build(
        &self,
        op_type: &NpoTypeId,
        prep_base: &[F],
        min_height: usize,
        _lanes: usize,
        profile: ConstraintProfile,
    ) -> Option<(CircuitTableAir<BabyBearConfig, 1>, usize)> {
        let suffix = op_type.as_str().strip_prefix("poseidon2_perm/")?;
        let config = Poseidon2Config::from_variant_name(suffix)?;
        let prover = p3_circuit_prover::batch_stark_prover::Poseidon2Prover::new(config, profile);
        let wrapper = prover.wrapper_from_config_with_preprocessed::<BabyBearConfig>(prep_base.to_vec(), min_height, 1)?;
        let width = prover.preprocessed_width_from_config();
        let rows = prep_base.len().div_ceil(width);
        let degree = p3_util::log2_ceil_usize(rows.next_power_of_two().max(min_height.next_power_of_two()));
        Some((CircuitTableAir::Dynamic(wrapper), degree))
    }
}

fn panic_msg(p: Box<dyn std::any::Any + Send>) -> String {
    p.downcast_ref::<String>().cloned().or_else(|| p.downcast_ref::<&str>().map(|s| s.to_string())).unwrap_or_default().chars().take(140).collect()
}

pub struct Prepared {
    cpd4: Option<CircuitProverData<BabyBearConfig>>,
    cfg: Cfg,
    /// final (base-field, multiplicities filled in) non-primitive preprocessed columns
    pub npo_cols: BTreeMap<String, Vec<u64>>,
}

fn prepare4(cfg: Cfg, circuit: &Circuit<E4>) -> Result<Prepared, String> {
    let r = catch_unwind(AssertUnwindSafe(|| {
        let sc = config::baby_bear();
        let packing = TablePacking::new(1, 1);
        let npo_prep: Vec<Box<dyn NpoPreprocessor<F>>> = vec![Box::new(Poseidon2Preprocessor), Box::new(RecomposePreprocessor::default())];
        let mut ab = poseidon2_air_builders::<BabyBearConfig, 4>();
        ab.extend(recompose_air_builders::<BabyBearConfig, 4>(1, false));
        let (ad, prim, nonprim) = get_airs_and_degrees_with_prep::<BabyBearConfig, E4, 4>(circuit, &packing, &npo_prep, &ab, ConstraintProfile::Standard)
            .map_err(|e| format!("{e:?}"))?;
        let npo_cols = nonprim.iter().map(|(k, v)| (k.as_str().to_string(), v.iter().map(|x| x.as_canonical_u64()).collect())).collect();
        let (airs, degs): (Vec<_>, Vec<usize>) = ad.into_iter().unzip();
        let pd = ProverData::from_airs_and_degrees(&sc, &airs, &degs);
        Ok::<_, String>(Prepared { cpd4: Some(CircuitProverData::new(pd, prim, nonprim)), cfg, npo_cols })
    }));
    r.unwrap_or_else(|p| Err(format!("panic: {}", panic_msg(p))))
}

fn prepare1(cfg: Cfg, circuit: &Circuit<F>) -> Result<Prepared, String> {
    let r = catch_unwind(AssertUnwindSafe(|| {
        let sc = config::baby_bear();
        let packing = TablePacking::new(1, 1);
        let npo_prep: Vec<Box<dyn NpoPreprocessor<F>>> = vec![Box::new(Poseidon2Preprocessor), Box::new(RecomposePreprocessor::default())];
        let mut ab: Vec<Box<dyn NpoAirBuilder<BabyBearConfig, 1>>> = vec![Box::new(P2D1Builder)];
        ab.extend(recompose_air_builders::<BabyBearConfig, 1>(1, false));
        let (ad, prim, nonprim) = get_airs_and_degrees_with_prep::<BabyBearConfig, F, 1>(circuit, &packing, &npo_prep, &ab, ConstraintProfile::Standard)
            .map_err(|e| format!("{e:?}"))?;
        let npo_cols = nonprim.iter().map(|(k, v)| (k.as_str().to_string(), v.iter().map(|x| x.as_canonical_u64()).collect())).collect();
        let (airs, degs): (Vec<_>, Vec<usize>) = ad.into_iter().unzip();
        let pd = ProverData::from_airs_and_degrees(&sc, &airs, &degs);
        Ok::<_, String>(Prepared { cpd4: Some(CircuitProverData::new(pd, prim, nonprim)), cfg, npo_cols })
    }));
    r.unwrap_or_else(|p| Err(format!("panic: {}", panic_msg(p))))
}

pub trait Prove: Ckt {
    fn prepare(cfg: Cfg, circuit: &Circuit<Self>) -> Result<Prepared, String>;
}
impl Prove for E4 {
    fn prepare(cfg: Cfg, circuit: &Circuit<Self>) -> Result<Prepared, String> {
        prepare4(cfg, circuit)
    }
}
impl Prove for F {
    fn prepare(cfg: Cfg, circuit: &Circuit<Self>) -> Result<Prepared, String> {
        prepare1(cfg, circuit)
    }
}

fn prove_verify<EF: Prove>(prep: &Prepared, traces: &Traces<EF>) -> Outcome {
    let r = catch_unwind(AssertUnwindSafe(|| -> Outcome {
        let sc = config::baby_bear();
        let mut prover = BatchStarkProver::new(sc).with_table_packing(TablePacking::new(1, 1));
        match prep.cfg {
            Cfg::D1 => {
                prover.register_table_prover(Box::new(p3_circuit_prover::batch_stark_prover::Poseidon2Prover::new(
                    Poseidon2Config::BABY_BEAR_D1_W16,
                    ConstraintProfile::Standard,
                )));
                prover.register_recompose_table::<1>(false);
            }
            _ => {
                prover.register_poseidon2_table::<4>(Poseidon2Config::BABY_BEAR_D4_W16);
                prover.register_recompose_table::<4>(false);
            }
        }
        let cpd = prep.cpd4.as_ref().unwrap();
        let proof = match prover.prove_all_tables(traces, cpd) {
            Ok(p) => p,
            Err(e) => return Outcome::ProveFailed(format!("{e:?}").chars().take(140).collect()),
        };
        match prover.verify_all_tables::<EF>(&proof) {
            Ok(()) => Outcome::Accepted,
            Err(e) => Outcome::VerifyFailed(format!("{e:?}").chars().take(140).collect()),
        }
    }));
    r.unwrap_or_else(|p| Outcome::ProveFailed(format!("panic: {}", panic_msg(p))))
}

// ------------------------------------------------------------------------------------------
// Shape: the bus roles of the emitted circuit, read off `circuit.ops`
// ------------------------------------------------------------------------------------------

#[derive(Clone, Debug)]
pub enum Row {
    /// permutation row: input slots (None = not fed from the bus), exposed and non-exposed outputs
    Perm { ins: Vec<Option<u32>>, exposed: Vec<u32>, hidden: Vec<u32>, new_start: bool, absorb_len: u64, op_index: usize },
    Recompose { coeffs: Vec<u32>, out: u32, op_index: usize },
    Hint { x: u32, outs: Vec<u32>, op_index: usize },
    AddConst { a: u32, k: u32, out: u32 },
}

pub struct Shape {
    pub rows: Vec<Row>,
    pub text: String,
    /// real slot -> canonical name
    pub names: HashMap<u32, String>,
}

fn dotted(l: &[u64]) -> String {
    l.iter().map(|x| x.to_string()).collect::<Vec<_>>().join(".")
}

fn shape_of<EF: Ckt>(cfg: Cfg, b: &Built<EF>, honest: &Traces<EF>) -> Result<Shape, String> {
    let c = &b.circuit;
    let mut consts: HashMap<u32, Vec<u64>> = HashMap::new();
    for op in &c.ops {
        if let Op::Const { out, val } = op {
            consts.insert(out.0, val.limbs());
        }
    }
    // new_start per permutation row from the honest Poseidon trace, absorb_len (compact D=1
    // layout only) from the real preprocessed columns
    let p2 = NpoTypeId::poseidon2_perm(if cfg == Cfg::D1 { Poseidon2Config::BABY_BEAR_D1_W16 } else { Poseidon2Config::BABY_BEAR_D4_W16 });
    let ptrace = honest.non_primitive_traces.get(&p2).and_then(|t| t.as_any().downcast_ref::<Poseidon2Trace<F>>()).ok_or("no poseidon trace")?;
    let mut absorb: Vec<u64> = vec![];
    if cfg == Cfg::D1 {
        let pre = c.generate_preprocessed_columns::<1>().map_err(|e| format!("{e:?}"))?;
        let col = pre.non_primitive.get(&p2).ok_or("no poseidon columns")?;
        let n = ptrace.operations.len();
        if n == 0 || col.len() % n != 0 {
            return Err("poseidon column length".into());
        }
        let w = col.len() / n;
        for r in 0..n {
            absorb.push(col[r * w + RATE].limbs()[0]);
        }
    }
    let mut rows = vec![];
    let mut pk = 0usize;
    for (i, op) in c.ops.iter().enumerate() {
        match op {
            Op::NonPrimitiveOpWithExecutor { inputs, outputs, executor, .. } => {
                let t = executor.op_type().as_str().to_string();
                if t.starts_with("poseidon2_perm/") {
                    let limbs = WIDTH / cfg.d();
                    let ne = executor.num_exposed_outputs().unwrap_or(outputs.len());
                    let ins: Vec<Option<u32>> = inputs.iter().take(limbs).map(|v| v.first().map(|w| w.0)).collect();
                    let exposed = outputs.iter().take(ne).filter_map(|v| v.first().map(|w| w.0)).collect();
                    let hidden = outputs.iter().skip(ne).filter_map(|v| v.first().map(|w| w.0)).collect();
                    let row = ptrace.operations.get(pk).ok_or("poseidon trace shorter than op list")?;
                    rows.push(Row::Perm { ins, exposed, hidden, new_start: row.new_start, absorb_len: absorb.get(pk).copied().unwrap_or(0), op_index: i });
                    pk += 1;
                } else if t == "recompose" {
                    rows.push(Row::Recompose { coeffs: inputs[0].iter().map(|w| w.0).collect(), out: outputs[0][0].0, op_index: i });
                } else {
                    return Err(format!("unexpected npo {t}"));
                }
            }
            Op::Hint { inputs, outputs, .. } => {
                rows.push(Row::Hint { x: inputs[0].0, outs: outputs.iter().map(|w| w.0).collect(), op_index: i });
            }
            Op::Alu { kind: AluOpKind::Add, a, b: bb, out, .. } if consts.contains_key(&bb.0) => {
                rows.push(Row::AddConst { a: a.0, k: bb.0, out: out.0 });
            }
            _ => {}
        }
    }
    let mut names: HashMap<u32, String> = HashMap::new();
    for (i, w) in b.obs_w.iter().enumerate() {
        names.insert(*w, format!("o{i}"));
    }
    for (w, l) in &consts {
        names.entry(*w).or_insert_with(|| format!("k{}", dotted(l)));
    }
    let mut next = 0usize;
    let mut nm = |w: u32, names: &mut HashMap<u32, String>| -> String {
        names
            .entry(w)
            .or_insert_with(|| {
                next += 1;
                format!("v{}", next - 1)
            })
            .clone()
    };
    let mut parts = vec![];
    for r in &rows {
        match r {
            Row::Perm { ins, exposed, hidden, new_start, absorb_len, .. } => {
                let i: Vec<String> = ins.iter().map(|x| x.map_or("-".to_string(), |w| nm(w, &mut names))).collect();
                let e: Vec<String> = exposed.iter().map(|w| nm(*w, &mut names)).collect();
                let h: Vec<String> = hidden.iter().map(|w| nm(*w, &mut names)).collect();
                parts.push(format!("P{}.{}({}|{}|{})", *new_start as u8, absorb_len, i.join(","), e.join(","), h.join(",")));
            }
            Row::Recompose { coeffs, out, .. } => {
                let cs: Vec<String> = coeffs.iter().map(|w| nm(*w, &mut names)).collect();
                parts.push(format!("R({}>{})", cs.join(","), nm(*out, &mut names)));
            }
            Row::Hint { x, outs, .. } => {
                let x = nm(*x, &mut names);
                let os: Vec<String> = outs.iter().map(|w| nm(*w, &mut names)).collect();
                parts.push(format!("H({}>{})", x, os.join(",")));
            }
            Row::AddConst { a, k, out } => {
                let a = nm(*a, &mut names);
                let k = nm(*k, &mut names);
                parts.push(format!("A({}+{}>{})", a, k, nm(*out, &mut names)));
            }
        }
    }
    let s: Vec<String> = b.smp_w.iter().map(|w| nm(*w, &mut names)).collect();
    let text = format!("{}|S({})", parts.join(";"), s.join(","));
    Ok(Shape { rows, text, names })
}

// ------------------------------------------------------------------------------------------
// Deviating re-execution
// ------------------------------------------------------------------------------------------

#[derive(Clone, Debug, Default)]
pub struct Dev {
    /// slot -> forced value, applied when the slot is first written
    pub force: BTreeMap<u32, Vec<u64>>,
    /// recompose rows are not required to equal the recomposition of their coefficient slots
    pub free_recompose: bool,
    /// D=1 only: (permutation row k, capacity position j in 0..8, forced input cell value)
    pub cap_cells: Vec<(usize, usize, u64)>,
    /// trace-only edits after consistent re-execution: (slot, value) written into the assignment
    /// without propagation (control deviations, predicted rejected)
    pub poke: BTreeMap<u32, Vec<u64>>,
}

impl Dev {
    fn to_json(&self) -> Value {
        json!({"force": self.force.iter().map(|(k, v)| (k.to_string(), json!(v))).collect::<serde_json::Map<_, _>>(),
               "free_recompose": self.free_recompose, "cap_cells": self.cap_cells,
               "poke": self.poke.iter().map(|(k, v)| (k.to_string(), json!(v))).collect::<serde_json::Map<_, _>>()})
    }
    fn from_json(v: &Value) -> Dev {
        let m = |x: &Value| -> BTreeMap<u32, Vec<u64>> {
            x.as_object().map(|o| o.iter().filter_map(|(k, v)| Some((k.parse().ok()?, v.as_array()?.iter().filter_map(|y| y.as_u64()).collect()))).collect()).unwrap_or_default()
        };
        Dev {
            force: m(&v["force"]),
            free_recompose: v["free_recompose"].as_bool().unwrap_or(false),
            cap_cells: v["cap_cells"].as_array().map(|a| a.iter().filter_map(|t| Some((t[0].as_u64()? as usize, t[1].as_u64()? as usize, t[2].as_u64()?))).collect()).unwrap_or_default(),
            poke: m(&v["poke"]),
        }
    }
}

pub struct Forged<EF> {
    pub w: Vec<EF>,
    pub traces: Traces<EF>,
    /// every permutation evaluated: input -> output (16 base elements each)
    pub perm_log: Vec<([u64; 16], [u64; 16])>,
}

fn perm16(x: [F; 16]) -> [F; 16] {
    default_babybear_poseidon2_16().permute(x)
}
fn u16s(x: &[F; 16]) -> [u64; 16] {
    core::array::from_fn(|i| x[i].as_canonical_u64())
}

/// Re-executes the circuit op by op with the real hint / recompose / (D>=2) permutation
/// executors, forcing the values in `dev`, then rebuilds `Traces`.
fn reexec<EF: Ckt>(cfg: Cfg, b: &Built<EF>, shape: &Shape, honest: &Traces<EF>, pubs: &[EF], dev: &Dev) -> Result<Forged<EF>, String> {
    let c = &b.circuit;
    let n = c.witness_count as usize;
    let mut w: Vec<Option<EF>> = vec![None; n];
    let mut op_states: OpStateMap = BTreeMap::new();
    let no_private: Vec<Option<p3_circuit::NpoPrivateData>> = (0..c.ops.len() + 1).map(|_| None).collect();
    let mut perm_log = vec![];
    let put = |w: &mut Vec<Option<EF>>, s: u32, v: EF, first_writer_forces: bool| -> Result<(), String> {
        let v = match dev.force.get(&s) {
            Some(l) if first_writer_forces && w[s as usize].is_none() => EF::from_limbs(l),
            _ => v,
        };
        match w[s as usize] {
            Some(old) if old != v => Err(format!("conflict at slot {s}")),
            _ => {
                w[s as usize] = Some(v);
                Ok(())
            }
        }
    };
    let get = |w: &Vec<Option<EF>>, s: u32| -> Result<EF, String> { w[s as usize].ok_or(format!("slot {s} unset")) };
    // D=1 chain state kept here (the real executor keeps it in a crate-private op state)
    let mut chain: Option<[F; 16]> = None;
    let mut d1_inputs: Vec<[F; 16]> = vec![];
    let mut pk = 0usize;
    for (i, op) in c.ops.iter().enumerate() {
        match op {
            Op::Const { out, val } => put(&mut w, out.0, *val, false)?,
            Op::Public { out, public_pos } => put(&mut w, out.0, pubs[*public_pos], false)?,
            Op::Alu { kind, a, b: bb, c: cc, out, .. } => {
                let av = get(&w, a.0)?;
                let cv = match cc { Some(x) => Some(get(&w, x.0)?), None => None };
                match (w[bb.0 as usize], w[out.0 as usize]) {
                    (Some(bv), _) => {
                        let r = match kind {
                            AluOpKind::Add => av + bv,
                            AluOpKind::Mul => av * bv,
                            AluOpKind::MulAdd => av * bv + cv.ok_or("muladd without c")?,
                            AluOpKind::BoolCheck => av,
                            AluOpKind::HornerAcc => return Err("horner op in challenger circuit".into()),
                        };
                        put(&mut w, out.0, r, true)?;
                    }
                    (None, Some(ov)) => {
                        let r = match kind {
                            AluOpKind::Add => ov - av,
                            AluOpKind::Mul => ov * av.try_inverse().ok_or("div0")?,
                            AluOpKind::MulAdd => (ov - cv.ok_or("muladd without c")?) * av.try_inverse().ok_or("div0")?,
                            _ => return Err("backward op kind".into()),
                        };
                        put(&mut w, bb.0, r, true)?;
                    }
                    _ => return Err(format!("alu op #{i} not executable")),
                }
            }
            Op::Hint { inputs, outputs, executor } => {
                let mut tmp = w.clone();
                for o in outputs {
                    tmp[o.0 as usize] = None;
                }
                executor.execute(inputs, outputs, &mut tmp).map_err(|e| format!("hint: {e:?}"))?;
                for o in outputs {
                    let v = tmp[o.0 as usize].ok_or("hint output unset")?;
                    if dev.free_recompose && dev.force.contains_key(&o.0) && w[o.0 as usize].is_none() {
                        w[o.0 as usize] = Some(EF::from_limbs(&dev.force[&o.0]));
                    } else {
                        put(&mut w, o.0, v, true)?;
                    }
                }
            }
            Op::NonPrimitiveOpWithExecutor { inputs, outputs, executor, op_id } => {
                let t = executor.op_type().as_str().to_string();
                if t == "recompose" {
                    let out = outputs[0][0].0;
                    let old = w[out as usize];
                    w[out as usize] = None;
                    {
                        let mut ctx = ExecutionContext::new(&mut w, &no_private, &c.enabled_ops, *op_id, &mut op_states);
                        executor.execute(inputs, outputs, &mut ctx).map_err(|e| format!("recompose: {e:?}"))?;
                    }
                    let computed = w[out as usize].ok_or("recompose output unset")?;
                    w[out as usize] = old;
                    if dev.free_recompose {
                        if old.is_none() {
                            let v = dev.force.get(&out).map_or(computed, |l| EF::from_limbs(l));
                            w[out as usize] = Some(v);
                        }
                    } else {
                        put(&mut w, out, computed, false)?;
                    }
                } else if cfg == Cfg::D1 {
                    // deviating D=1 executor: same semantics as `execute_base`, capacity cells forceable
                    let Some(Row::Perm { new_start, absorb_len, .. }) = shape.rows.iter().filter(|r| matches!(r, Row::Perm { .. })).nth(pk) else {
                        return Err("perm row missing in shape".into());
                    };
                    let mut st = if *new_start { [F::ZERO; 16] } else { chain.ok_or("chain without previous row")? };
                    for (j, inp) in inputs.iter().take(16).enumerate() {
                        if let Some(wid) = inp.first() {
                            st[j] = get(&w, wid.0)?.limbs().first().map(|x| F::from_u64(*x)).unwrap();
                        }
                    }
                    st[RATE] += F::from_u64(*absorb_len);
                    for (k, j, v) in &dev.cap_cells {
                        if *k == pk {
                            st[RATE + j] = F::from_u64(*v);
                        }
                    }
                    let o = perm16(st);
                    perm_log.push((u16s(&st), u16s(&o)));
                    d1_inputs.push(st);
                    chain = Some(o);
                    for (j, os) in outputs.iter().enumerate() {
                        if let Some(wid) = os.first() {
                            put(&mut w, wid.0, EF::emb(o[j]), j >= RATE)?;
                        }
                    }
                    pk += 1;
                } else {
                    let ne = executor.num_exposed_outputs().unwrap_or(outputs.len());
                    let mut saved = vec![];
                    for os in outputs {
                        for wid in os {
                            saved.push((wid.0, w[wid.0 as usize]));
                            w[wid.0 as usize] = None;
                        }
                    }
                    {
                        let mut ctx = ExecutionContext::new(&mut w, &no_private, &c.enabled_ops, *op_id, &mut op_states);
                        executor.execute(inputs, outputs, &mut ctx).map_err(|e| format!("perm: {e:?}"))?;
                    }
                    let mut st = [F::ZERO; 16];
                    for (j, inp) in inputs.iter().take(4).enumerate() {
                        let v = get(&w, inp[0].0)?.limbs();
                        for t in 0..4 {
                            st[4 * j + t] = F::from_u64(v[t]);
                        }
                    }
                    perm_log.push((u16s(&st), u16s(&perm16(st))));
                    let computed: Vec<(u32, EF)> = saved.iter().map(|(s, _)| (*s, w[*s as usize].unwrap())).collect();
                    for (s, old) in &saved {
                        w[*s as usize] = *old;
                    }
                    for (j, os) in outputs.iter().enumerate() {
                        for wid in os {
                            let v = computed.iter().find(|(s, _)| *s == wid.0).unwrap().1;
                            put(&mut w, wid.0, v, j >= ne)?;
                        }
                    }
                    pk += 1;
                }
            }
        }
    }
    let mut wv: Vec<EF> = w.iter().enumerate().map(|(i, v)| v.ok_or(format!("slot {i} never set"))).collect::<Result<_, _>>()?;
    for (s, l) in &dev.poke {
        wv[*s as usize] = EF::from_limbs(l);
    }
    // ---- traces
    let g = |i: WitnessId| wv[i.0 as usize];
    let (mut ci, mut cv, mut pi, mut pv, mut kinds, mut vals, mut idx) = (vec![], vec![], vec![], vec![], vec![], vec![], vec![]);
    for op in &c.ops {
        match op {
            Op::Const { out, .. } => {
                ci.push(*out);
                cv.push(g(*out));
            }
            Op::Public { out, .. } => {
                pi.push(*out);
                pv.push(g(*out));
            }
            Op::Alu { kind, a, b: bb, c: cc, out, .. } => {
                let cw = cc.unwrap_or(WitnessId(0));
                let cval = match kind {
                    AluOpKind::Add | AluOpKind::Mul => EF::ZERO,
                    AluOpKind::BoolCheck => g(*a),
                    _ => g(cw),
                };
                kinds.push(*kind);
                vals.push([g(*a), g(*bb), cval, g(*out)]);
                idx.push([*a, *bb, cw, *out]);
            }
            _ => {}
        }
    }
    let mut npt: hashbrown::HashMap<NpoTypeId, Box<dyn p3_circuit::tables::NonPrimitiveTrace<EF>>> = Default::default();
    for (k, t) in &honest.non_primitive_traces {
        if let Some(rt) = t.as_any().downcast_ref::<RecomposeTrace<F>>() {
            let mut rt = rt.clone();
            for row in rt.operations.iter_mut() {
                row.values = wv[row.output_wid.0 as usize].limbs().iter().map(|x| F::from_u64(*x)).collect();
            }
            npt.insert(k.clone(), Box::new(rt));
        } else if let Some(pt) = t.as_any().downcast_ref::<Poseidon2Trace<F>>() {
            let mut pt = pt.clone();
            for (r, row) in pt.operations.iter_mut().enumerate() {
                if cfg == Cfg::D1 {
                    row.input_values = d1_inputs.get(r).ok_or("poseidon rows")?.to_vec();
                } else {
                    for j in 0..4 {
                        if row.in_ctl[j] {
                            let l = wv[row.input_indices[j] as usize].limbs();
                            for t in 0..4 {
                                row.input_values[4 * j + t] = F::from_u64(l[t]);
                            }
                        }
                    }
                }
            }
            npt.insert(k.clone(), Box::new(pt));
        } else {
            return Err("unknown non-primitive trace".into());
        }
    }
    let traces = Traces {
        witness_trace: WitnessTrace::new(wv.clone()),
        const_trace: ConstTrace { index: ci, values: cv },
        public_trace: PublicTrace { index: pi, values: pv },
        alu_trace: AluTrace { op_kind: kinds, values: vals, indices: idx },
        non_primitive_traces: npt,
        tag_to_witness: Default::default(),
    };
    Ok(Forged { w: wv, traces, perm_log })
}

// ------------------------------------------------------------------------------------------
// Oracles
// ------------------------------------------------------------------------------------------

#[derive(Clone)]
struct RecPerm {
    inner: p3_baby_bear::Poseidon2BabyBear<16>,
    log: std::sync::Arc<std::sync::Mutex<Vec<([u64; 16], [u64; 16])>>>,
}
impl Permutation<[F; 16]> for RecPerm {
    fn permute_mut(&self, x: &mut [F; 16]) {
        let i = u16s(x);
        self.inner.permute_mut(x);
        self.log.lock().unwrap().push((i, u16s(x)));
    }
}
impl p3_symmetric::CryptographicPermutation<[F; 16]> for RecPerm {}

/// The native challenges for the observed values, by p3's `DuplexChallenger`.
fn native(hist: &[H], obs: &[F], log: &mut Vec<([u64; 16], [u64; 16])>) -> Vec<F> {
    let rp = RecPerm { inner: default_babybear_poseidon2_16(), log: Default::default() };
    let mut ch = DuplexChallenger::<F, RecPerm, WIDTH, RATE>::new(rp.clone());
    let mut out = vec![];
    let mut oi = 0;
    for h in hist {
        match h {
            H::Obs => {
                ch.observe(obs[oi]);
                oi += 1;
            }
            H::Smp => out.push(ch.sample()),
        }
    }
    log.extend(rp.log.lock().unwrap().iter().cloned());
    out
}

/// Which relations of the emitted ops fail under the assignment (independent of the prover).
fn broken_relations<EF: Ckt>(cfg: Cfg, b: &Built<EF>, shape: &Shape, f: &Forged<EF>) -> Vec<&'static str> {
    let c = &b.circuit;
    let w = &f.w;
    let mut br: Vec<&'static str> = vec![];
    let mut add = |s: &'static str, br: &mut Vec<&'static str>| {
        if !br.contains(&s) {
            br.push(s)
        }
    };
    for op in &c.ops {
        match op {
            Op::Const { out, val } => {
                if w[out.0 as usize] != *val {
                    add("const", &mut br)
                }
            }
            Op::Alu { kind, a, b: bb, c: cc, out, .. } => {
                let (a, bv, o) = (w[a.0 as usize], w[bb.0 as usize], w[out.0 as usize]);
                let cv = cc.map(|x| w[x.0 as usize]).unwrap_or(EF::ZERO);
                let ok = match kind {
                    AluOpKind::Add => a + bv == o,
                    AluOpKind::Mul => a * bv == o,
                    AluOpKind::MulAdd => a * bv + cv == o,
                    AluOpKind::BoolCheck => a * (a - EF::ONE) == EF::ZERO,
                    AluOpKind::HornerAcc => true,
                };
                if !ok {
                    add("alu", &mut br)
                }
            }
            _ => {}
        }
    }
    let basis = |i: usize| -> EF {
        let mut l = vec![0u64; EF::DD];
        l[i] = 1;
        EF::from_limbs(&l)
    };
    let mut chain: Option<[F; 16]> = None;
    let ptrace = f.traces.non_primitive_traces.values().find_map(|t| t.as_any().downcast_ref::<Poseidon2Trace<F>>());
    let mut pk = 0;
    for r in &shape.rows {
        match r {
            Row::Recompose { coeffs, out, .. } => {
                let s = coeffs.iter().enumerate().fold(EF::ZERO, |acc, (i, c)| acc + EF::emb(F::from_u64(w[*c as usize].limbs()[0])) * basis(i));
                if s != w[*out as usize] || coeffs.iter().any(|c| w[*c as usize].limbs()[1..].iter().any(|x| *x != 0)) {
                    add("recompose", &mut br)
                }
            }
            Row::Hint { x, outs, .. } => {
                let l = w[*x as usize].limbs();
                if outs.len() == EF::DD && outs.iter().enumerate().any(|(i, o)| w[*o as usize] != EF::emb(F::from_u64(l[i]))) {
                    add("hint-decomposition", &mut br)
                }
            }
            Row::AddConst { .. } => {}
            Row::Perm { ins, exposed, hidden, new_start, absorb_len, .. } => {
                let mut st = [F::ZERO; 16];
                if cfg == Cfg::D1 {
                    if !*new_start {
                        st = chain.unwrap_or([F::ZERO; 16]);
                    }
                    for (j, s) in ins.iter().enumerate() {
                        if let Some(s) = s {
                            st[j] = F::from_u64(w[*s as usize].limbs()[0]);
                        }
                    }
                    st[RATE] += F::from_u64(*absorb_len);
                    // the committed input cells must be the chained ones
                    if let Some(pt) = ptrace {
                        if pt.operations[pk].input_values[..] != st[..] {
                            // table row 0 is only ever the `next` row of the wrap-around window
                            add(if pk == 0 { "d1-first-row-capacity" } else { "d1-capacity-chain" }, &mut br);
                            for j in 0..16 {
                                st[j] = pt.operations[pk].input_values[j];
                            }
                        }
                    }
                } else {
                    for (j, s) in ins.iter().enumerate() {
                        let l = w[s.unwrap() as usize].limbs();
                        for t in 0..4 {
                            st[4 * j + t] = F::from_u64(l[t]);
                        }
                    }
                }
                let o = perm16(st);
                chain = Some(o);
                let d = cfg.d();
                let val = |j: usize| -> EF { EF::from_limbs(&(0..d).map(|t| o[d * j + t].as_canonical_u64()).collect::<Vec<_>>()) };
                for (j, s) in exposed.iter().enumerate() {
                    if w[*s as usize] != val(j) {
                        add("perm-exposed-output", &mut br)
                    }
                }
                for (j, s) in hidden.iter().enumerate() {
                    if w[*s as usize] != val(exposed.len() + j) {
                        add("perm-unexposed-output", &mut br)
                    }
                }
                pk += 1;
            }
        }
    }
    br.sort();
    br
}

fn violation_class(cfg: Cfg, broken: &[&str]) -> String {
    let g = if cfg == Cfg::D1 { "d1" } else { "d>=2" };
    if broken == ["d1-first-row-capacity"] {
        return "d1:first-row-capacity-unconstrained".into();
    }
    let constrained: Vec<&str> = broken.iter().copied().filter(|b| matches!(*b, "const" | "alu" | "perm-exposed-output" | "d1-capacity-chain" | "d1-first-row-capacity")).collect();
    if !constrained.is_empty() {
        return format!("{g}:constrained-relation-broken:{}", constrained.join("+"));
    }
    if broken.contains(&"recompose") || broken.contains(&"hint-decomposition") {
        if cfg == Cfg::D1 {
            return format!("{g}:{}", broken.join("+"));
        }
        return format!("{g}:recompose-table-does-not-bind-coefficients");
    }
    if broken == ["perm-unexposed-output"] {
        if cfg == Cfg::D1 {
            return "d1:capacity-output-not-exposed".into();
        }
        return format!("{g}:capacity-output-not-exposed");
    }
    format!("{g}:unbound-with-all-relations-holding")
}

// ------------------------------------------------------------------------------------------
// Cases
// ------------------------------------------------------------------------------------------

pub struct CaseOut {
    pub case_line: Option<String>,
    pub impl_line: Option<String>,
    pub accepted: bool,
    pub bound: bool,
    pub outcome: String,
    pub broken: Vec<&'static str>,
    pub violation: Option<Value>,
}

pub struct Ctx<EF: Prove> {
    pub cfg: Cfg,
    pub hist: Vec<H>,
    pub built: Built<EF>,
    pub pubs: Vec<EF>,
    pub honest: Traces<EF>,
    pub shape: Shape,
    pub prep: Prepared,
}

fn setup<EF: Prove>(cfg: Cfg, hist: &[H], obs_vals: &[u64]) -> Result<Ctx<EF>, String>
where
    CircuitChallenger<WIDTH, RATE, Poseidon2Config>: RecursiveChallenger<F, EF>,
{
    let built = catch_unwind(AssertUnwindSafe(|| build::<EF>(cfg, hist))).map_err(|p| format!("build panic: {}", panic_msg(p)))??;
    let mut pubs: Vec<EF> = obs_vals.iter().map(|x| EF::emb(F::from_u64(*x))).collect();
    pubs.push(EF::emb(F::from_u64(3)));
    let honest = catch_unwind(AssertUnwindSafe(|| {
        let mut r = built.circuit.runner();
        r.set_public_inputs(&pubs).map_err(|e| format!("{e:?}"))?;
        r.run().map_err(|e| format!("{e:?}"))
    }))
    .map_err(|p| format!("run panic: {}", panic_msg(p)))??;
    let shape = shape_of(cfg, &built, &honest)?;
    let prep = EF::prepare(cfg, &built.circuit)?;
    Ok(Ctx { cfg, hist: hist.to_vec(), built, pubs, honest, shape, prep })
}

fn run_case<EF: Prove>(cx: &Ctx<EF>, id: &str, dev: &Dev, obs_vals: &[u64], want_model: bool) -> CaseOut {
    let replay = json!({"cfg": cx.cfg.name(), "hist": hist_str(&cx.hist), "obs": obs_vals, "dev": dev.to_json()});
    let f = match reexec(cx.cfg, &cx.built, &cx.shape, &cx.honest, &cx.pubs, dev) {
        Ok(f) => f,
        Err(e) => {
            return CaseOut { case_line: None, impl_line: None, accepted: false, bound: true, outcome: format!("inconsistent:{e}"), broken: vec![], violation: None };
        }
    };
    let o = prove_verify(&cx.prep, &f.traces);
    let accepted = o == Outcome::Accepted;
    let mut perm_log = f.perm_log.clone();
    let obs_f: Vec<F> = cx.built.obs_w.iter().map(|s| F::from_u64(f.w[*s as usize].limbs()[0])).collect();
    let nat = native(&cx.hist, &obs_f, &mut perm_log);
    let smp: Vec<EF> = cx.built.smp_w.iter().map(|s| f.w[*s as usize]).collect();
    let bound = smp.len() == nat.len() && smp.iter().zip(&nat).all(|(a, b)| *a == EF::emb(*b));
    let broken = broken_relations(cx.cfg, &cx.built, &cx.shape, &f);
    let mut violation = None;
    if accepted && !bound {
        let class = violation_class(cx.cfg, &broken);
        violation = Some(json!({"property": "C06", "kind": "accepted-proof-with-unbound-challenge", "class": class,
            "detail": {"broken_relations": broken, "sampled": smp.iter().map(|x| x.limbs()).collect::<Vec<_>>(), "native": nat.iter().map(|x| x.as_canonical_u64()).collect::<Vec<_>>()},
            "replay": replay}));
    }
    let (mut case_line, mut impl_line) = (None, None);
    if want_model && cx.cfg != Cfg::D4Alu {
        let mut wl: Vec<(String, Vec<u64>)> = cx.shape.names.iter().filter(|(_, n)| !n.starts_with('k')).map(|(s, n)| (n.clone(), f.w[*s as usize].limbs())).collect();
        wl.sort();
        let ws: Vec<String> = wl.iter().map(|(n, l)| format!("{n}:{}", dotted(l))).collect();
        perm_log.sort();
        perm_log.dedup();
        let ps: Vec<String> = perm_log.iter().map(|(i, o)| format!("{}>{}", dotted(i), dotted(o))).collect();
        // D=1: the committed capacity input cells of table row 0, length tag removed
        let cap0: Vec<u64> = if cx.cfg == Cfg::D1 {
            let pt = f.traces.non_primitive_traces.values().find_map(|t| t.as_any().downcast_ref::<Poseidon2Trace<F>>());
            let al = cx.shape.rows.iter().find_map(|r| if let Row::Perm { absorb_len, .. } = r { Some(*absorb_len) } else { None }).unwrap_or(0);
            pt.and_then(|t| t.operations.first()).map(|r| (RATE..WIDTH).map(|j| (r.input_values[j] - if j == RATE { F::from_u64(al) } else { F::ZERO }).as_canonical_u64()).collect()).unwrap_or_default()
        } else {
            vec![]
        };
        case_line = Some(format!("c06 {id} d={} hist={} shape={} w={} cap0={} perm={}", cx.cfg.d(), hist_str(&cx.hist), cx.shape.text, ws.join(","), dotted(&cap0), ps.join(";")));
        impl_line = Some(format!(
            "{id} shape=ok accept={} bound={} samples={} native={}",
            accepted as u8,
            bound as u8,
            smp.iter().map(|x| dotted(&x.limbs())).collect::<Vec<_>>().join(","),
            nat.iter().map(|x| x.as_canonical_u64().to_string()).collect::<Vec<_>>().join(",")
        ));
    }
    let outcome = match &o {
        Outcome::Accepted => "accepted".to_string(),
        other => format!("{}:{}", other.tag(), match other { Outcome::PrepError(e) | Outcome::ProveFailed(e) | Outcome::VerifyFailed(e) => e.clone(), _ => String::new() }),
    };
    CaseOut { case_line, impl_line, accepted, bound, outcome, broken, violation }
}

/// Corpus witnesses name their deviation relative to the shape (robust against renumbering):
/// {"kind": "unexposed-output", "perm": k, "values": [[..],..]} | {"kind": "recompose-output", "index": n, "value": [..]}
/// | {"kind": "sampled-hint-output", "sample": i, "value": [..]} | {"kind": "capacity-cell", "cells": [[k, j, v]]}
fn resolve_rel<EF: Prove>(cx: &Ctx<EF>, v: &Value) -> Option<Dev> {
    let vals = |x: &Value| -> Vec<u64> { x.as_array().map(|a| a.iter().filter_map(|y| y.as_u64()).collect()).unwrap_or_default() };
    let perms: Vec<&Row> = cx.shape.rows.iter().filter(|r| matches!(r, Row::Perm { .. })).collect();
    match v["kind"].as_str()? {
        "unexposed-output" => {
            let Row::Perm { hidden, .. } = perms.get(v["perm"].as_u64()? as usize)? else { return None };
            let mut d = Dev::default();
            for (h, x) in hidden.iter().zip(v["values"].as_array()?) {
                d.force.insert(*h, vals(x));
            }
            Some(d)
        }
        "recompose-output" => {
            let ins: Vec<u32> = perms.iter().flat_map(|r| if let Row::Perm { ins, .. } = r { ins.iter().flatten().copied().collect::<Vec<_>>() } else { vec![] }).collect();
            let outs: Vec<u32> = cx.shape.rows.iter().filter_map(|r| if let Row::Recompose { out, .. } = r { ins.contains(out).then_some(*out) } else { None }).collect();
            let mut d = Dev { free_recompose: true, ..Default::default() };
            d.force.insert(*outs.get(v["index"].as_u64()? as usize)?, vals(&v["value"]));
            Some(d)
        }
        "sampled-hint-output" => {
            let mut d = Dev { free_recompose: true, ..Default::default() };
            d.force.insert(*cx.built.smp_w.get(v["sample"].as_u64()? as usize)?, vals(&v["value"]));
            Some(d)
        }
        "capacity-cell" => Some(Dev { cap_cells: v["cells"].as_array()?.iter().filter_map(|t| Some((t[0].as_u64()? as usize, t[1].as_u64()? as usize, t[2].as_u64()?))).collect(), ..Default::default() }),
        _ => None,
    }
}

/// Deviation families for one circuit; `k` chooses the permutation / row / slot.
fn deviations<EF: Prove>(cx: &Ctx<EF>, rng: &mut Rng) -> Vec<(String, Dev, bool)> {
    let mut out: Vec<(String, Dev, bool)> = vec![("honest".into(), Dev::default(), true)];
    let d = cx.cfg.d();
    let rnd = |rng: &mut Rng| -> Vec<u64> { (0..d).map(|_| rng.below(2013265921)).collect() };
    let perms: Vec<&Row> = cx.shape.rows.iter().filter(|r| matches!(r, Row::Perm { .. })).collect();
    let recs: Vec<&Row> = cx.shape.rows.iter().filter(|r| matches!(r, Row::Recompose { .. })).collect();
    let hints: Vec<&Row> = cx.shape.rows.iter().filter(|r| matches!(r, Row::Hint { .. })).collect();
    let perm_inputs: Vec<u32> = perms.iter().flat_map(|r| if let Row::Perm { ins, .. } = r { ins.iter().flatten().copied().collect::<Vec<_>>() } else { vec![] }).collect();
    if cx.cfg != Cfg::D1 {
        // (A) non-exposed permutation outputs, consistently re-executed downstream
        if perms.len() >= 1 {
            let k = if perms.len() >= 2 { rng.usize(perms.len() - 1) } else { 0 };
            if let Row::Perm { hidden, .. } = perms[k] {
                let mut dv = Dev::default();
                for h in hidden {
                    dv.force.insert(*h, rnd(rng));
                }
                out.push((format!("unexposed-output:perm{k}"), dv, true));
            }
        }
        if cx.cfg == Cfg::D4Npo {
            // (B) the output of a recompose row that creates a permutation input
            let cands: Vec<u32> = recs.iter().filter_map(|r| if let Row::Recompose { out, .. } = r { perm_inputs.contains(out).then_some(*out) } else { None }).collect();
            if !cands.is_empty() {
                let s = *rng.pick(&cands);
                let mut dv = Dev { free_recompose: true, ..Default::default() };
                dv.force.insert(s, rnd(rng));
                out.push((format!("recompose-output:slot{s}"), dv, true));
            }
            // (C) a sampled decomposition-hint output
            let hint_outs: Vec<u32> = hints.iter().flat_map(|r| if let Row::Hint { outs, .. } = r { outs.clone() } else { vec![] }).collect();
            let sampled: Vec<u32> = cx.built.smp_w.iter().copied().filter(|s| hint_outs.contains(s)).collect();
            if !sampled.is_empty() {
                let s = *rng.pick(&sampled);
                let mut dv = Dev { free_recompose: true, ..Default::default() };
                dv.force.insert(s, vec![rng.below(2013265921), 0, 0, 0]);
                out.push((format!("hint-output:slot{s}"), dv, true));
            }
        }
    } else {
        // (E) non-exposed capacity outputs written to slots nobody reads
        if let Some(Row::Perm { hidden, .. }) = perms.first() {
            let mut dv = Dev::default();
            dv.force.insert(hidden[rng.usize(hidden.len())], rnd(rng));
            out.push(("unexposed-output:perm0".into(), dv, true));
        }
        // (F) an in-table capacity cell of a chained row, consistent downstream
        if perms.len() >= 2 {
            let k = 1 + rng.usize(perms.len() - 1);
            let dv = Dev { cap_cells: vec![(k, rng.usize(8), rng.below(2013265921))], ..Default::default() };
            out.push((format!("capacity-cell:perm{k}"), dv, true));
        }
        // (F') the zero capacity of the first row
        let dv = Dev { cap_cells: vec![(0, 1 + rng.usize(7), 1 + rng.below(1000))], ..Default::default() };
        out.push(("capacity-cell:perm0".into(), dv, true));
    }
    // (G) control: an exposed permutation output changed without propagation
    if let Some(Row::Perm { exposed, .. }) = perms.last() {
        let all_exposed: Vec<u32> = perms.iter().flat_map(|r| if let Row::Perm { exposed, .. } = r { exposed.clone() } else { vec![] }).collect();
        let sampled_exposed: Vec<u32> = cx.built.smp_w.iter().copied().filter(|s| all_exposed.contains(s)).collect();
        let s = if sampled_exposed.is_empty() { exposed[rng.usize(exposed.len())] } else { *rng.pick(&sampled_exposed) };
        let mut dv = Dev::default();
        dv.poke.insert(s, rnd(rng));
        out.push((format!("exposed-output-poke:slot{s}"), dv, true));
    }
    out
}

fn gen_hist(rng: &mut Rng, max_len: usize) -> Vec<H> {
    // favour rate-boundary lengths; always at least one sample after an observation
    let blocks = rng.range(1, 3);
    let mut h = vec![];
    for _ in 0..blocks {
        let n = *rng.pick(&[0usize, 1, 2, 7, 8, 8, 9, 3]);
        for _ in 0..n {
            h.push(H::Obs);
        }
        let s = *rng.pick(&[1usize, 1, 2, 1, 8, 9]);
        for _ in 0..s {
            h.push(H::Smp);
        }
        if h.len() > max_len {
            break;
        }
    }
    h.truncate(max_len.max(2));
    if !h.contains(&H::Smp) {
        h.push(H::Smp);
    }
    h
}

struct Acc {
    cases: Vec<String>,
    impls: Vec<String>,
    hist: BTreeMap<String, u64>,
    violations: Vec<Value>,
    samples: Vec<Value>,
    evals: usize,
    distinct: std::collections::HashSet<String>,
    audits: Vec<Value>,
    reproduced: Vec<String>,
    shrunk: std::collections::HashSet<String>,
}

/// Creator analysis on the real preprocessed columns: for every permutation output limb, which
/// table rows send its slot on the witness bus with a positive multiplicity.
fn role_audit<EF: Prove>(cx: &Ctx<EF>) -> Value {
    let d = cx.cfg.d() as u64;
    let rec = cx.prep.npo_cols.get("recompose").cloned().unwrap_or_default();
    let p = 2013265921u64;
    let mut rec_rows: HashMap<u64, Vec<i64>> = HashMap::new();
    for ch in rec.chunks(2) {
        let m = if ch[1] > p / 2 { ch[1] as i64 - p as i64 } else { ch[1] as i64 };
        rec_rows.entry(ch[0] / d).or_default().push(m);
    }
    let mut outs = vec![];
    let mut hidden_without_perm_creator = 0;
    let mut hidden_total = 0;
    for (k, r) in cx.shape.rows.iter().filter(|r| matches!(r, Row::Perm { .. })).enumerate() {
        if let Row::Perm { exposed, hidden, .. } = r {
            for (j, s) in exposed.iter().chain(hidden.iter()).enumerate() {
                let is_exposed = j < exposed.len();
                let rc = rec_rows.get(&(*s as u64)).cloned().unwrap_or_default();
                if !is_exposed {
                    hidden_total += 1;
                    hidden_without_perm_creator += 1;
                }
                if outs.len() < 8 {
                    outs.push(json!({"perm": k, "limb": j, "slot": s, "sent_by_poseidon_table": is_exposed, "recompose_rows_multiplicities": rc}));
                }
            }
        }
    }
    json!({"cfg": cx.cfg.name(), "hist": hist_str(&cx.hist), "unexposed_outputs": hidden_total,
        "unexposed_outputs_without_poseidon_creator": hidden_without_perm_creator, "first_outputs": outs,
        "npo_tables": cx.prep.npo_cols.iter().map(|(k, v)| (k.clone(), json!(v.len()))).collect::<serde_json::Map<_, _>>()})
}

fn run_circuit<EF: Prove>(acc: &mut Acc, cfg: Cfg, hist: &[H], obs_vals: &[u64], rng: &mut Rng, fixed: Option<(&str, Dev, Value)>, tag: &str)
where
    CircuitChallenger<WIDTH, RATE, Poseidon2Config>: RecursiveChallenger<F, EF>,
{
    let cx = match setup::<EF>(cfg, hist, obs_vals) {
        Ok(c) => c,
        Err(e) => {
            *acc.hist.entry(format!("{}.setup-failed", cfg.name())).or_default() += 1;
            acc.violations.push(json!({"property": "C06", "kind": "setup-failed", "class": format!("{}:honest-setup-failed", cfg.name()), "detail": e,
                "replay": {"cfg": cfg.name(), "hist": hist_str(hist), "obs": obs_vals, "dev": Dev::default().to_json()}}));
            return;
        }
    };
    acc.distinct.insert(format!("{}:{}", cfg.name(), hist_str(hist)));
    let nperm = cx.shape.rows.iter().filter(|r| matches!(r, Row::Perm { .. })).count();
    *acc.hist.entry(format!("circuits.{}.perm-rows.{}", cfg.name(), if nperm >= 4 { "4+".to_string() } else { nperm.to_string() })).or_default() += 1;
    *acc.hist.entry(format!("circuits.history-length.{}", match hist.len() { 0..=4 => "1-4", 5..=10 => "5-10", 11..=20 => "11-20", _ => "21+" })).or_default() += 1;
    if acc.audits.len() < 6 {
        acc.audits.push(role_audit(&cx));
    }
    let is_generated = fixed.is_none();
    let rng0 = rng.clone();
    let devs = match fixed {
        Some((n, d, rel)) => {
            let d = if rel.is_object() { resolve_rel(&cx, &rel).unwrap_or(d) } else { d };
            vec![(n.to_string(), d, true)]
        }
        None => deviations(&cx, rng),
    };
    for (name, dev, model) in devs {
        let id = format!("{tag}.{}", name.replace(':', "-"));
        let r = run_case(&cx, &id, &dev, obs_vals, model);
        acc.evals += 1;
        let fam = name.split(':').next().unwrap_or("").to_string();
        *acc.hist.entry(format!("{}.{}.{}.{}", cfg.name(), fam, if r.outcome.starts_with("accepted") { "accepted" } else if r.outcome.starts_with("inconsistent") { "inconsistent" } else { "rejected" }, if r.bound { "bound" } else { "unbound" })).or_default() += 1;
        if name == "honest" && !(r.accepted && r.bound) {
            acc.violations.push(json!({"property": "C06", "kind": "honest-trace-not-accepted-or-not-native", "class": format!("{}:honest-{}", cfg.name(), if r.accepted { "unbound" } else { "rejected" }),
                "detail": r.outcome, "replay": {"cfg": cfg.name(), "hist": hist_str(hist), "obs": obs_vals, "dev": dev.to_json()}}));
        }
        if let (Some(c), Some(i)) = (r.case_line, r.impl_line) {
            acc.cases.push(c);
            acc.impls.push(i);
        }
        if let Some(mut v) = r.violation {
            if tag.starts_with("corpus") {
                acc.reproduced.push(format!("{tag}:{}", v["class"].as_str().unwrap_or("")));
            }
            let class = v["class"].as_str().unwrap_or("").to_string();
            // shrink the history once per class: delete ops while the same family still yields
            // an accepted unbound proof of the same class
            if is_generated && acc.shrunk.insert(class.clone()) {
                let mut best: Vec<H> = hist.to_vec();
                let mut best_replay: Option<Value> = None;
                let mut attempts = 0;
                let mut progress = true;
                while progress && attempts < 24 {
                    progress = false;
                    for i in 0..best.len() {
                        if attempts >= 24 {
                            break;
                        }
                        let mut cand = best.clone();
                        cand.remove(i);
                        if !cand.contains(&H::Smp) {
                            continue;
                        }
                        attempts += 1;
                        let nobs = cand.iter().filter(|x| **x == H::Obs).count();
                        let obs2: Vec<u64> = obs_vals.iter().copied().take(nobs).collect();
                        let Ok(cx2) = setup::<EF>(cfg, &cand, &obs2) else { continue };
                        let mut r2 = rng0.clone();
                        let hit = deviations(&cx2, &mut r2).into_iter().filter(|(n, _, _)| n.split(':').next() == Some(fam.as_str())).find_map(|(_, d, _)| {
                            let rr = run_case(&cx2, "shrink", &d, &obs2, false);
                            rr.violation.filter(|vv| vv["class"].as_str() == Some(class.as_str()))
                        });
                        if let Some(vv) = hit {
                            best = cand;
                            best_replay = Some(vv["replay"].clone());
                            progress = true;
                            break;
                        }
                    }
                }
                if let Some(rp) = best_replay {
                    v["shrunk_from"] = json!(hist_str(hist));
                    v["replay"] = rp;
                }
            }
            acc.violations.push(v);
        }
        if acc.samples.len() < 6 {
            acc.samples.push(json!({"cfg": cfg.name(), "hist": hist_str(hist), "deviation": name, "outcome": r.outcome.chars().take(60).collect::<String>(), "bound": r.bound, "broken_relations": r.broken}));
        }
    }
}

pub fn main(args: &crate::Args) {
    let seed = args.u64("seed", 1);
    let scale = args.u64("scale", 4) as usize;
    let generate = args.u64("generate", 1) == 1;
    let out = args.str("out", "/tmp/p3r_c06");
    std::fs::create_dir_all(&out).unwrap();
    let mut rng = Rng::new(seed ^ 0xc06);
    let mut acc = Acc { cases: vec![], impls: vec![], hist: BTreeMap::new(), violations: vec![], samples: vec![], evals: 0, distinct: Default::default(), audits: vec![], reproduced: vec![], shrunk: Default::default() };
    if let Some(dir) = args.opt("corpus") {
        let mut files: Vec<_> = std::fs::read_dir(&dir).map(|d| d.filter_map(|e| e.ok()).map(|e| e.path()).collect()).unwrap_or_default();
        files.sort();
        for f in files {
            let Ok(txt) = std::fs::read_to_string(&f) else { continue };
            let Ok(v) = serde_json::from_str::<Value>(&txt) else { continue };
            let v = if v.get("cfg").is_some() { v } else { v["replay"].clone() };
            let Some(cfg) = v["cfg"].as_str().and_then(Cfg::parse) else { continue };
            let hist = hist_parse(v["hist"].as_str().unwrap_or(""));
            let obs: Vec<u64> = v["obs"].as_array().map(|a| a.iter().filter_map(|x| x.as_u64()).collect()).unwrap_or_default();
            let dev = Dev::from_json(&v["dev"]);
            let rel = v["rel"].clone();
            let tag = format!("corpus-{}", f.file_stem().unwrap().to_string_lossy());
            let mut r = rng.fork();
            match cfg {
                Cfg::D1 => run_circuit::<F>(&mut acc, cfg, &hist, &obs, &mut r, Some(("replay", dev, rel)), &tag),
                _ => run_circuit::<E4>(&mut acc, cfg, &hist, &obs, &mut r, Some(("replay", dev, rel)), &tag),
            }
        }
    }
    if generate {
        // fixed shapes first (the property's own example), then generated histories
        let mut hs: Vec<Vec<H>> = vec![hist_parse("oooooooosoooooooos"), hist_parse("osos")];
        for _ in 0..scale {
            hs.push(gen_hist(&mut rng, 30));
        }
        for (n, h) in hs.iter().enumerate() {
            let nobs = h.iter().filter(|x| **x == H::Obs).count();
            let obs: Vec<u64> = (0..nobs).map(|_| rng.below(2013265921)).collect();
            for cfg in [Cfg::D4Npo, Cfg::D1, Cfg::D4Alu] {
                if cfg == Cfg::D4Alu && n % 3 != 0 {
                    continue;
                }
                let mut r = rng.fork();
                let tag = format!("g{n}.{}", cfg.name());
                match cfg {
                    Cfg::D1 => run_circuit::<F>(&mut acc, cfg, h, &obs, &mut r, None, &tag),
                    _ => run_circuit::<E4>(&mut acc, cfg, h, &obs, &mut r, None, &tag),
                }
            }
        }
    }
    std::fs::write(format!("{out}/c06.cases"), acc.cases.join("\n") + "\n").unwrap();
    std::fs::write(format!("{out}/c06.impl"), acc.impls.join("\n") + "\n").unwrap();
    let report = json!({"evaluations": acc.evals, "distinct": acc.distinct.len(), "hist": acc.hist, "samples": acc.samples,
        "violations": acc.violations, "role_audit": acc.audits, "corpus_witnesses_reproduced": acc.reproduced, "seed": seed});
    std::fs::write(format!("{out}/c06.report.json"), serde_json::to_string_pretty(&report).unwrap()).unwrap();
    println!("binding: evals={} model-cases={} violations={}", acc.evals, acc.cases.len(), acc.violations.len());
}
