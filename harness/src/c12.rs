//! C12: bit / coefficient decompositions admit only the canonical witness.
//!
//! Every case builds a real circuit with `decompose_to_bits` / `decompose_ext_to_base_coeffs`,
//! optionally replaces the hint executor inside `circuit.ops` by one that writes the case's
//! (possibly non-canonical) values, runs the real runner, and for "full" cases calls the real
//! `prove_all_tables` + `verify_all_tables`. Output lines are in the format of the Lean driver
//! `p3r_driver_c12`; the oracle "accepted and not the honest hint's output" is judged here.

use std::collections::{BTreeMap, BTreeSet};
use std::io::Write;
use std::panic::{AssertUnwindSafe, catch_unwind};

use p3_baby_bear::BabyBear;
use p3_batch_stark::ProverData;
use p3_circuit::ops::{HintExecutor, Op, generate_recompose_trace};
use p3_circuit::{CircuitBuilder, CircuitError, WitnessId};
use p3_circuit_prover::common::get_airs_and_degrees_with_prep;
use p3_circuit_prover::config::{self, BabyBearConfig, GoldilocksConfig, KoalaBearConfig};
use p3_circuit_prover::{
    BatchStarkProver, CircuitProverData, ConstraintProfile, TablePacking, recompose_air_builders,
    recompose_preprocessor,
};
use p3_field::extension::{BinomialExtensionField, QuinticTrinomialExtensionField};
use p3_field::{BasedVectorSpace, Field, PrimeCharacteristicRing, PrimeField64};
use p3_goldilocks::Goldilocks;
use p3_koala_bear::KoalaBear;
use serde_json::{Value, json};

use crate::prog::err_name;
use crate::rng::Rng;

/// Hint executor that writes fixed values (same set-or-check discipline as the real hints).
#[derive(Debug, Clone)]
struct FixedHint<F> {
    vals: Vec<F>,
}

impl<F: Field> HintExecutor<F> for FixedHint<F> {
    fn execute(&self, _inputs: &[WitnessId], outputs: &[WitnessId], witness: &mut [Option<F>]) -> Result<(), CircuitError> {
        for (o, v) in outputs.iter().zip(self.vals.iter()) {
            let i = o.0 as usize;
            if i >= witness.len() {
                return Err(CircuitError::WitnessIdOutOfBounds { witness_id: *o });
            }
            match &witness[i] {
                Some(e) if *e != *v => {
                    return Err(CircuitError::WitnessConflict {
                        witness_id: *o,
                        existing: format!("{e:?}"),
                        new: format!("{v:?}"),
                        expr_ids: vec![],
                    });
                }
                Some(_) => {}
                None => witness[i] = Some(*v),
            }
        }
        Ok(())
    }
    fn boxed(&self) -> Box<dyn HintExecutor<F>> {
        Box::new(self.clone())
    }
}

fn modulus(f: &str) -> u128 {
    match f {
        "bb" => 2013265921,
        "kb" => 2130706433,
        "gl" => 18446744069414584321,
        _ => panic!("field"),
    }
}

fn bits_of(v: u128, n: usize) -> Vec<u64> {
    (0..n).map(|i| ((v >> i) & 1) as u64).collect()
}

/// Outcome of one case on the real code.
#[derive(Clone, Debug, Default)]
pub struct Outcome {
    pub run: String,
    pub accept: Option<bool>,
    pub canon: bool,
    pub honest: Vec<u64>,
    pub idx: Option<u64>,
    pub honest_idx: Option<u64>,
    pub stage: String,
    pub consumer: Vec<u64>,
}

macro_rules! base_field_impl {
    ($m:ident, $F:ty, $SC:ty, $cfg:path) => {
        mod $m {
            use super::*;
            type F = $F;

            /// Honest bit hint output of the real `BinaryDecompositionHint` (read back from the run).
            /// `x >= 2^n` makes the honest run fail; the hint output is then read from a second circuit
            /// without the `connect` (hint only).
            pub fn bits_case(n: usize, x: u64, vals: Option<&[u64]>, full: bool) -> Outcome {
                let mut b = CircuitBuilder::<F>::new();
                let xe = b.public_input();
                let bits = b.decompose_to_bits::<F>(xe, n).expect("decompose");
                let k = n.min(8);
                let idx = b.reconstruct_index_from_bits::<F>(&bits[..k]).expect("recon");
                b.tag(idx, "idx").ok();
                let mut circuit = b.build().expect("build");
                let bit_w: Vec<WitnessId> = bits.iter().map(|e| circuit.expr_to_widx[e]).collect();
                let mut out = Outcome::default();
                // honest hint output: run the untouched hint alone on a witness vector
                {
                    let xw = circuit.expr_to_widx[&xe];
                    let mut w: Vec<Option<F>> = vec![None; circuit.witness_count as usize];
                    w[xw.0 as usize] = Some(F::from_u64(x));
                    for op in circuit.ops.iter() {
                        if let Op::Hint { inputs, outputs, executor } = op {
                            executor.execute(inputs, outputs, &mut w).expect("honest hint");
                        }
                    }
                    out.honest = bit_w.iter().map(|i| w[i.0 as usize].map(|v| v.as_canonical_u64()).unwrap_or(u64::MAX)).collect();
                }
                let used: Vec<u64> = match vals {
                    Some(v) => v.to_vec(),
                    None => out.honest.clone(),
                };
                out.canon = used.iter().map(|v| F::from_u64(*v).as_canonical_u64()).collect::<Vec<_>>() == out.honest;
                if vals.is_some() {
                    let fv: Vec<F> = used.iter().map(|v| F::from_u64(*v)).collect();
                    for op in circuit.ops.iter_mut() {
                        if let Op::Hint { executor, .. } = op {
                            *executor = Box::new(FixedHint { vals: fv.clone() });
                        }
                    }
                }
                let mut runner = circuit.runner();
                runner.set_public_inputs(&[F::from_u64(x)]).expect("set pub");
                let traces = match runner.run() {
                    Ok(t) => t,
                    Err(e) => {
                        out.run = err_name(&e);
                        out.accept = if full { Some(false) } else { None };
                        out.stage = "run".into();
                        return out;
                    }
                };
                out.run = "ok".into();
                out.idx = traces.probe("idx").map(|v| v.as_canonical_u64());
                out.honest_idx = Some(out.honest.iter().take(k).enumerate().map(|(i, b)| b << i).sum());
                if !full {
                    return out;
                }
                let cfg = $cfg();
                let prep = get_airs_and_degrees_with_prep::<$SC, F, 1>(&circuit, &TablePacking::default(), &[], &[], ConstraintProfile::Standard);
                let Ok((airs_degrees, prim, nonprim)) = prep else {
                    out.accept = Some(false);
                    out.stage = "prep".into();
                    return out;
                };
                let (airs, degs): (Vec<_>, Vec<usize>) = airs_degrees.into_iter().unzip();
                let pd = ProverData::from_airs_and_degrees(&cfg, &airs, &degs);
                let cpd = CircuitProverData::new(pd, prim, nonprim);
                let prover = BatchStarkProver::new(cfg);
                let proof = catch_unwind(AssertUnwindSafe(|| prover.prove_all_tables(&traces, &cpd)));
                let proof = match proof {
                    Ok(Ok(p)) => p,
                    _ => {
                        out.accept = Some(false);
                        out.stage = "prove".into();
                        return out;
                    }
                };
                let ver = catch_unwind(AssertUnwindSafe(|| prover.verify_all_tables::<F>(&proof)));
                out.accept = Some(matches!(ver, Ok(Ok(()))));
                out.stage = "verify".into();
                out
            }

            /// (ALU rows, witness slots) of the circuit `x = public; decompose_to_bits(x, n)`.
            pub fn cost(n: usize) -> (usize, u32) {
                let mut b = CircuitBuilder::<F>::new();
                let xe = b.public_input();
                b.decompose_to_bits::<F>(xe, n).expect("decompose");
                let c = b.build().expect("build");
                (c.ops.iter().filter(|o| matches!(o, Op::Alu { .. })).count(), c.witness_count)
            }

            /// Value of the real `reconstruct_index_from_bits` chain on arbitrary slot contents.
            pub fn recon_case(vals: &[u64]) -> Option<u64> {
                let mut b = CircuitBuilder::<F>::new();
                let ins: Vec<_> = (0..vals.len()).map(|_| b.public_input()).collect();
                let r = b.reconstruct_index_from_bits::<F>(&ins).ok()?;
                b.tag(r, "r").ok()?;
                let circuit = b.build().ok()?;
                let mut runner = circuit.runner();
                runner.set_public_inputs(&vals.iter().map(|v| F::from_u64(*v)).collect::<Vec<_>>()).ok()?;
                let t = runner.run().ok()?;
                t.probe("r").map(|v| v.as_canonical_u64())
            }
        }
    };
}

base_field_impl!(bb1, BabyBear, BabyBearConfig, config::baby_bear);
base_field_impl!(kb1, KoalaBear, KoalaBearConfig, config::koala_bear);
base_field_impl!(gl1, Goldilocks, GoldilocksConfig, config::goldilocks);

macro_rules! ext_field_impl {
    ($m:ident, $BF:ty, $EF:ty, $D:expr, $SC:ty, $cfg:path) => {
        #[allow(dead_code)]
        mod $m {
            use super::*;
            type BF = $BF;
            type EF = $EF;
            pub const D: usize = $D;

            fn ef(l: &[u64]) -> EF {
                let v: Vec<BF> = l.iter().map(|x| BF::from_u64(*x)).collect();
                EF::from_basis_coefficients_slice(&v).expect("limbs")
            }
            fn limbs(e: &EF) -> Vec<u64> {
                <EF as BasedVectorSpace<BF>>::as_basis_coefficients_slice(e).iter().map(|c| c.as_canonical_u64()).collect()
            }
            pub fn w() -> u64 {
                // X^D = W: read it off the real arithmetic
                let mut e = vec![0u64; D];
                e[1] = 1;
                let x = ef(&e);
                let mut p = EF::ONE;
                for _ in 0..D {
                    p *= x;
                }
                limbs(&p)[0]
            }

            /// mode: "alu" (no table), "npo" (recompose table), "npoc" (recompose/coeff table).
            /// `cs`: D*D limbs of the D hinted coefficient slots, or None for the honest hint.
            /// `cons`: "a" = every coefficient slot is consumed in the `a`/`c` position of an ALU row
            /// (first use creates the slot on the bus); "b" = consumed in the `b` position (a bus read).
            pub fn coef_case(mode: &str, cons: &str, x: &[u64], cs: Option<&[u64]>, full: bool) -> Outcome {
                let mut b = CircuitBuilder::<EF>::new();
                if mode != "alu" {
                    b.enable_recompose::<BF>(generate_recompose_trace::<BF, EF>);
                }
                if mode == "npoc" {
                    b.set_recompose_coeff_ctl_for_decompose_links(true);
                }
                let xe = b.public_input();
                let coeffs = b.decompose_ext_to_base_coeffs::<BF>(xe).expect("decompose");
                // a consumer of every coefficient slot (what the challenger / hash absorb does)
                let two = b.define_const(EF::TWO);
                let mut s = if cons == "b" { b.define_const(EF::ONE) } else { coeffs[0] };
                for c in &coeffs[if cons == "b" { 0 } else { 1 }..] {
                    s = if cons == "b" { b.mul_add(two, *c, s) } else { b.mul_add(s, two, *c) };
                }
                b.tag(s, "s").ok();
                let mut circuit = b.build().expect("build");
                let cw: Vec<WitnessId> = coeffs.iter().map(|e| circuit.expr_to_widx[e]).collect();
                let mut out = Outcome::default();
                {
                    let xw = circuit.expr_to_widx[&xe];
                    let mut w: Vec<Option<EF>> = vec![None; circuit.witness_count as usize];
                    w[xw.0 as usize] = Some(ef(x));
                    for op in circuit.ops.iter() {
                        if let Op::Hint { inputs, outputs, executor } = op {
                            executor.execute(inputs, outputs, &mut w).expect("honest hint");
                        }
                    }
                    out.honest = cw.iter().flat_map(|i| w[i.0 as usize].map(|v| limbs(&v)).unwrap_or(vec![u64::MAX; D])).collect();
                }
                let used: Vec<u64> = match cs {
                    Some(v) => v.to_vec(),
                    None => out.honest.clone(),
                };
                let fv: Vec<EF> = used.chunks(D).map(ef).collect();
                out.canon = fv.iter().flat_map(limbs).collect::<Vec<_>>() == out.honest;
                if cs.is_some() {
                    for op in circuit.ops.iter_mut() {
                        if let Op::Hint { executor, .. } = op {
                            *executor = Box::new(FixedHint { vals: fv.clone() });
                        }
                    }
                }
                let mut runner = circuit.runner();
                runner.set_public_inputs(&[ef(x)]).expect("set pub");
                let traces = match runner.run() {
                    Ok(t) => t,
                    Err(e) => {
                        out.run = err_name(&e);
                        out.accept = if full { Some(false) } else { None };
                        out.stage = "run".into();
                        return out;
                    }
                };
                out.run = "ok".into();
                out.consumer = traces.probe("s").map(limbs).unwrap_or_default();
                if !full {
                    return out;
                }
                let cfg = $cfg();
                let split = mode == "npoc";
                let preps = if mode == "alu" { vec![] } else { vec![recompose_preprocessor::<BF>(split)] };
                let builders = if mode == "alu" { vec![] } else { recompose_air_builders::<$SC, $D>(1, split) };
                let prep = get_airs_and_degrees_with_prep::<$SC, EF, $D>(&circuit, &TablePacking::default(), &preps, &builders, ConstraintProfile::Standard);
                let Ok((airs_degrees, prim, nonprim)) = prep else {
                    out.accept = Some(false);
                    out.stage = "prep".into();
                    return out;
                };
                let (airs, degs): (Vec<_>, Vec<usize>) = airs_degrees.into_iter().unzip();
                let pd = ProverData::from_airs_and_degrees(&cfg, &airs, &degs);
                let cpd = CircuitProverData::new(pd, prim, nonprim);
                let mut prover = BatchStarkProver::new(cfg);
                if mode != "alu" {
                    prover.register_recompose_table::<$D>(split);
                }
                let proof = catch_unwind(AssertUnwindSafe(|| prover.prove_all_tables(&traces, &cpd)));
                let proof = match proof {
                    Ok(Ok(p)) => p,
                    _ => {
                        out.accept = Some(false);
                        out.stage = "prove".into();
                        return out;
                    }
                };
                let ver = catch_unwind(AssertUnwindSafe(|| prover.verify_all_tables::<EF>(&proof)));
                out.accept = Some(matches!(ver, Ok(Ok(()))));
                out.stage = "verify".into();
                out
            }

            /// Value of the real ALU recomposition chain on arbitrary extension-valued slots.
            pub fn erecon_case(cs: &[u64]) -> Option<Vec<u64>> {
                let mut b = CircuitBuilder::<EF>::new();
                let ins: Vec<_> = (0..D).map(|_| b.public_input()).collect();
                let r = b.recompose_base_coeffs_to_ext_via_alu::<BF>(&ins).ok()?;
                b.tag(r, "r").ok()?;
                let circuit = b.build().ok()?;
                let mut runner = circuit.runner();
                runner.set_public_inputs(&cs.chunks(D).map(ef).collect::<Vec<_>>()).ok()?;
                let t = runner.run().ok()?;
                t.probe("r").map(limbs)
            }

            /// Reduction vector of the modulus: limbs of `X^D`, read off the real arithmetic.
            pub fn red() -> Vec<u64> {
                let mut e = vec![0u64; D];
                e[1 % D] = 1;
                let x = if D == 1 { EF::ONE } else { ef(&e) };
                let mut p = EF::ONE;
                for _ in 0..D {
                    p *= x;
                }
                limbs(&p)
            }

            /// `decompose_to_bits::<BF>(x, n)` over the extension-field circuit (all limbs, `n <= EF::bits()`).
            /// `vals`: `n` extension-valued slot contents (`n*D` limbs) or None for the honest hint.
            /// Returns None when the builder refuses the width.
            pub fn mbits_case(n: usize, x: &[u64], vals: Option<&[u64]>, full: bool) -> Option<Outcome> {
                let mut b = CircuitBuilder::<EF>::new();
                let xe = b.public_input();
                let bits = b.decompose_to_bits::<BF>(xe, n).ok()?;
                let k = n.min(8);
                let idx = b.reconstruct_index_from_bits::<BF>(&bits[..k]).expect("recon");
                b.tag(idx, "idx").ok();
                let mut circuit = b.build().expect("build");
                let bit_w: Vec<WitnessId> = bits.iter().map(|e| circuit.expr_to_widx[e]).collect();
                let mut out = Outcome::default();
                {
                    let xw = circuit.expr_to_widx[&xe];
                    let mut w: Vec<Option<EF>> = vec![None; circuit.witness_count as usize];
                    w[xw.0 as usize] = Some(ef(x));
                    for op in circuit.ops.iter() {
                        if let Op::Hint { inputs, outputs, executor } = op {
                            executor.execute(inputs, outputs, &mut w).expect("honest hint");
                        }
                    }
                    out.honest = bit_w.iter().flat_map(|i| w[i.0 as usize].map(|v| limbs(&v)).unwrap_or(vec![u64::MAX; D])).collect();
                }
                let used: Vec<u64> = match vals {
                    Some(v) => v.to_vec(),
                    None => out.honest.clone(),
                };
                let fv: Vec<EF> = used.chunks(D).map(ef).collect();
                out.canon = fv.iter().flat_map(limbs).collect::<Vec<_>>() == out.honest;
                if vals.is_some() {
                    for op in circuit.ops.iter_mut() {
                        if let Op::Hint { executor, .. } = op {
                            *executor = Box::new(FixedHint { vals: fv.clone() });
                        }
                    }
                }
                let mut runner = circuit.runner();
                runner.set_public_inputs(&[ef(x)]).expect("set pub");
                let traces = match runner.run() {
                    Ok(t) => t,
                    Err(e) => {
                        out.run = err_name(&e);
                        out.accept = if full { Some(false) } else { None };
                        out.stage = "run".into();
                        return Some(out);
                    }
                };
                out.run = "ok".into();
                out.consumer = traces.probe("idx").map(limbs).unwrap_or_default();
                if !full {
                    return Some(out);
                }
                let cfg = $cfg();
                let prep = get_airs_and_degrees_with_prep::<$SC, EF, $D>(&circuit, &TablePacking::default(), &[], &[], ConstraintProfile::Standard);
                let Ok((airs_degrees, prim, nonprim)) = prep else {
                    out.accept = Some(false);
                    out.stage = "prep".into();
                    return Some(out);
                };
                let (airs, degs): (Vec<_>, Vec<usize>) = airs_degrees.into_iter().unzip();
                let pd = ProverData::from_airs_and_degrees(&cfg, &airs, &degs);
                let cpd = CircuitProverData::new(pd, prim, nonprim);
                let prover = BatchStarkProver::new(cfg);
                let proof = catch_unwind(AssertUnwindSafe(|| prover.prove_all_tables(&traces, &cpd)));
                let proof = match proof {
                    Ok(Ok(p)) => p,
                    _ => {
                        out.accept = Some(false);
                        out.stage = "prove".into();
                        return Some(out);
                    }
                };
                let ver = catch_unwind(AssertUnwindSafe(|| prover.verify_all_tables::<EF>(&proof)));
                out.accept = Some(matches!(ver, Ok(Ok(()))));
                out.stage = "verify".into();
                Some(out)
            }

            /// Value of the real all-limb `reconstruct_index_from_bits` chain on arbitrary
            /// extension-valued slot contents.
            pub fn mrecon_case(slots: &[u64]) -> Option<Vec<u64>> {
                let mut b = CircuitBuilder::<EF>::new();
                let m = slots.len() / D;
                let ins: Vec<_> = (0..m).map(|_| b.public_input()).collect();
                let r = b.reconstruct_index_from_bits::<BF>(&ins).ok()?;
                b.tag(r, "r").ok()?;
                let circuit = b.build().ok()?;
                let mut runner = circuit.runner();
                runner.set_public_inputs(&slots.chunks(D).map(ef).collect::<Vec<_>>()).ok()?;
                let t = runner.run().ok()?;
                t.probe("r").map(limbs)
            }
        }
    };
}

ext_field_impl!(bb4, BabyBear, BinomialExtensionField<BabyBear, 4>, 4, BabyBearConfig, config::baby_bear);
ext_field_impl!(kb4, KoalaBear, BinomialExtensionField<KoalaBear, 4>, 4, KoalaBearConfig, config::koala_bear);
ext_field_impl!(gl2, Goldilocks, BinomialExtensionField<Goldilocks, 2>, 2, GoldilocksConfig, config::goldilocks);
// every other extension the prover dispatches on (`dispatch_by_ext_degree`: 5, 8) that p3 provides
ext_field_impl!(kb5q, KoalaBear, QuinticTrinomialExtensionField<KoalaBear>, 5, KoalaBearConfig, config::koala_bear);
ext_field_impl!(bb5, BabyBear, BinomialExtensionField<BabyBear, 5>, 5, BabyBearConfig, config::baby_bear);
ext_field_impl!(bb8, BabyBear, BinomialExtensionField<BabyBear, 8>, 8, BabyBearConfig, config::baby_bear);
ext_field_impl!(kb8, KoalaBear, BinomialExtensionField<KoalaBear, 8>, 8, KoalaBearConfig, config::koala_bear);
ext_field_impl!(gl5, Goldilocks, BinomialExtensionField<Goldilocks, 5>, 5, GoldilocksConfig, config::goldilocks);

/// Extension instances of the generalised cases: name -> (base field tag, D).
const INSTS: [(&str, &str, usize); 8] = [
    ("kb5q", "kb", 5), ("bb5", "bb", 5), ("bb8", "bb", 8), ("kb8", "kb", 8), ("gl5", "gl", 5),
    ("bb4", "bb", 4), ("kb4", "kb", 4), ("gl2", "gl", 2),
];
fn inst_of(i: &str) -> (&'static str, usize) {
    INSTS.iter().find(|t| t.0 == i).map(|t| (t.1, t.2)).expect("instance")
}
macro_rules! inst_dispatch {
    ($i:expr, $f:ident ( $($a:expr),* )) => {
        match $i {
            "kb5q" => kb5q::$f($($a),*),
            "bb5" => bb5::$f($($a),*),
            "bb8" => bb8::$f($($a),*),
            "kb8" => kb8::$f($($a),*),
            "gl5" => gl5::$f($($a),*),
            "bb4" => bb4::$f($($a),*),
            "kb4" => kb4::$f($($a),*),
            "gl2" => gl2::$f($($a),*),
            _ => panic!("instance"),
        }
    };
}
fn red_i(i: &str) -> Vec<u64> {
    inst_dispatch!(i, red())
}
fn coef_case_i(i: &str, mode: &str, cons: &str, x: &[u64], cs: Option<&[u64]>, full: bool) -> Outcome {
    inst_dispatch!(i, coef_case(mode, cons, x, cs, full))
}
fn erecon_case_i(i: &str, cs: &[u64]) -> Option<Vec<u64>> {
    inst_dispatch!(i, erecon_case(cs))
}
fn mbits_case_i(i: &str, n: usize, x: &[u64], vals: Option<&[u64]>, full: bool) -> Option<Outcome> {
    inst_dispatch!(i, mbits_case(n, x, vals, full))
}
fn mrecon_case_i(i: &str, slots: &[u64]) -> Option<Vec<u64>> {
    inst_dispatch!(i, mrecon_case(slots))
}

/// In-situ replay: the real `CircuitChallenger::sample_bits` (BabyBear, D=4 circuit, Poseidon2
/// width 16) after observing `obs`; optionally the 31-output `BinaryDecompositionHint` inside it is
/// replaced by one writing `vals`. Returns the sampled base element and the outcome.
mod chal {
    use p3_baby_bear::default_babybear_poseidon2_16;
    use p3_circuit::ops::{Poseidon2Config, generate_poseidon2_trace};
    use p3_circuit_prover::batch_stark_prover::{Poseidon2Preprocessor, poseidon2_air_builders};
    use p3_circuit_prover::common::NpoPreprocessor;
    use p3_poseidon2_circuit_air::BabyBearD4Width16;
    use p3_recursion::CircuitChallenger;
    use p3_recursion::traits::RecursiveChallenger;

    use super::*;
    type BF = BabyBear;
    type EF = BinomialExtensionField<BF, 4>;

    pub fn chal_case(obs: &[u64], k: usize, vals: Option<&[u64]>, full: bool) -> (u64, Outcome) {
        let mut b = CircuitBuilder::<EF>::new();
        b.enable_poseidon2_perm::<BabyBearD4Width16, _>(generate_poseidon2_trace::<EF, BabyBearD4Width16>, default_babybear_poseidon2_16());
        b.enable_recompose::<BF>(generate_recompose_trace::<BF, EF>);
        let mut ch = CircuitChallenger::<16, 8, Poseidon2Config>::new_babybear();
        let ins: Vec<_> = obs.iter().map(|_| b.public_input()).collect();
        for t in &ins {
            RecursiveChallenger::<BF, EF>::observe(&mut ch, &mut b, *t);
        }
        let bits = RecursiveChallenger::<BF, EF>::sample_bits(&mut ch, &mut b, k).expect("sample_bits");
        // a consumer of the index bits (what the FRI verifier does with them)
        let idx = b.reconstruct_index_from_bits::<BF>(&bits).expect("recon");
        b.tag(idx, "idx").ok();
        let mut circuit = b.build().expect("build");
        let pubs: Vec<EF> = obs.iter().map(|v| EF::from(BF::from_u64(*v))).collect();
        let mut out = Outcome::default();
        // honest run: sample value = input slot of the 31-output hint
        let (sample, honest_bits, honest_idx) = {
            let mut r = circuit.runner();
            r.set_public_inputs(&pubs).expect("pubs");
            let t = r.run().expect("honest challenger run");
            let mut sample = 0u64;
            let mut hb = vec![];
            for op in &circuit.ops {
                if let Op::Hint { inputs, outputs, .. } = op {
                    if outputs.len() == 31 {
                        let v = t.witness_trace.get_value(inputs[0]).expect("sample");
                        sample = <EF as BasedVectorSpace<BF>>::as_basis_coefficients_slice(v)[0].as_canonical_u64();
                        hb = outputs.iter().map(|o| <EF as BasedVectorSpace<BF>>::as_basis_coefficients_slice(t.witness_trace.get_value(*o).unwrap())[0].as_canonical_u64()).collect();
                    }
                }
            }
            let idx = t.probe("idx").map(|v| <EF as BasedVectorSpace<BF>>::as_basis_coefficients_slice(v)[0].as_canonical_u64());
            (sample, hb, idx)
        };
        out.honest = honest_bits;
        out.honest_idx = honest_idx;
        let used: Vec<u64> = vals.map(|v| v.to_vec()).unwrap_or(out.honest.clone());
        out.canon = used == out.honest;
        if vals.is_some() {
            let fv: Vec<EF> = used.iter().map(|v| EF::from(BF::from_u64(*v))).collect();
            for op in circuit.ops.iter_mut() {
                if let Op::Hint { outputs, executor, .. } = op {
                    if outputs.len() == 31 {
                        *executor = Box::new(FixedHint { vals: fv.clone() });
                    }
                }
            }
        }
        let mut runner = circuit.runner();
        runner.set_public_inputs(&pubs).expect("pubs");
        let traces = match runner.run() {
            Ok(t) => t,
            Err(e) => {
                out.run = err_name(&e);
                out.accept = if full { Some(false) } else { None };
                out.stage = "run".into();
                return (sample, out);
            }
        };
        out.run = "ok".into();
        out.idx = traces.probe("idx").map(|v| <EF as BasedVectorSpace<BF>>::as_basis_coefficients_slice(v)[0].as_canonical_u64());
        if !full {
            return (sample, out);
        }
        let cfg = config::baby_bear();
        let preps: Vec<Box<dyn NpoPreprocessor<BF>>> = vec![Box::new(Poseidon2Preprocessor), recompose_preprocessor::<BF>(false)];
        let mut builders = poseidon2_air_builders::<BabyBearConfig, 4>();
        builders.extend(recompose_air_builders::<BabyBearConfig, 4>(1, false));
        let prep = get_airs_and_degrees_with_prep::<BabyBearConfig, EF, 4>(&circuit, &TablePacking::default(), &preps, &builders, ConstraintProfile::Standard);
        let Ok((airs_degrees, prim, nonprim)) = prep else {
            out.accept = Some(false);
            out.stage = "prep".into();
            return (sample, out);
        };
        let (airs, degs): (Vec<_>, Vec<usize>) = airs_degrees.into_iter().unzip();
        let pd = ProverData::from_airs_and_degrees(&cfg, &airs, &degs);
        let cpd = CircuitProverData::new(pd, prim, nonprim);
        let mut prover = BatchStarkProver::new(cfg);
        prover.register_poseidon2_table::<4>(Poseidon2Config::BABY_BEAR_D4_W16);
        prover.register_recompose_table::<4>(false);
        let proof = catch_unwind(AssertUnwindSafe(|| prover.prove_all_tables(&traces, &cpd)));
        let proof = match proof {
            Ok(Ok(p)) => p,
            _ => {
                out.accept = Some(false);
                out.stage = "prove".into();
                return (sample, out);
            }
        };
        let ver = catch_unwind(AssertUnwindSafe(|| prover.verify_all_tables::<EF>(&proof)));
        out.accept = Some(matches!(ver, Ok(Ok(()))));
        out.stage = "verify".into();
        (sample, out)
    }
}

fn bits_case(f: &str, n: usize, x: u64, vals: Option<&[u64]>, full: bool) -> Outcome {
    match f {
        "bb" => bb1::bits_case(n, x, vals, full),
        "kb" => kb1::bits_case(n, x, vals, full),
        _ => gl1::bits_case(n, x, vals, full),
    }
}
fn recon_case(f: &str, v: &[u64]) -> Option<u64> {
    match f {
        "bb" => bb1::recon_case(v),
        "kb" => kb1::recon_case(v),
        _ => gl1::recon_case(v),
    }
}
fn ext_d(f: &str) -> usize {
    if f == "gl" { 2 } else { 4 }
}
fn ext_w(f: &str) -> u64 {
    match f {
        "bb" => bb4::w(),
        "kb" => kb4::w(),
        _ => gl2::w(),
    }
}
fn coef_case(f: &str, mode: &str, cons: &str, x: &[u64], cs: Option<&[u64]>, full: bool) -> Outcome {
    match f {
        "bb" => bb4::coef_case(mode, cons, x, cs, full),
        "kb" => kb4::coef_case(mode, cons, x, cs, full),
        _ => gl2::coef_case(mode, cons, x, cs, full),
    }
}
fn erecon_case(f: &str, cs: &[u64]) -> Option<Vec<u64>> {
    match f {
        "bb" => bb4::erecon_case(cs),
        "kb" => kb4::erecon_case(cs),
        _ => gl2::erecon_case(cs),
    }
}

fn nums(v: &[u64]) -> String {
    v.iter().map(|x| x.to_string()).collect::<Vec<_>>().join(" ")
}

fn b01(b: bool) -> &'static str {
    if b { "1" } else { "0" }
}

/// One generated / replayed case.
#[derive(Clone, Debug)]
enum Case {
    Hint { f: String, n: usize, x: u64 },
    Recon { f: String, v: Vec<u64> },
    Bits { f: String, n: usize, x: u64, v: Vec<u64>, full: bool, how: String },
    EHint { f: String, x: Vec<u64> },
    /// in-situ `CircuitChallenger::sample_bits(k)` after observing `obs` (BabyBear D=4); `dev`: hint writes bits of sample + dev*p
    Chal { obs: Vec<u64>, k: usize, dev: u64, full: bool },
    ERecon { f: String, c: Vec<u64> },
    Coef { f: String, mode: String, cons: String, x: Vec<u64>, c: Vec<u64>, full: bool, how: String },
    /// general modulus / any D: ALU chain value on arbitrary slot contents, instance `i` of INSTS
    GERecon { i: String, c: Vec<u64> },
    GCoef { i: String, mode: String, cons: String, x: Vec<u64>, c: Vec<u64>, full: bool, how: String },
    /// multi-limb bits over the extension-field circuit of instance `i`
    MHint { i: String, n: usize, x: Vec<u64> },
    MRecon { i: String, s: Vec<u64> },
    MBits { i: String, n: usize, x: Vec<u64>, v: Vec<u64>, full: bool, how: String },
}

impl Case {
    fn line(&self) -> String {
        match self {
            Case::Hint { f, n, x } => format!("hint {f} {n} {x}"),
            Case::Recon { f, v } => format!("recon {f} : {}", nums(v)),
            Case::Bits { f, n, x, v, full, .. } => format!("{} {f} {n} {x} : {}", if *full { "bits" } else { "bitsrun" }, nums(v)),
            Case::EHint { f, x } => format!("ehint {f} {} : {}", ext_d(f), nums(x)),
            Case::Chal { .. } => String::new(), // line is produced after the honest run (needs the sample)
            Case::ERecon { f, c } => format!("erecon {f} {} {} : {}", ext_d(f), ext_w(f), nums(c)),
            Case::Coef { f, mode, cons, x, c, full, .. } => {
                format!("{} {f} {} {} {mode} {cons} {} : {}", if *full { "coef" } else { "coefrun" }, ext_d(f), ext_w(f), nums(x), nums(c))
            }
            Case::GERecon { i, c } => {
                let (f, d) = inst_of(i);
                format!("gerecon {f} {d} {} : {}", nums(&red_i(i)), nums(c))
            }
            Case::GCoef { i, mode, cons, x, c, full, .. } => {
                let (f, d) = inst_of(i);
                format!("{} {f} {d} {} {mode} {cons} {} : {}", if *full { "gcoef" } else { "gcoefrun" }, nums(&red_i(i)), nums(x), nums(c))
            }
            Case::MHint { i, n, x } => {
                let (f, d) = inst_of(i);
                format!("mhint {f} {d} {n} : {}", nums(x))
            }
            Case::MRecon { i, s } => {
                let (f, d) = inst_of(i);
                format!("mrecon {f} {d} {} : {}", nums(&red_i(i)), nums(s))
            }
            Case::MBits { i, n, x, v, full, .. } => {
                let (f, d) = inst_of(i);
                format!("{} {f} {d} {} {n} {} : {}", if *full { "mbits" } else { "mbitsrun" }, nums(&red_i(i)), nums(x), nums(v))
            }
        }
    }
    fn json(&self) -> Value {
        match self {
            Case::Hint { f, n, x } => json!({"kind":"hint","field":f,"n":n,"x":x}),
            Case::Recon { f, v } => json!({"kind":"recon","field":f,"v":v}),
            Case::Bits { f, n, x, v, full, how } => json!({"kind":"bits","field":f,"n":n,"x":x,"v":v,"full":full,"how":how}),
            Case::EHint { f, x } => json!({"kind":"ehint","field":f,"x":x}),
            Case::Chal { obs, k, dev, full } => json!({"kind":"chal","field":"bb","obs":obs,"k":k,"dev":dev,"full":full}),
            Case::ERecon { f, c } => json!({"kind":"erecon","field":f,"c":c}),
            Case::Coef { f, mode, cons, x, c, full, how } => json!({"kind":"coef","field":f,"mode":mode,"cons":cons,"x":x,"c":c,"full":full,"how":how}),
            Case::GERecon { i, c } => json!({"kind":"gerecon","field":inst_of(i).0,"inst":i,"c":c}),
            Case::GCoef { i, mode, cons, x, c, full, how } => json!({"kind":"gcoef","field":inst_of(i).0,"inst":i,"mode":mode,"cons":cons,"x":x,"c":c,"full":full,"how":how}),
            Case::MHint { i, n, x } => json!({"kind":"mhint","field":inst_of(i).0,"inst":i,"n":n,"x":x}),
            Case::MRecon { i, s } => json!({"kind":"mrecon","field":inst_of(i).0,"inst":i,"s":s}),
            Case::MBits { i, n, x, v, full, how } => json!({"kind":"mbits","field":inst_of(i).0,"inst":i,"n":n,"x":x,"v":v,"full":full,"how":how}),
        }
    }
    fn from_json(v: &Value) -> Option<Case> {
        let f = v["field"].as_str()?.to_string();
        let arr = |k: &str| -> Option<Vec<u64>> { v[k].as_array()?.iter().map(|x| x.as_u64()).collect() };
        match v["kind"].as_str()? {
            "hint" => Some(Case::Hint { f, n: v["n"].as_u64()? as usize, x: v["x"].as_u64()? }),
            "recon" => Some(Case::Recon { f, v: arr("v")? }),
            "bits" => {
                let n = v["n"].as_u64()? as usize;
                let x = v["x"].as_u64()?;
                let vals = match arr("v") {
                    Some(a) => a,
                    None => bits_of(x as u128 + v["k"].as_u64()? as u128 * modulus(&f), n),
                };
                Some(Case::Bits { f, n, x, v: vals, full: v["full"].as_bool().unwrap_or(true), how: v["how"].as_str().unwrap_or("replay").to_string() })
            }
            "ehint" => Some(Case::EHint { f, x: arr("x")? }),
            "chal" => Some(Case::Chal { obs: arr("obs")?, k: v["k"].as_u64()? as usize, dev: v["dev"].as_u64().unwrap_or(1), full: v["full"].as_bool().unwrap_or(true) }),
            "erecon" => Some(Case::ERecon { f, c: arr("c")? }),
            "coef" => Some(Case::Coef { f, mode: v["mode"].as_str()?.to_string(), cons: v["cons"].as_str().unwrap_or("a").to_string(), x: arr("x")?, c: arr("c")?, full: v["full"].as_bool().unwrap_or(true), how: v["how"].as_str().unwrap_or("replay").to_string() }),
            "gerecon" | "gcoef" | "mhint" | "mrecon" | "mbits" => {
                let i = v["inst"].as_str()?.to_string();
                if !INSTS.iter().any(|t| t.0 == i) {
                    return None;
                }
                let full = v["full"].as_bool().unwrap_or(true);
                let how = v["how"].as_str().unwrap_or("replay").to_string();
                match v["kind"].as_str()? {
                    "gerecon" => Some(Case::GERecon { i, c: arr("c")? }),
                    "gcoef" => Some(Case::GCoef { i, mode: v["mode"].as_str()?.to_string(), cons: v["cons"].as_str().unwrap_or("a").to_string(), x: arr("x")?, c: arr("c")?, full, how }),
                    "mhint" => Some(Case::MHint { i, n: v["n"].as_u64()? as usize, x: arr("x")? }),
                    "mrecon" => Some(Case::MRecon { i, s: arr("s")? }),
                    _ => Some(Case::MBits { i, n: v["n"].as_u64()? as usize, x: arr("x")?, v: arr("v")?, full, how }),
                }
            }
            _ => None,
        }
    }
}

fn rand_elem(rng: &mut Rng, f: &str) -> u64 {
    let p = modulus(f);
    match rng.below(6) {
        0 => rng.below(16),
        1 => (p - 1 - rng.below(16) as u128) as u64,
        _ => ((rng.next() as u128) % p) as u64,
    }
}

fn gen_bits(rng: &mut Rng, f: &str, full: bool) -> Case {
    let p = modulus(f);
    let maxn = if f == "gl" { 64 } else { 31 };
    // bit width: mostly the full width used by sample_bits, sometimes smaller
    let n = if rng.chance(3, 5) { maxn } else { rng.range(1, maxn) };
    let pow: u128 = 1u128 << n;
    // x: biased to the region where x + p still fits in n bits, and to its boundary
    let x: u64 = if pow > p {
        let gap = pow - p; // x < gap  <=>  x + p < 2^n
        match rng.below(6) {
            0 => 0,
            1 => (gap - 1) as u64,
            2 => (gap % p) as u64,
            3 => (rng.next() as u128 % gap) as u64,
            4 => rng.below(64),
            _ => rand_elem(rng, f),
        }
    } else {
        match rng.below(4) {
            0 => (pow - 1) as u64,
            1 => (pow % p) as u64,
            2 => (rng.next() as u128 % pow) as u64,
            _ => rand_elem(rng, f),
        }
    };
    let xc = (x as u128) % p;
    let (v, how): (Vec<u64>, &str) = match rng.below(11) {
        8..=10 => {
            // recomposition-preserving with exactly ONE non-boolean bit: the mass of a set bit i
            // is moved into a lower bit j (b_i = 0, b_j += 2^(i-j)); j is biased to the lowest
            // position, whose booleanity is asserted by a different code path than the others
            let mut b = bits_of(xc, n);
            let set: Vec<usize> = (1..n).filter(|&i| b[i] == 1).collect();
            if !set.is_empty() {
                let i = *rng.pick(&set);
                let j = if rng.chance(1, 2) { 0 } else { rng.usize(i) };
                b[i] = 0;
                b[j] = ((b[j] as u128 + (1u128 << (i - j))) % p) as u64;
            }
            (b, "nonbool-single")
        }
        0 => (bits_of(xc, n), "honest"),
        1 | 2 | 3 => (bits_of(xc + p, n), "plus-p"),
        4 => (bits_of(xc + 2 * p, n), "plus-2p"),
        5 => {
            let mut b = bits_of(xc, n);
            let j = rng.usize(n);
            b[j] ^= 1;
            (b, "flip")
        }
        6 => {
            // recomposition-preserving, non-boolean: b_j += 2, b_{j+1} -= 1
            let mut b = bits_of(xc, n);
            if n >= 2 {
                let j = rng.usize(n - 1);
                b[j] += 2;
                b[j + 1] = ((b[j + 1] as u128 + p - 1) % p) as u64;
            }
            (b, "nonbool")
        }
        _ => ((0..n).map(|_| rng.below(2)).collect(), "random"),
    };
    Case::Bits { f: f.into(), n, x: xc as u64, v, full, how: how.into() }
}

fn gen_coef(rng: &mut Rng, f: &str, full: bool) -> Case {
    let (mode, cons, x, c, how) = gen_coef_parts(rng, f, ext_d(f), None);
    Case::Coef { f: f.into(), mode, cons, x, c, full, how }
}

fn gen_gcoef(rng: &mut Rng, inst: &str, full: bool) -> Case {
    let (f, d) = inst_of(inst);
    let (mode, cons, x, c, how) = gen_coef_parts(rng, f, d, Some(inst));
    Case::GCoef { i: inst.into(), mode, cons, x, c, full, how }
}

/// `inst`: when given, the deviation "wrap-junk" (junk whose product with the basis element wraps
/// around the modulus, compensated in the heads with the real arithmetic) is also generated.
fn gen_coef_parts(rng: &mut Rng, f: &str, d: usize, inst: Option<&str>) -> (String, String, Vec<u64>, Vec<u64>, String) {
    let p = modulus(f);
    // consumer shape "b" (bus read of the coefficient slot) only where some row creates the slot:
    // alu (the recomposition chain creates it) and npoc (the recompose/coeff row creates it)
    // The recompose tables exist only for the (field, extension) pairs `RecomposePreprocessor`
    // knows: BabyBear D4, KoalaBear D4 / quintic D5, Goldilocks D2 (for any other extension the
    // preprocessor silently returns no rows and `prove_all_tables` panics on the honest witness);
    // the remaining instances are exercised through the ALU chain only.
    let npo_ok = inst.map(|i| matches!(i, "kb5q" | "bb4" | "kb4" | "gl2")).unwrap_or(true);
    let (mode, cons) = if npo_ok {
        [("alu", "a"), ("npo", "a"), ("npoc", "a"), ("npoc", "b"), ("alu", "b")][rng.usize(5)]
    } else {
        [("alu", "a"), ("alu", "b")][rng.usize(2)]
    };
    let x: Vec<u64> = (0..d).map(|_| rand_elem(rng, f)).collect();
    let mut c = vec![0u64; d * d];
    for i in 0..d {
        c[i * d] = x[i];
    }
    let sub = |a: u64, b: u64| ((a as u128 + p - b as u128 % p) % p) as u64;
    let add = |a: u64, b: u64| ((a as u128 + b as u128) % p) as u64;
    let t = 1 + rng.below(1000);
    let how = match rng.below(if inst.is_some() { 9 } else { 7 }) {
        0 => "honest",
        1 | 2 => {
            // move mass t from coefficient i+1 into limb 1 of coefficient i: c_i += t X, c_{i+1} -= t
            let i = rng.usize(d - 1);
            c[i * d + 1] = add(c[i * d + 1], t);
            c[(i + 1) * d] = sub(c[(i + 1) * d], t);
            "mass-move"
        }
        3 => {
            // junk in a higher limb only (heads stay canonical)
            let i = rng.usize(d);
            let j = 1 + rng.usize(d - 1);
            c[i * d + j] = t;
            "tail-junk"
        }
        4 => {
            // cancelling junk: c_i gets +t in limb j (j>=1), c_{i'} gets -t at the limb that lands on the same place
            // X^i * (t X^j) = t X^{i+j};  choose i2 = i + j (< d) and subtract t from head of c_{i2}
            let i = rng.usize(d - 1);
            let j = 1 + rng.usize(d - 1 - i);
            c[i * d + j] = add(c[i * d + j], t);
            c[(i + j) * d] = sub(c[(i + j) * d], t);
            "mass-move-far"
        }
        5 => {
            let i = rng.usize(d);
            c[i * d] = add(c[i * d], t);
            "head-change"
        }
        7 | 8 => {
            // junk t X^j in c_i with i + j >= d: the product with e_i wraps around the modulus;
            // compensate the (real) reduced vector in the heads of all coefficients
            let i = 1 + rng.usize(d - 1);
            let j = (d - i) + rng.usize(i); // d - i <= j <= d - 1
            let mut junk = vec![0u64; d * d];
            junk[i * d + j] = t;
            if let Some(delta) = erecon_case_i(inst.unwrap(), &junk) {
                c[i * d + j] = add(c[i * d + j], t);
                for k in 0..d {
                    c[k * d] = sub(c[k * d], delta[k]);
                }
            }
            "wrap-junk"
        }
        _ => {
            for v in c.iter_mut() {
                *v = rand_elem(rng, f);
            }
            "random"
        }
    };
    (mode.into(), cons.into(), x, c, how.into())
}

fn limb_bits(f: &str) -> usize {
    if f == "gl" { 64 } else { 31 }
}

fn gen_mbits(rng: &mut Rng, inst: &str, full: bool) -> Case {
    let (f, d) = inst_of(inst);
    let p = modulus(f);
    let w = limb_bits(f);
    let nmax = w * d;
    let n = match rng.below(12) {
        0..=3 => nmax,
        4 | 5 => w * rng.range(1, d),
        6 => nmax + 1 + rng.usize(3), // refused by the builder
        7 => w * rng.range(1, d) - 1,
        _ => rng.range(1, nmax),
    };
    let nch = n.div_ceil(w).min(d);
    let len = |i: usize| if i < nch { w.min(n - i * w) } else { 0 };
    // canonical coefficients: full chunks biased to v + p < 2^w; short chunks fit (mostly)
    let mut x = vec![0u64; d];
    for i in 0..d {
        let l = len(i);
        x[i] = if l == w {
            let gap = (1u128 << w) - p;
            match rng.below(5) {
                0 | 1 => (rng.next() as u128 % gap) as u64,
                2 => (gap - 1) as u64,
                _ => rand_elem(rng, f),
            }
        } else if l > 0 {
            if rng.chance(1, 12) { rand_elem(rng, f) } else { ((rng.next() as u128) % (1u128 << l) % p) as u64 }
        } else if rng.chance(1, 10) {
            1 + rng.below(5)
        } else {
            0
        };
    }
    if n > nmax {
        return Case::MBits { i: inst.into(), n, x, v: vec![0; n * d], full, how: "too-wide".into() };
    }
    // slot (chunk i, bit j) has flat position i*w + j
    let mut b: Vec<Vec<u64>> = vec![];
    for i in 0..nch {
        for bit in bits_of(x[i] as u128, len(i)) {
            let mut s = vec![0u64; d];
            s[0] = bit;
            b.push(s);
        }
    }
    let full_chunks: Vec<usize> = (0..nch).filter(|&i| len(i) == w).collect();
    let how = match rng.below(10) {
        0 => "honest",
        1 | 2 | 3 if !full_chunks.is_empty() => {
            let i = *rng.pick(&full_chunks);
            for (j, bit) in bits_of(x[i] as u128 + p, w).into_iter().enumerate() {
                b[i * w + j][0] = bit;
            }
            "plus-p-limb"
        }
        4 if nch >= 2 => {
            let i = rng.usize(nch - 1);
            let m = len(i).min(len(i + 1));
            for j in 0..m {
                b.swap(i * w + j, (i + 1) * w + j);
            }
            "wrong-limb"
        }
        5 => {
            let k = rng.usize(n);
            b[k][0] ^= 1;
            "flip"
        }
        6 if n >= 2 => {
            let k = rng.usize(n - 1);
            if (k + 1) % w != 0 {
                b[k][0] += 2;
                b[k + 1][0] = ((b[k + 1][0] as u128 + p - 1) % p) as u64;
            }
            "nonbool"
        }
        7 | 8 if nch >= 2 => {
            // mass of a set bit (i+1, j) moved into the X-limb of slot (i, j): recomposition preserved,
            // the slot is no base-field element
            let cands: Vec<(usize, usize)> = (0..nch - 1).flat_map(|i| (0..len(i + 1)).map(move |j| (i, j))).filter(|&(i, j)| b[(i + 1) * w + j][0] == 1).collect();
            if !cands.is_empty() {
                let (i, j) = *rng.pick(&cands);
                b[(i + 1) * w + j][0] = 0;
                b[i * w + j][1] = 1;
            }
            "nonbase-bit"
        }
        9 => {
            for s in b.iter_mut() {
                s[0] = rng.below(2);
            }
            "random"
        }
        _ => "honest",
    };
    Case::MBits { i: inst.into(), n, x, v: b.concat(), full, how: how.into() }
}

struct Sink {
    cases: std::io::BufWriter<std::fs::File>,
    implo: std::io::BufWriter<std::fs::File>,
    hist: BTreeMap<String, u64>,
    distinct: BTreeSet<String>,
    nontrivial: BTreeSet<String>,
    violations: Vec<Value>,
    samples: Vec<Value>,
    evaluations: u64,
    proofs: u64,
}

impl Sink {
    fn bump(&mut self, k: String) {
        *self.hist.entry(k).or_default() += 1;
    }

    fn run_case(&mut self, c: &Case, origin: &str) {
        self.evaluations += 1;
        let res = catch_unwind(AssertUnwindSafe(|| self.eval(c)));
        let (line, impl_line, viol) = match res {
            Ok((impl_line, viol, line)) => (line.unwrap_or_else(|| c.line()), impl_line, viol),
            Err(_) => {
                let line = if let Case::Chal { .. } = c { "chal-panic".to_string() } else { c.line() };
                (line.clone(), format!("panic {}", line.split(' ').next().unwrap_or("")), Some(json!({"kind":"harness-panic","class":"panic"})))
            }
        };
        writeln!(self.cases, "{line}").unwrap();
        let first = self.distinct.insert(line.clone());
        writeln!(self.implo, "{impl_line}").unwrap();
        if first && !matches!(c, Case::Bits { how, .. } | Case::Coef { how, .. } | Case::GCoef { how, .. } | Case::MBits { how, .. } if how == "honest") {
            self.nontrivial.insert(line.clone());
        }
        if self.samples.len() < 6 && (self.evaluations % 37 == 1 || origin.starts_with("corpus")) {
            self.samples.push(json!({"case": line, "impl": impl_line, "origin": origin}));
        }
        if let Some(mut v) = viol {
            v["property"] = json!("C12");
            v["replay"] = c.json();
            v["origin"] = json!(origin);
            v["impl"] = json!(impl_line);
            self.violations.push(v);
        }
    }

    fn eval(&mut self, c: &Case) -> (String, Option<Value>, Option<String>) {
        if let Case::Chal { obs, k, dev, full } = c {
            let p = modulus("bb");
            // honest run first: the sampled value decides the deviating bits
            let (sample, _) = chal::chal_case(obs, *k, None, false);
            let v = bits_of(sample as u128 + *dev as u128 * p, 31);
            let (_, o) = chal::chal_case(obs, *k, Some(&v), *full);
            let fits = sample as u128 + (*dev as u128) * p < (1u128 << 31);
            self.bump(format!("chal.bb.k{k}.dev{dev}.{}.{}", if fits { "fits" } else { "overflows" }, if *full { "prove" } else { "run" }));
            if *full {
                self.proofs += 1;
            }
            let line = format!("{} bb 31 {sample} : {}", if *full { "bits" } else { "bitsrun" }, nums(&v));
            let l = if *full {
                format!("bits run={} accept={} canon={}", o.run, b01(o.accept == Some(true)), b01(o.canon))
            } else {
                format!("bitsrun run={} canon={}", o.run, b01(o.canon))
            };
            self.bump(format!("outcome.chal.{}.{}", if o.accept == Some(true) { "accepted" } else if *full { "rejected" } else { "run-only" }, if o.canon { "canonical" } else { "noncanonical" }));
            let mut viol = None;
            if o.accept == Some(true) && !o.canon {
                viol = Some(json!({"kind":"noncanonical-bits-accepted","class":"noncanonical-bits-accepted:bit-width-exceeds-modulus",
                    "detail":{"site":"CircuitChallenger::sample_bits (recursion/src/challenger/circuit.rs), BabyBear D=4, Poseidon2 w16",
                              "observed":obs,"num_bits":k,"sample":sample,"honest_bits":o.honest,"accepted_bits":v,
                              "sampled_index_honest":o.honest_idx,"sampled_index_accepted":o.idx,"stage":o.stage}}));
            } else if *full && o.canon && o.accept != Some(true) {
                viol = Some(json!({"kind":"honest-decomposition-rejected","class":"honest-sample-bits-rejected",
                    "detail":{"obs":obs,"k":k,"stage":o.stage,"run":o.run}}));
            }
            return (l, viol, Some(line));
        }
        let (l, v) = self.eval_simple(c);
        (l, v, None)
    }

    fn eval_simple(&mut self, c: &Case) -> (String, Option<Value>) {
        match c {
            Case::Chal { .. } => unreachable!(),
            Case::Hint { f, n, x } => {
                let o = bits_case(f, *n, *x, None, false);
                self.bump(format!("hint.{f}"));
                (format!("hint {}", nums(&o.honest)), None)
            }
            Case::Recon { f, v } => {
                self.bump(format!("recon.{f}"));
                match recon_case(f, v) {
                    Some(r) => (format!("recon {r}"), None),
                    None => ("recon err".into(), None),
                }
            }
            Case::Bits { f, n, x, v, full, how } => {
                let o = bits_case(f, *n, *x, Some(v), *full);
                let p = modulus(f);
                let wide = (1u128 << *n) > p;
                self.bump(format!("bits.{f}.{}.{how}.{}", if wide { "2^n>p" } else { "2^n<=p" }, if *full { "prove" } else { "run" }));
                if *full {
                    self.proofs += 1;
                }
                let l = if *full {
                    format!("bits run={} accept={} canon={}", o.run, b01(o.accept == Some(true)), b01(o.canon))
                } else {
                    format!("bitsrun run={} canon={}", o.run, b01(o.canon))
                };
                self.bump(format!("outcome.bits.{}.{}", if o.accept == Some(true) { "accepted" } else if *full { "rejected" } else { "run-only" }, if o.canon { "canonical" } else { "noncanonical" }));
                let mut viol = None;
                if o.accept == Some(true) && !o.canon {
                    let boolean = v.iter().all(|b| *b <= 1);
                    // integer value of the accepted boolean vector: congruent to x mod p?
                    let congruent = boolean && {
                        let val: u128 = v.iter().enumerate().map(|(i, b)| (*b as u128) << i).sum();
                        val % p == (*x as u128) % p
                    };
                    let class = if !boolean {
                        "noncanonical-bits-accepted:non-boolean"
                    } else if !congruent {
                        "noncanonical-bits-accepted:recomposition-not-enforced"
                    } else if wide {
                        "noncanonical-bits-accepted:bit-width-exceeds-modulus"
                    } else {
                        "noncanonical-bits-accepted:bit-width-below-modulus"
                    };
                    viol = Some(json!({"kind":"noncanonical-bits-accepted","class":class,
                        "detail":{"field":f,"n":n,"x":x,"honest_bits":o.honest,"accepted_bits":v,
                                  "low_bits_index_honest":o.honest_idx,"low_bits_index_accepted":o.idx,"stage":o.stage}}));
                } else if *full && o.canon && o.accept != Some(true) && (*x as u128) < (1u128 << *n) {
                    viol = Some(json!({"kind":"honest-decomposition-rejected","class":"honest-bits-rejected",
                        "detail":{"field":f,"n":n,"x":x,"stage":o.stage,"run":o.run}}));
                }
                (l, viol)
            }
            Case::EHint { f, x } => {
                let o = coef_case(f, "alu", "a", x, None, false);
                self.bump(format!("ehint.{f}"));
                let d = ext_d(f);
                (format!("ehint {}", o.honest.chunks(d).map(nums).collect::<Vec<_>>().join(" | ")), None)
            }
            Case::ERecon { f, c } => {
                self.bump(format!("erecon.{f}"));
                match erecon_case(f, c) {
                    Some(r) => (format!("erecon {}", nums(&r)), None),
                    None => ("erecon err".into(), None),
                }
            }
            Case::Coef { f, mode, cons, x, c, full, how } => {
                let o = coef_case(f, mode, cons, x, Some(c), *full);
                let honest_consumer = coef_case(f, mode, cons, x, None, false).consumer;
                let mode = &match (mode.as_str(), cons.as_str()) {
                    ("npoc", "a") => "npoc-unread".to_string(),
                    ("npoc", _) => "npoc-read".to_string(),
                    (m, _) => m.to_string(),
                };
                self.bump(format!("coef.{f}.{mode}.{how}.{}", if *full { "prove" } else { "run" }));
                if *full {
                    self.proofs += 1;
                }
                let l = if *full {
                    format!("coef run={} accept={} canon={}", o.run, b01(o.accept == Some(true)), b01(o.canon))
                } else {
                    format!("coefrun run={} canon={}", o.run, b01(o.canon))
                };
                self.bump(format!("outcome.coef.{mode}.{}.{}", if o.accept == Some(true) { "accepted" } else if *full { "rejected" } else { "run-only" }, if o.canon { "canonical" } else { "noncanonical" }));
                let mut viol = None;
                if o.accept == Some(true) && !o.canon {
                    let d = ext_d(f);
                    let base = c.chunks(d).all(|l| l[1..].iter().all(|v| *v == 0));
                    // is the recomposition identity itself satisfied (real arithmetic)?
                    let identity = if mode == "alu" {
                        erecon_case(f, c).map(|r| r == *x).unwrap_or(false)
                    } else {
                        c.chunks(d).map(|l| l[0]).collect::<Vec<_>>() == *x
                    };
                    let class = format!("noncanonical-coeffs-accepted:{mode}:{}",
                        if !identity { "recomposition-not-enforced" } else if base { "base-field-coeffs" } else { "non-base-coeff" });
                    viol = Some(json!({"kind":"noncanonical-coeffs-accepted","class":class,
                        "detail":{"field":f,"D":d,"mode":mode,"x":x,"honest_coeffs":o.honest,"accepted_coeffs":c,"stage":o.stage,
                                  "consumer_value_honest":honest_consumer,"consumer_value_accepted":o.consumer}}));
                } else if *full && o.canon && o.accept != Some(true) {
                    viol = Some(json!({"kind":"honest-decomposition-rejected","class":format!("honest-coeffs-rejected:{mode}"),
                        "detail":{"field":f,"mode":mode,"x":x,"stage":o.stage,"run":o.run}}));
                }
                (l, viol)
            }
            Case::GERecon { i, c } => {
                self.bump(format!("gerecon.{i}"));
                match erecon_case_i(i, c) {
                    Some(r) => (format!("gerecon {}", nums(&r)), None),
                    None => ("gerecon err".into(), None),
                }
            }
            Case::GCoef { i, mode, cons, x, c, full, how } => {
                let (_, d) = inst_of(i);
                let o = coef_case_i(i, mode, cons, x, Some(c), *full);
                let honest_consumer = coef_case_i(i, mode, cons, x, None, false).consumer;
                let mode = &match (mode.as_str(), cons.as_str()) {
                    ("npoc", "a") => "npoc-unread".to_string(),
                    ("npoc", _) => "npoc-read".to_string(),
                    (m, _) => m.to_string(),
                };
                self.bump(format!("gcoef.{i}.{mode}.{how}.{}", if *full { "prove" } else { "run" }));
                if *full {
                    self.proofs += 1;
                }
                let l = if *full {
                    format!("gcoef run={} accept={} canon={}", o.run, b01(o.accept == Some(true)), b01(o.canon))
                } else {
                    format!("gcoefrun run={} canon={}", o.run, b01(o.canon))
                };
                self.bump(format!("outcome.gcoef.{i}.{mode}.{}.{}", if o.accept == Some(true) { "accepted" } else if *full { "rejected" } else { "run-only" }, if o.canon { "canonical" } else { "noncanonical" }));
                let mut viol = None;
                if o.accept == Some(true) && !o.canon {
                    let base = c.chunks(d).all(|l| l[1..].iter().all(|v| *v == 0));
                    let identity = if mode == "alu" {
                        erecon_case_i(i, c).map(|r| r == *x).unwrap_or(false)
                    } else {
                        c.chunks(d).map(|l| l[0]).collect::<Vec<_>>() == *x
                    };
                    // same defect as F16/F17/F18; the quintic trinomial instance carries its own suffix
                    let class = format!("noncanonical-coeffs-accepted:{mode}:{}{}",
                        if !identity { "recomposition-not-enforced" } else if base { "base-field-coeffs" } else { "non-base-coeff" },
                        if i == "kb5q" { ":quintic" } else { "" });
                    viol = Some(json!({"kind":"noncanonical-coeffs-accepted","class":class,
                        "detail":{"instance":i,"D":d,"modulus_XD":red_i(i),"mode":mode,"x":x,"honest_coeffs":o.honest,"accepted_coeffs":c,"stage":o.stage,
                                  "consumer_value_honest":honest_consumer,"consumer_value_accepted":o.consumer}}));
                } else if *full && o.canon && o.accept != Some(true) {
                    viol = Some(json!({"kind":"honest-decomposition-rejected","class":format!("honest-coeffs-rejected:{mode}"),
                        "detail":{"instance":i,"mode":mode,"x":x,"stage":o.stage,"run":o.run}}));
                }
                (l, viol)
            }
            Case::MHint { i, n, x } => {
                self.bump(format!("mhint.{i}"));
                let (_, d) = inst_of(i);
                match mbits_case_i(i, *n, x, None, false) {
                    Some(o) => (format!("mhint {}", nums(&o.honest.chunks(d).map(|l| l[0]).collect::<Vec<_>>())), None),
                    None => ("mhint err".into(), None),
                }
            }
            Case::MRecon { i, s } => {
                self.bump(format!("mrecon.{i}"));
                match mrecon_case_i(i, s) {
                    Some(r) => (format!("mrecon {}", nums(&r)), None),
                    None => ("mrecon err".into(), None),
                }
            }
            Case::MBits { i, n, x, v, full, how } => {
                let (f, d) = inst_of(i);
                let w = limb_bits(f);
                let p = modulus(f);
                let c = if *full { "mbits" } else { "mbitsrun" };
                let Some(o) = mbits_case_i(i, *n, x, Some(v), *full) else {
                    self.bump(format!("mbits.{i}.refused"));
                    return (format!("{c} err"), None);
                };
                let limbs_used = n.div_ceil(w);
                self.bump(format!("mbits.{i}.limbs{limbs_used}.{}.{how}.{}", if n % w == 0 { "full" } else { "partial" }, if *full { "prove" } else { "run" }));
                if *full {
                    self.proofs += 1;
                }
                let l = if *full {
                    format!("mbits run={} accept={} canon={}", o.run, b01(o.accept == Some(true)), b01(o.canon))
                } else {
                    format!("mbitsrun run={} canon={}", o.run, b01(o.canon))
                };
                self.bump(format!("outcome.mbits.{}.{}", if o.accept == Some(true) { "accepted" } else if *full { "rejected" } else { "run-only" }, if o.canon { "canonical" } else { "noncanonical" }));
                let fits = (0..d).all(|k| {
                    let l = if k * w < *n { w.min(n - k * w) } else { 0 };
                    (x[k] as u128) < (1u128 << l)
                });
                let mut viol = None;
                if o.accept == Some(true) && !o.canon {
                    let boolean = v.chunks(d).all(|s| s[0] <= 1 && s[1..].iter().all(|t| *t == 0));
                    let congruent = boolean && (0..d).all(|k| {
                        let val: u128 = v.chunks(d).skip(k * w).take(w).enumerate().map(|(j, s)| (s[0] as u128) << j).sum();
                        val % p == x[k] as u128
                    });
                    let class = if !boolean {
                        "noncanonical-bits-accepted:multi:non-boolean"
                    } else if !congruent {
                        "noncanonical-bits-accepted:multi:recomposition-not-enforced"
                    } else {
                        "noncanonical-bits-accepted:multi:limb-exceeds-modulus"
                    };
                    viol = Some(json!({"kind":"noncanonical-bits-accepted","class":class,
                        "detail":{"instance":i,"n":n,"x":x,"honest_bits":o.honest,"accepted_slots":v,"stage":o.stage,
                                  "low_bits_index_accepted":o.consumer}}));
                } else if *full && o.canon && o.accept != Some(true) && fits {
                    viol = Some(json!({"kind":"honest-decomposition-rejected","class":"honest-bits-rejected:multi",
                        "detail":{"instance":i,"n":n,"x":x,"stage":o.stage,"run":o.run}}));
                }
                (l, viol)
            }
        }
    }
}

pub fn main(args: &crate::Args) {
    let seed = args.u64("seed", 1);
    let out = args.str("out", "work/c12");
    let n_run = args.u64("run-cases", 400);
    let n_prove = args.u64("prove-cases", 60);
    let n_val = args.u64("value-cases", 300);
    std::fs::create_dir_all(&out).unwrap();
    let mk = |n: &str| std::io::BufWriter::new(std::fs::File::create(format!("{out}/{n}")).unwrap());
    let mut s = Sink {
        cases: mk("decomp.cases"),
        implo: mk("decomp.impl"),
        hist: BTreeMap::new(),
        distinct: BTreeSet::new(),
        nontrivial: BTreeSet::new(),
        violations: vec![],
        samples: vec![],
        evaluations: 0,
        proofs: 0,
    };
    // corpus first
    if let Some(dir) = args.opt("corpus") {
        let mut files: Vec<_> = std::fs::read_dir(&dir).map(|d| d.flatten().map(|e| e.path()).collect()).unwrap_or_default();
        files.sort();
        for f in files {
            if f.extension().map(|e| e == "json").unwrap_or(false) {
                if let Ok(txt) = std::fs::read_to_string(&f) {
                    if let Ok(v) = serde_json::from_str::<Value>(&txt) {
                        let v = if v.get("replay").is_some() { v["replay"].clone() } else { v };
                        if let Some(c) = Case::from_json(&v) {
                            s.run_case(&c, &format!("corpus:{}", f.file_name().unwrap().to_string_lossy()));
                        }
                    }
                }
            }
        }
    }
    let mut rng = Rng::new(seed);
    let fields = ["bb", "kb", "gl"];
    // value correspondences (cheap)
    for i in 0..n_val {
        let f = fields[(i % 3) as usize];
        let mut r = rng.fork();
        match i % 4 {
            0 => {
                let maxn = if f == "gl" { 64 } else { 31 };
                let n = r.range(1, maxn);
                let x = rand_elem(&mut r, f);
                s.run_case(&Case::Hint { f: f.into(), n, x }, &format!("gen:{seed}:v{i}"));
            }
            1 => {
                let maxn = if f == "gl" { 64 } else { 31 };
                let m = r.range(1, maxn);
                let v: Vec<u64> = (0..m).map(|_| if r.chance(1, 2) { r.below(2) } else { rand_elem(&mut r, f) }).collect();
                s.run_case(&Case::Recon { f: f.into(), v }, &format!("gen:{seed}:v{i}"));
            }
            2 => {
                let x: Vec<u64> = (0..ext_d(f)).map(|_| rand_elem(&mut r, f)).collect();
                s.run_case(&Case::EHint { f: f.into(), x }, &format!("gen:{seed}:v{i}"));
            }
            _ => {
                let d = ext_d(f);
                let c: Vec<u64> = (0..d * d).map(|_| if r.chance(1, 3) { 0 } else { rand_elem(&mut r, f) }).collect();
                s.run_case(&Case::ERecon { f: f.into(), c }, &format!("gen:{seed}:v{i}"));
            }
        }
    }
    // runner-only cases
    for i in 0..n_run {
        let f = fields[((i / 2) % 3) as usize];
        let mut r = rng.fork();
        let c = if i % 2 == 0 { gen_bits(&mut r, f, false) } else { gen_coef(&mut r, f, false) };
        s.run_case(&c, &format!("gen:{seed}:r{i}"));
    }
    // real prove + verify
    for i in 0..n_prove {
        let f = ["bb", "kb", "bb", "gl"][((i / 2) % 4) as usize];
        let mut r = rng.fork();
        let c = if i % 2 == 0 { gen_bits(&mut r, f, true) } else { gen_coef(&mut r, f, true) };
        s.run_case(&c, &format!("gen:{seed}:p{i}"));
    }
    // generalised cases: every extension instance (any D, binomial / quintic trinomial modulus),
    // ALU chain / recompose tables, and multi-limb bit decompositions over extension-field circuits
    let insts: Vec<&str> = INSTS.iter().map(|t| t.0).collect();
    let new_insts = &insts[..5];
    let n_gval = args.u64("gvalue-cases", n_val / 3);
    for i in 0..n_gval {
        let mut r = rng.fork();
        let inst = insts[(i / 3) as usize % insts.len()];
        let (f, d) = inst_of(inst);
        let w = limb_bits(f);
        let origin = format!("gen:{seed}:gv{i}");
        match i % 3 {
            0 => {
                let c: Vec<u64> = (0..d * d).map(|_| if r.chance(1, 3) { 0 } else { rand_elem(&mut r, f) }).collect();
                s.run_case(&Case::GERecon { i: inst.into(), c }, &origin);
            }
            1 => {
                let n = r.range(1, w * d);
                let x: Vec<u64> = (0..d).map(|_| rand_elem(&mut r, f)).collect();
                s.run_case(&Case::MHint { i: inst.into(), n, x }, &origin);
            }
            _ => {
                let m = r.range(1, (w * d).min(3 * w + 5));
                let mut sl = vec![0u64; m * d];
                for k in 0..m {
                    match r.below(4) {
                        0 | 1 => sl[k * d] = r.below(2),
                        2 => sl[k * d] = rand_elem(&mut r, f),
                        _ => {
                            for t in 0..d {
                                sl[k * d + t] = rand_elem(&mut r, f);
                            }
                        }
                    }
                }
                s.run_case(&Case::MRecon { i: inst.into(), s: sl }, &origin);
            }
        }
    }
    let n_grun = args.u64("grun-cases", n_run / 3);
    for i in 0..n_grun {
        let mut r = rng.fork();
        let c = if i % 2 == 0 {
            gen_gcoef(&mut r, new_insts[(i / 2) as usize % new_insts.len()], false)
        } else {
            gen_mbits(&mut r, insts[(i / 2) as usize % insts.len()], false)
        };
        s.run_case(&c, &format!("gen:{seed}:gr{i}"));
    }
    let n_gprove = args.u64("gprove-cases", n_prove / 4);
    for i in 0..n_gprove {
        let mut r = rng.fork();
        // the quintic instance gets every second coefficient case
        let c = if i % 2 == 0 {
            let k = (i / 2) as usize;
            gen_gcoef(&mut r, if k % 2 == 0 { "kb5q" } else { new_insts[(k / 2) % new_insts.len()] }, true)
        } else {
            gen_mbits(&mut r, insts[(i / 2) as usize % insts.len()], true)
        };
        s.run_case(&c, &format!("gen:{seed}:gp{i}"));
    }
    // in-situ CircuitChallenger::sample_bits: grind the observed values until the sample is below
    // 2^31 - p (what a prover does), then replay bits of sample + p; also dev = 0 (honest) and
    // samples for which sample + p does not fit.
    let n_chal = args.u64("chal-cases", 6);
    for i in 0..n_chal {
        let mut r = rng.fork();
        let k = r.range(1, 20);
        let want_fit = i % 3 != 2;
        let dev = if i % 3 == 1 { 0 } else { 1 };
        let mut obs: Vec<u64> = (0..8).map(|_| rand_elem(&mut r, "bb")).collect();
        for _ in 0..200 {
            let (sample, _) = chal::chal_case(&obs, k, None, false);
            let fits = (sample as u128) + modulus("bb") < (1u128 << 31);
            if fits == want_fit {
                break;
            }
            obs[0] = rand_elem(&mut r, "bb");
        }
        s.run_case(&Case::Chal { obs, k, dev, full: true }, &format!("gen:{seed}:c{i}"));
    }
    s.cases.flush().unwrap();
    s.implo.flush().unwrap();
    let cost = json!({
        "bb": {"n31": bb1::cost(31), "n30": bb1::cost(30)},
        "kb": {"n31": kb1::cost(31), "n30": kb1::cost(30)},
        "gl": {"n64": gl1::cost(64), "n63": gl1::cost(63)},
    });
    let report = json!({"gadget_cost_alu_rows_and_slots": cost, "evaluations": s.evaluations, "distinct": s.distinct.len(), "distinct_nontrivial": s.nontrivial.len(),
        "proofs": s.proofs, "hist": s.hist, "samples": s.samples, "violations": s.violations, "seed": seed});
    std::fs::write(format!("{out}/decomp.report.json"), serde_json::to_string_pretty(&report).unwrap()).unwrap();
    println!("decomp: evaluations={} proofs={} violations={}", s.evaluations, s.proofs, s.violations.len());
}
