/-
L13 (part) — STRUCTURED labels for the naming scheme of `P3R.Model.Packing` (C14). Import-free.

`Model/Packing.lean` names every allocated input / packed proof element by a *string*
(`com.main.r0.3`, `ov2.q1.0`, `fri.q0.ph1.salt0.2`, …) assembled with `s!"{pre}.x{i}"` from the
proof shape. The C14 theorems identify positions of the packed vectors by these strings, so they
only identify *elements* if no two allocated inputs share a string. This file gives the naming
scheme a structure on which that can be proved for every shape (`Props/C14Labels.lean`):

* `Nm` — the finitely many component names the scheme uses, `Nm.str` their spelling;
* `Seg` — one path segment: a name (`tl`), a name with an index glued on (`q3`, `ov0`, `salt1`),
  or a bare index (`7`); `Path := List Seg`, root first;
* `render : Path → String` — segments joined by `.` (built left to right exactly as the
  `s!"{pre}.…"` of `Model/Packing.lean` does);
* `…T` — for every label-valued traversal of `Model/Packing.lean` (`idxFrom`, `capPub`, `comsPub`,
  `ovPriv`, …, `uniPub`, `uniPriv`, `batchPub`, `batchPriv`) a *twin* producing paths instead of
  strings, taking a `Path` where the original takes the prefix string. The twins are the same
  programs with `s!"{pre}.tl"` replaced by `pre ++ [.name .tl]` etc.; `Props/C14Labels.lean` proves
  `original (render pre) … = (twin pre …).map render` for every one of them, so nothing about the
  existing string-valued functions (which the driver prints and the harness is diffed against)
  changes.
-/
import P3R.Model.Packing

namespace P3R.Packing

/-- The component names used by the naming scheme of `Model/Packing.lean`. -/
inductive Nm
  | air | com | main | perm | quot | rand | ov | tl | tn | pl | pn | q | rnd | prl | prn
  | salt | m | sib | inp | ph | fri | cpc | cpow | finalP | qpow | hid | r | p | termN | prep
  deriving DecidableEq, Repr

/-- Spelling of a component name. -/
def Nm.str : Nm → String
  | .air => "air" | .com => "com" | .main => "main" | .perm => "perm" | .quot => "quot"
  | .rand => "rand" | .ov => "ov" | .tl => "tl" | .tn => "tn" | .pl => "pl" | .pn => "pn"
  | .q => "q" | .rnd => "rnd" | .prl => "prl" | .prn => "prn" | .salt => "salt" | .m => "m"
  | .sib => "sib" | .inp => "in" | .ph => "ph" | .fri => "fri" | .cpc => "cpc" | .cpow => "cpow"
  | .finalP => "final" | .qpow => "qpow" | .hid => "hid" | .r => "r" | .p => "p"
  | .termN => "term" | .prep => "prep"

/-- One segment of a label path. -/
inductive Seg
  /-- a component name: `tl` -/
  | name (n : Nm)
  /-- a component name with an index glued on: `q3` -/
  | nameIdx (n : Nm) (i : Nat)
  /-- a bare index: `7` -/
  | idx (i : Nat)
  deriving DecidableEq, Repr

/-- A structured label: segments, root first. -/
abbrev Path := List Seg

def Seg.render : Seg → String
  | .name n => n.str
  | .nameIdx n i => n.str ++ toString i
  | .idx i => toString i

/-- Segments joined by `.`, assembled left to right (`(((a ++ "." ++ b) ++ "." ++ c) …`). -/
def render : Path → String
  | [] => ""
  | s :: rest => rest.foldl (fun acc t => acc ++ "." ++ t.render) s.render

/-! ### Twins of the label-valued traversals -/

def idxFromT (pre : Path) : Nat → Nat → List Path
  | _, 0 => []
  | k, n + 1 => (pre ++ [.idx k]) :: idxFromT pre (k + 1) n

def idxT (pre : Path) (n : Nat) : List Path := idxFromT pre 0 n

def capPubT (E : Nat) (pre : Path) (roots : Nat) : List Path :=
  flatMapIdx (fun r _ => idxT (pre ++ [.nameIdx .r r]) E) 0 (List.replicate roots ())

def comsPubT (E : Nat) (c : ComsShape) : List Path :=
  capPubT E [.name .com, .name .main] c.main ++ optL c.perm (capPubT E [.name .com, .name .perm])
    ++ capPubT E [.name .com, .name .quot] c.quot ++ optL c.rand (capPubT E [.name .com, .name .rand])

def ovPrivT (pre : Path) (o : OVShape) : List Path :=
  idxT (pre ++ [.name .tl]) o.traceLocal
    ++ optL o.traceNext (idxT (pre ++ [.name .tn]))
    ++ optL o.prepLocal (idxT (pre ++ [.name .pl]))
    ++ optL o.prepNext (idxT (pre ++ [.name .pn]))
    ++ flatMapIdx (fun j n => idxT (pre ++ [.nameIdx .q j]) n) 0 o.chunks
    ++ optL o.random (idxT (pre ++ [.name .rnd]))

def ovlPrivT (pre : Path) (o : OVLShape) : List Path :=
  ovPrivT pre o.base ++ idxT (pre ++ [.name .prl]) o.permLocal ++ idxT (pre ++ [.name .prn]) o.permNext

def ovsPrivT (l : List OVLShape) : List Path := flatMapIdx (fun i o => ovlPrivT [.nameIdx .ov i] o) 0 l

def mmcsPrivT (pre : Path) (p : MmcsProofShape) : List Path :=
  flatMapIdx (fun m n => idxT (pre ++ [.nameIdx .salt m]) n) 0 p

def boPrivT (pre : Path) (b : BatchOpeningShape) : List Path :=
  flatMapIdx (fun m n => idxT (pre ++ [.nameIdx .m m]) n) 0 b.opened ++ mmcsPrivT pre b.proof

/-- Twin of `stepPriv` in its flat form (`sibCoeffs_eq`): coefficients `0 … siblings·D − 1`. -/
def stepPrivT (D : Nat) (pre : Path) (s : StepShape) : List Path :=
  idxT (pre ++ [.name .sib]) (s.siblings * D) ++ mmcsPrivT pre s.proof

def queryPrivT (D : Nat) (pre : Path) (q : QueryShape) : List Path :=
  flatMapIdx (fun b bo => boPrivT (pre ++ [.nameIdx .inp b]) bo) 0 q.input
    ++ flatMapIdx (fun k st => stepPrivT D (pre ++ [.nameIdx .ph k]) st) 0 q.steps

def friPubT (E : Nat) (f : FriShape) : List Path :=
  flatMapIdx (fun k roots => capPubT E [.name .fri, .nameIdx .cpc k] roots) 0 f.commits
    ++ idxT [.name .fri, .name .cpow] f.commitPow
    ++ idxT [.name .fri, .name .finalP] f.finalPoly
    ++ idxT [.name .fri, .name .qpow] 1

def friPrivT (D : Nat) (f : FriShape) : List Path :=
  flatMapIdx (fun q qs => queryPrivT D [.name .fri, .nameIdx .q q] qs) 0 f.queries

def hidPrivT (h : List (List (List Nat))) : List Path :=
  flatMapIdx (fun r round => flatMapIdx (fun m mat =>
    flatMapIdx (fun p n => idxT [.name .hid, .nameIdx .r r, .nameIdx .m m, .nameIdx .p p] n) 0 mat) 0 round) 0 h

def pcsPubT (E : Nat) (p : PcsShape) : List Path := friPubT E p.fri
def pcsPrivT (D : Nat) (p : PcsShape) : List Path := optL p.hid hidPrivT ++ friPrivT D p.fri

def uniPubT (E : Nat) (s : UniShape) : List Path :=
  idxT [.nameIdx .air 0] s.airPub ++ (comsPubT E s.coms ++ pcsPubT E s.pcs)
    ++ optL s.prep (capPubT E [.name .prep])

def uniPrivT (D : Nat) (s : UniShape) : List Path := ovPrivT [.nameIdx .ov 0] s.ov ++ pcsPrivT D s.pcs

def termLabelsT : Nat → List Bool → List Path
  | _, [] => []
  | i, true :: l => [.name .termN, .idx i] :: termLabelsT (i + 1) l
  | i, false :: l => termLabelsT (i + 1) l

def batchPubT (E : Nat) (s : BatchShape) : List Path :=
  flatMapIdx (fun i n => idxT [.nameIdx .air i] n) 0 s.airPub
    ++ (comsPubT E s.coms ++ pcsPubT E s.pcs ++ termLabelsT 0 s.terminals)
    ++ optL s.prep (capPubT E [.name .prep])

def batchPrivT (D : Nat) (s : BatchShape) : List Path := ovsPrivT s.ovs ++ pcsPrivT D s.pcs

end P3R.Packing
