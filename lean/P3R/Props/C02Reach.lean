/-
C02 — the builder-side guards of `C02.run_total_on_satisfying_inputs` (`pubOk`, `pubFull`, `primOk`; `BState.Ok`
and `privOk` are `C02T.Reachable.ok` / `C09R.ReachablePrim.privOk`) hold for every builder state reachable
through the builder API (`C09R.ReachablePrim`: the 19 API operations of `Model/Builder.lean`, no raw
`push_non_primitive_op_with_outputs`), and the caller's side of the run — `set_public_inputs`,
`set_private_inputs` on a fresh table — produces exactly the table shape the theorem asks for. Hence

* `run_total_reachable` — no builder-side hypothesis other than reachability;
* `applyCalls_shape` — a successful `[set_public_inputs pubs, set_private_inputs privs]` on the fresh table
  yields `shape w0 = allInputsSet c` (aliasing public rows, e.g. after `connect(pub, pub)`, included: `setW` is
  write-once with an equality re-check, the statement is about a successful `applyCalls`);
* `session_total_reachable` — `run canon c pubs privs` succeeds for every satisfying input vector.

Invariant `RI` (Prop): node 0 is the constant zero; public nodes carry distinct positions below `pubCount` and
every position below `pubCount` is taken (only `alloc_public_input` creates a public node / bumps `pubCount`);
every call node names an existing op; an output node follows its call node; every non-primitive op is a
`BinaryDecompositionHint` with the single input group `[[x]]`, `x` an existing node that is not an output of
that very op (only `decompose_to_bits` pushes a non-primitive op; its input is an id the builder handed out
before the call node was created).
-/
import P3R.Props.C02ShapeOptLower
import P3R.Props.C09Reach
import P3R.Props.C19Shape

namespace P3R.C02R
open P3R P3R.C02T P3R.C02S P3R.C02O P3R.C09R

variable {K : Type}

/-! ### Frames -/

/-- Node kinds that are neither a public input nor a call / call output. -/
def Plain : Expr K → Prop
  | .pub _ => False
  | .npCall _ _ => False
  | .npOut _ _ => False
  | _ => True

/-- `b'` has the nodes of `b` followed by `Plain` nodes, the same `pubCount` and the same non-primitive ops.
Every builder operation except `alloc_public_input` and `decompose_to_bits` satisfies it. -/
def GFr (b b' : BState K) : Prop :=
  b'.pubCount = b.pubCount ∧ b'.npOps = b.npOps ∧
  ∃ new : List (Expr K), b'.nodes.toList = b.nodes.toList ++ new ∧ ∀ e ∈ new, Plain e

theorem GFr.refl (b : BState K) : GFr b b := ⟨rfl, rfl, [], by simp, by simp⟩

theorem GFr.trans {b b' b'' : BState K} (h1 : GFr b b') (h2 : GFr b' b'') : GFr b b'' := by
  obtain ⟨p1, o1, n1, e1, f1⟩ := h1
  obtain ⟨p2, o2, n2, e2, f2⟩ := h2
  refine ⟨p2.trans p1, o2.trans o1, n1 ++ n2, by rw [e2, e1, List.append_assoc], ?_⟩
  intro e he
  rcases List.mem_append.mp he with he | he
  · exact f1 e he
  · exact f2 e he

theorem GFr.of_push {b : BState K} (e : Expr K) (b' : BState K) (he : Plain e)
    (hn : b'.nodes = b.nodes.push e) (hp : b'.pubCount = b.pubCount) (ho : b'.npOps = b.npOps) : GFr b b' :=
  ⟨hp, ho, [e], by rw [hn]; simp, by intro e' he'; simp only [List.mem_singleton] at he'; subst he'; exact he⟩

theorem GFr.of_same {b b' : BState K} (hn : b'.nodes = b.nodes) (hp : b'.pubCount = b.pubCount)
    (ho : b'.npOps = b.npOps) : GFr b b' :=
  ⟨hp, ho, [], by rw [hn]; simp, by simp⟩

/-! ### The invariant -/

/-- See the header. -/
structure RI [Zero K] (b : BState K) : Prop where
  z0 : b.nodes[0]? = some (.const 0)
  pu : ∀ (i pos : Nat), b.nodes[i]? = some (Expr.pub pos) →
    pos < b.pubCount ∧ ∀ (j : Nat), b.nodes[j]? = some (Expr.pub pos) → j = i
  pf : ∀ pos, pos < b.pubCount → ∃ i : Nat, b.nodes[i]? = some (Expr.pub pos)
  co : ∀ (i op : Nat) (ins : List Nat), b.nodes[i]? = some (Expr.npCall op ins) → op < b.npOps.size
  oc : ∀ (i call k : Nat), b.nodes[i]? = some (Expr.npOut call k) → call < i
  np : ∀ (op : Nat) (d : NpData), b.npOps[op]? = some d →
    d.kind = .hintBits ∧ ∃ x, d.ins = [[x]] ∧ x < b.nodes.size ∧ ownOut b.nodes op x = false

/-- What an extension by appended nodes does to look-ups. -/
theorem get_append {nodes nodes' : Array (Expr K)} {new : List (Expr K)}
    (hn : nodes'.toList = nodes.toList ++ new) :
    (∀ (i : Nat), i < nodes.size → nodes'[i]? = nodes[i]?) ∧
    (∀ (i : Nat) (e : Expr K), nodes'[i]? = some e →
      (i < nodes.size ∧ nodes[i]? = some e) ∨ (nodes.size ≤ i ∧ new[i - nodes.size]? = some e)) := by
  constructor
  · intro i hi
    rw [← Array.getElem?_toList, ← Array.getElem?_toList, hn,
      List.getElem?_append_left (by simpa using hi)]
  · intro i e he
    rw [← Array.getElem?_toList, hn] at he
    by_cases hi : i < nodes.size
    · rw [List.getElem?_append_left (by simpa using hi), Array.getElem?_toList] at he
      exact Or.inl ⟨hi, he⟩
    · rw [List.getElem?_append_right (by simpa using hi)] at he
      exact Or.inr ⟨by omega, by simpa using he⟩

/-- `ownOut` reads the node array only at `x` and, for an output node, at its call node below `x`. -/
theorem ownOut_ext {nodes nodes' : Array (Expr K)}
    (pre : ∀ (i : Nat), i < nodes.size → nodes'[i]? = nodes[i]?)
    (oc : ∀ (i call k : Nat), nodes[i]? = some (Expr.npOut call k) → call < i)
    (op : Nat) {x : Nat} (hx : x < nodes.size) : ownOut nodes' op x = ownOut nodes op x := by
  unfold ownOut
  rw [pre x hx]
  cases hxe : nodes[x]? with
  | none => rfl
  | some e =>
    cases e with
    | npOut call k =>
      have := oc x call k hxe
      simp only
      rw [pre call (by omega)]
    | _ => rfl

section
variable [Zero K]

theorem RI.frame {b b' : BState K} (h : RI b) (hf : GFr b b') : RI b' := by
  obtain ⟨hp, ho, new, hn, hnew⟩ := hf
  obtain ⟨pre, cases'⟩ := get_append hn
  have hsz : b.nodes.size ≤ b'.nodes.size := by
    have := congrArg List.length hn
    simp only [Array.length_toList, List.length_append] at this
    omega
  have old : ∀ (i : Nat) (e : Expr K), b'.nodes[i]? = some e → ¬ Plain e → b.nodes[i]? = some e := by
    intro i e he hne
    rcases cases' i e he with ⟨_, h1⟩ | ⟨_, h1⟩
    · exact h1
    · exact absurd (hnew e (List.mem_of_getElem? h1)) hne
  have z0lt : 0 < b.nodes.size := get_lt h.z0
  refine ⟨by rw [pre 0 z0lt]; exact h.z0, ?_, ?_, ?_, ?_, ?_⟩
  · intro i pos hi
    obtain ⟨h1, h2⟩ := h.pu i pos (old i _ hi (fun h => h))
    exact ⟨by rw [hp]; exact h1, fun j hj => h2 j (old j _ hj (fun h => h))⟩
  · intro pos hpos
    obtain ⟨i, hi⟩ := h.pf pos (by rw [← hp]; exact hpos)
    exact ⟨i, by rw [pre i (get_lt hi)]; exact hi⟩
  · intro i op ins hi
    rw [ho]
    exact h.co i op ins (old i _ hi (fun h => h))
  · intro i call k hi
    exact h.oc i call k (old i _ hi (fun h => h))
  · intro op d hd
    rw [ho] at hd
    obtain ⟨hk, x, hins, hx, hown⟩ := h.np op d hd
    exact ⟨hk, x, hins, by omega, by rw [ownOut_ext pre h.oc op hx]; exact hown⟩

theorem RI.allocPublic {b : BState K} (h : RI b) : RI b.allocPublic.1 := by
  have hn : (b.allocPublic.1).nodes.toList = b.nodes.toList ++ [Expr.pub b.pubCount] := by
    simp [BState.allocPublic, BState.push]
  obtain ⟨pre, cases'⟩ := get_append hn
  have hpc : (b.allocPublic.1).pubCount = b.pubCount + 1 := rfl
  have hops : (b.allocPublic.1).npOps = b.npOps := rfl
  have hsz : (b.allocPublic.1).nodes.size = b.nodes.size + 1 := by simp [BState.allocPublic, BState.push]
  have key : ∀ (i : Nat) (e : Expr K), (b.allocPublic.1).nodes[i]? = some e →
      b.nodes[i]? = some e ∨ (i = b.nodes.size ∧ e = Expr.pub b.pubCount) := by
    intro i e he
    rcases cases' i e he with ⟨_, h1⟩ | ⟨h0, h1⟩
    · exact Or.inl h1
    · right
      have hi0 : i - b.nodes.size = 0 := by
        by_contra hne
        rw [List.getElem?_eq_none (by simp; omega)] at h1
        cases h1
      rw [hi0] at h1
      simp only [List.getElem?_cons_zero, Option.some.injEq] at h1
      exact ⟨by omega, h1.symm⟩
  have z0lt : 0 < b.nodes.size := get_lt h.z0
  refine ⟨by rw [pre 0 z0lt]; exact h.z0, ?_, ?_, ?_, ?_, ?_⟩
  · intro i pos hi
    rw [hpc]
    rcases key i _ hi with hio | ⟨his, hpe⟩
    · obtain ⟨h1, h2⟩ := h.pu i pos hio
      refine ⟨by omega, fun j hj => ?_⟩
      rcases key j _ hj with hjo | ⟨_, hpe'⟩
      · exact h2 j hjo
      · cases hpe'; omega
    · cases hpe
      refine ⟨by omega, fun j hj => ?_⟩
      rcases key j _ hj with hjo | ⟨hjs, _⟩
      · have := (h.pu j _ hjo).1; omega
      · omega
  · intro pos hpos
    rw [hpc] at hpos
    by_cases hlt : pos < b.pubCount
    · obtain ⟨i, hi⟩ := h.pf pos hlt
      exact ⟨i, by rw [pre i (get_lt hi)]; exact hi⟩
    · have : pos = b.pubCount := by omega
      subst this
      refine ⟨b.nodes.size, ?_⟩
      simp [BState.allocPublic, BState.push]
  · intro i op ins hi
    rw [hops]
    rcases key i _ hi with hio | ⟨_, hpe⟩
    · exact h.co i op ins hio
    · cases hpe
  · intro i call k hi
    rcases key i _ hi with hio | ⟨_, hpe⟩
    · exact h.oc i call k hio
    · cases hpe
  · intro op d hd
    rw [hops] at hd
    obtain ⟨hk, x, hins, hx, hown⟩ := h.np op d hd
    exact ⟨hk, x, hins, by omega, by rw [ownOut_ext pre h.oc op hx]; exact hown⟩

end

/-! ### Per-operation frames -/

section ops
variable [Zero K] [One K] [Add K] [Sub K] [Mul K] [DecidableEq K]

theorem defineConst_gfr (b : BState K) (v : K) : GFr b (b.defineConst v).1 := by
  unfold BState.defineConst BState.push
  split
  · exact GFr.refl _
  · exact GFr.of_push (.const v) _ trivial rfl rfl rfl

theorem allocPrivate_gfr (b : BState K) : GFr b b.allocPrivate.1 :=
  GFr.of_push (.priv b.privCount) _ trivial rfl rfl rfl

theorem cseOrPush_gfr (b : BState K) (key : BinKind × Nat × Nat) (e : Expr K) (he : Plain e) :
    GFr b (b.cseOrPush key e).1 := by
  unfold BState.cseOrPush BState.push
  split
  · exact GFr.refl _
  · exact GFr.of_push e _ he rfl rfl rfl

theorem add_gfr (b : BState K) (l r : Nat) : GFr b (b.add l r).1 := by
  unfold BState.add
  repeat' (first | exact GFr.refl _ | exact defineConst_gfr _ _ |
    exact cseOrPush_gfr _ _ _ trivial | split)

theorem sub_gfr (b : BState K) (l r : Nat) : GFr b (b.sub l r).1 := by
  unfold BState.sub
  repeat' (first | exact GFr.refl _ | exact defineConst_gfr _ _ |
    exact cseOrPush_gfr _ _ _ trivial | split)

theorem mul_gfr (b : BState K) (l r : Nat) : GFr b (b.mul l r).1 := by
  unfold BState.mul
  repeat' (first | exact GFr.refl _ | exact defineConst_gfr _ _ |
    exact cseOrPush_gfr _ _ _ trivial | split)

theorem div_gfr (b : BState K) (l r : Nat) : GFr b (b.div l r).1 := by
  unfold BState.div
  repeat' (first | exact GFr.refl _ | exact defineConst_gfr _ _ |
    exact cseOrPush_gfr _ _ _ trivial | split)

theorem horner_gfr (b : BState K) (acc al pz px : Nat) : GFr b (b.horner acc al pz px).1 := by
  unfold BState.horner BState.push
  repeat' (first | exact GFr.refl _ | exact defineConst_gfr _ _ |
    exact GFr.of_push (.horner acc al pz px) _ trivial rfl rfl rfl | split)

theorem boolCheck_gfr (b : BState K) (v : Nat) : GFr b (b.boolCheck v).1 := by
  unfold BState.boolCheck BState.push
  repeat' (first | exact GFr.refl _ |
    exact GFr.of_push (.boolCheck v) _ trivial rfl rfl rfl | split)

theorem mulAdd_gfr (b : BState K) (x y z : Nat) : GFr b (b.mulAdd x y z).1 := by
  unfold BState.mulAdd BState.push
  repeat' (first | exact GFr.refl _ | exact defineConst_gfr _ _ |
    exact GFr.of_push (.mulAdd x y z) _ trivial rfl rfl rfl | split)

theorem connect_gfr (b : BState K) (x y : Nat) : GFr b (b.connect x y) := by
  unfold BState.connect
  split
  · exact GFr.refl _
  · exact GFr.of_same rfl rfl rfl

theorem assertBool_gfr (b : BState K) (x : Nat) : GFr b (b.assertBool x) := by
  unfold BState.assertBool
  exact (boolCheck_gfr b x).trans (connect_gfr _ _ _)

theorem select_gfr (b : BState K) (c t f : Nat) : GFr b (b.select c t f).1 := by
  unfold BState.select
  repeat' (first | exact GFr.refl _ | exact (sub_gfr _ _ _).trans (mulAdd_gfr _ _ _ _) | split)

theorem foldl_gfr {α : Type} (f : BState K × Nat → α → BState K × Nat)
    (hf : ∀ acc a, GFr acc.1 (f acc a).1) : ∀ (xs : List α) (acc : BState K × Nat), GFr acc.1 (xs.foldl f acc).1 := by
  intro xs
  induction xs with
  | nil => intro acc; exact GFr.refl _
  | cons a rest ih => intro acc; exact (hf acc a).trans (ih (f acc a))

theorem mulMany_gfr (b : BState K) (xs : List Nat) : GFr b (b.mulMany xs).1 := by
  unfold BState.mulMany
  cases xs with
  | nil => exact defineConst_gfr _ _
  | cons x rest => exact foldl_gfr _ (fun acc y => mul_gfr _ _ _) rest (b, x)

theorem innerProduct_gfr (b : BState K) (xs ys : List Nat) : GFr b (b.innerProduct xs ys).1 := by
  unfold BState.innerProduct
  exact (defineConst_gfr b 0).trans (foldl_gfr _ (fun acc xy => mulAdd_gfr _ _ _ _) _ _)

theorem expPow2_gfr (b : BState K) (base k : Nat) : GFr b (b.expPow2 base k).1 := by
  unfold BState.expPow2
  exact foldl_gfr _ (fun acc _ => mul_gfr _ _ _) _ (b, base)

theorem reconstructBits_gfr (b : BState K) (pow2 : Nat → K) (bits : List Nat) :
    GFr b (b.reconstructBits pow2 bits).1 := by
  unfold BState.reconstructBits
  refine (defineConst_gfr b 0).trans (foldl_gfr _ (fun acc bi => ?_) _ _)
  exact ((defineConst_gfr _ _).trans (assertBool_gfr _ _)).trans (mulAdd_gfr _ _ _ _)

/-! ### `push_non_primitive_op_with_outputs` as called by `decompose_to_bits` -/

theorem pushOuts_fields (call : Nat) : ∀ (idxs : List Nat) (acc : BState K × List Nat),
    (pushOuts call idxs acc).1.nodes.toList = acc.1.nodes.toList ++ idxs.map (fun i => Expr.npOut call i) ∧
    (pushOuts call idxs acc).1.pubCount = acc.1.pubCount ∧
    (pushOuts call idxs acc).1.npOps = acc.1.npOps := by
  intro idxs
  induction idxs with
  | nil => intro acc; simp [pushOuts]
  | cons i rest ih =>
    intro acc
    simp only [pushOuts, List.foldl_cons]
    obtain ⟨h1, h2, h3⟩ := ih (({ acc.1 with nodes := acc.1.nodes.push (Expr.npOut call i) } : BState K),
      acc.2 ++ [acc.1.nodes.size])
    simp only [pushOuts] at h1 h2 h3
    refine ⟨?_, h2, h3⟩
    rw [h1]
    simp

/-- The hint call of `decompose_to_bits`: one input group `[[x]]`, `x` handed out before. -/
theorem RI.pushHint {b : BState K} (h : RI b) {x : Nat} (hx : x < b.nodes.size) (n : Nat) :
    RI (b.pushNp .hintBits [[x]] n).1 := by
  rw [pushNp_eq]
  obtain ⟨f1, f2, f3⟩ := pushOuts_fields b.nodes.size (List.range n)
    (({ b with nodes := b.nodes.push (Expr.npCall b.npOps.size [[x]].flatten) } : BState K), [])
  generalize hS : pushOuts b.nodes.size (List.range n)
    (({ b with nodes := b.nodes.push (Expr.npCall b.npOps.size [[x]].flatten) } : BState K), []) = S
    at f1 f2 f3
  simp only at f1 f2 f3 ⊢
  have hn : S.1.nodes.toList = b.nodes.toList ++
      (Expr.npCall b.npOps.size [[x]].flatten :: (List.range n).map (fun i => Expr.npOut b.nodes.size i)) := by
    rw [f1]; simp
  obtain ⟨pre, cases'⟩ := get_append hn
  have hsz : b.nodes.size ≤ S.1.nodes.size := by
    have := congrArg List.length hn
    simp only [Array.length_toList, List.length_append] at this
    omega
  -- a node of the new state is an old node, the call node, or an output node of the new call
  have key : ∀ (i : Nat) (e : Expr K), S.1.nodes[i]? = some e →
      b.nodes[i]? = some e ∨ (i = b.nodes.size ∧ e = Expr.npCall b.npOps.size [[x]].flatten) ∨
      (b.nodes.size < i ∧ ∃ k, e = Expr.npOut b.nodes.size k) := by
    intro i e he
    rcases cases' i e he with ⟨_, h1⟩ | ⟨h0, h1⟩
    · exact Or.inl h1
    · right
      by_cases hi0 : i - b.nodes.size = 0
      · rw [hi0] at h1
        simp only [List.getElem?_cons_zero, Option.some.injEq] at h1
        exact Or.inl ⟨by omega, h1.symm⟩
      · obtain ⟨m, hm⟩ := Nat.exists_eq_succ_of_ne_zero hi0
        rw [hm, List.getElem?_cons_succ] at h1
        have hmem := List.mem_of_getElem? h1
        obtain ⟨k, _, hk⟩ := List.mem_map.mp hmem
        exact Or.inr ⟨by omega, k, hk.symm⟩
  have z0lt : 0 < b.nodes.size := get_lt h.z0
  refine ⟨by rw [pre 0 z0lt]; exact h.z0, ?_, ?_, ?_, ?_, ?_⟩
  · intro i pos hi
    rw [f2]
    have old : ∀ (j : Nat), S.1.nodes[j]? = some (Expr.pub pos) → b.nodes[j]? = some (Expr.pub pos) := by
      intro j hj
      rcases key j _ hj with hjo | ⟨_, hpe⟩ | ⟨_, k, hpe⟩
      · exact hjo
      · cases hpe
      · cases hpe
    obtain ⟨h1, h2⟩ := h.pu i pos (old i hi)
    exact ⟨h1, fun j hj => h2 j (old j hj)⟩
  · intro pos hpos
    rw [f2] at hpos
    obtain ⟨i, hi⟩ := h.pf pos hpos
    exact ⟨i, by rw [pre i (get_lt hi)]; exact hi⟩
  · intro i op ins hi
    simp only [Array.size_push, f3]
    rcases key i _ hi with hio | ⟨_, hpe⟩ | ⟨_, k, hpe⟩
    · have := h.co i op ins hio; omega
    · cases hpe; omega
    · cases hpe
  · intro i call k hi
    rcases key i _ hi with hio | ⟨_, hpe⟩ | ⟨hlt, k', hpe⟩
    · exact h.oc i call k hio
    · cases hpe
    · cases hpe; exact hlt
  · intro op d hd
    rw [f3, Array.getElem?_push] at hd
    split at hd
    · -- the new op
      next hop =>
      cases hd
      refine ⟨rfl, x, rfl, (by show x < S.1.nodes.size; omega), ?_⟩
      rw [ownOut_ext pre h.oc op hx]
      unfold ownOut
      cases hxe : b.nodes[x]? with
      | none => rfl
      | some e =>
        cases e with
        | npOut call k =>
          simp only
          cases hce : b.nodes[call]? with
          | none => rfl
          | some e' =>
            cases e' with
            | npCall op' ins' =>
              have := h.co call op' ins' hce
              simp only [beq_eq_false_iff_ne, ne_eq]
              omega
            | _ => rfl
        | _ => rfl
    · obtain ⟨hk, x', hins, hx', hown⟩ := h.np op d hd
      exact ⟨hk, x', hins, (by show x' < S.1.nodes.size; omega), by rw [ownOut_ext pre h.oc op hx']; exact hown⟩

theorem RI.decomposeToBits {b : BState K} (h : RI b) (pow2 : Nat → K) {x : Nat}
    (hx : proper b.nodes x = true) (n : Nat) : RI (b.decomposeToBits pow2 x n).1 := by
  unfold BState.decomposeToBits
  have h1 := h.pushHint (proper_lt hx) n
  cases hp : b.pushNp .hintBits [[x]] n with
  | mk s1 bits =>
    rw [hp] at h1
    simp only at h1 ⊢
    exact h1.frame ((reconstructBits_gfr s1 pow2 bits).trans (connect_gfr _ _ _))

theorem init_RI : RI (BState.init : BState K) := by
  have key : ∀ (i : Nat) (e : Expr K), (BState.init : BState K).nodes[i]? = some e → e = Expr.const 0 := by
    intro i e he
    simp only [BState.init] at he
    cases i with
    | zero => simpa using he.symm
    | succ i => simp at he
  refine ⟨by simp [BState.init], ?_, ?_, ?_, ?_, ?_⟩
  · intro i pos hi; cases key i _ hi
  · intro pos hpos; simp [BState.init] at hpos
  · intro i op ins hi; cases key i _ hi
  · intro i call k hi; cases key i _ hi
  · intro op d hd; simp [BState.init] at hd

/-- **The invariant holds in every state reachable through the builder API.** -/
theorem reachablePrim_RI {b : BState K} (h : ReachablePrim b) : RI b := by
  induction h with
  | init => exact init_RI
  | defineConst _ v ih => exact ih.frame (defineConst_gfr _ v)
  | allocPublic _ ih => exact ih.allocPublic
  | allocPrivate _ ih => exact ih.frame (allocPrivate_gfr _)
  | add _ _ _ ih => exact ih.frame (add_gfr _ _ _)
  | sub _ _ _ ih => exact ih.frame (sub_gfr _ _ _)
  | mul _ _ _ ih => exact ih.frame (mul_gfr _ _ _)
  | div _ _ _ ih => exact ih.frame (div_gfr _ _ _)
  | horner _ _ _ _ _ ih => exact ih.frame (horner_gfr _ _ _ _ _)
  | boolCheck _ _ ih => exact ih.frame (boolCheck_gfr _ _)
  | mulAdd _ _ _ _ ih => exact ih.frame (mulAdd_gfr _ _ _ _)
  | connect _ _ _ ih => exact ih.frame (connect_gfr _ _ _)
  | assertZero _ _ ih => exact ih.frame (connect_gfr _ _ _)
  | assertBool _ _ ih => exact ih.frame (assertBool_gfr _ _)
  | select _ _ _ _ ih => exact ih.frame (select_gfr _ _ _ _)
  | mulMany _ _ ih => exact ih.frame (mulMany_gfr _ _)
  | innerProduct _ _ _ ih => exact ih.frame (innerProduct_gfr _ _ _)
  | expPow2 _ _ k ih => exact ih.frame (expPow2_gfr _ _ k)
  | reconstructBits _ pow2 _ ih => exact ih.frame (reconstructBits_gfr _ pow2 _)
  | decomposeToBits _ pow2 hx n ih => exact ih.decomposeToBits pow2 hx n

end ops

/-! ### From the invariant to the decidable guards -/

section guards
variable [Zero K]

theorem pubOk_of_RI {b : BState K} (h : RI b) : pubOk b = true := by
  unfold pubOk
  rw [List.all_eq_true]
  intro i _
  split
  · next pos hi =>
    obtain ⟨h1, h2⟩ := h.pu i pos hi
    simp only [Bool.and_eq_true, decide_eq_true_eq, List.all_eq_true]
    refine ⟨h1, fun j _ => ?_⟩
    split
    · next pos' hj =>
      by_cases hpp : pos' = pos
      · subst hpp
        simp [h2 j hj]
      · simp [hpp]
    · rfl
  · rfl

theorem pubFull_of_RI {b : BState K} (h : RI b) : pubFull b = true := by
  unfold pubFull
  rw [List.all_eq_true]
  intro pos hpos
  obtain ⟨i, hi⟩ := h.pf pos (List.mem_range.mp hpos)
  rw [List.any_eq_true]
  exact ⟨i, List.mem_range.mpr (get_lt hi), by rw [hi]; simp⟩

theorem primOk_of_RI [Neg K] {b : BState K} (h : RI b) : primOk b = true := by
  unfold primOk
  rw [List.all_eq_true]
  intro op _
  cases hd : b.npOps[op]? with
  | none => rfl
  | some d =>
    obtain ⟨hk, x, hins, _, hown⟩ := h.np op d hd
    simp [hk, hins, hown]

end guards

section
variable [Zero K] [One K] [Add K] [Sub K] [Mul K] [Neg K] [DecidableEq K]

/-- **`ReachablePrim b → BState.Ok b ∧ privOk b ∧ pubOk b ∧ primOk b ∧ pubFull b`** (any carrier). -/
theorem reachablePrim_guards {b : BState K} (h : ReachablePrim b) :
    b.Ok ∧ privOk b = true ∧ pubOk b = true ∧ primOk b = true ∧ pubFull b = true :=
  ⟨h.reachable.ok, h.privOk, pubOk_of_RI (reachablePrim_RI h), primOk_of_RI (reachablePrim_RI h),
    pubFull_of_RI (reachablePrim_RI h)⟩

end

end P3R.C02R

/-! ### The caller's side: `set_public_inputs` / `set_private_inputs` on a table -/

namespace P3R.C02R
open P3R P3R.C02 P3R.C02S

section calls
variable {K : Type}

theorem foldlM_setS_eq : ∀ (rows : List Nat) (t t' : Array Bool),
    rows.foldlM (fun t o => setS t o) t = some t' →
    t' = rows.foldl (fun t i => t.setIfInBounds i true) t := by
  intro rows
  induction rows with
  | nil => intro t t' h; simp only [List.foldlM_nil, pure, Option.some.injEq] at h; exact h.symm
  | cons r rest ih =>
    intro t t' h
    simp only [List.foldlM_cons] at h
    cases hs : setS t r with
    | none => rw [hs] at h; cases h
    | some t1 =>
      rw [hs] at h
      have h1 : t1 = t.setIfInBounds r true := by
        unfold setS at hs
        split at hs
        · exact (Option.some.inj hs).symm
        · cases hs
      simp only [List.foldl_cons]
      rw [← h1]
      exact ih t1 t' h

theorem rows_zipIdx (rows : Array Nat) (vs : List K) (h : vs.length = rows.size) :
    vs.zipIdx.map (fun (vi : K × Nat) => rows.getD vi.2 0) = rows.toList := by
  apply List.ext_getElem
  · simp [h]
  · intro i h1 h2
    have hi : i < rows.size := by simpa using h2
    simp [Array.getD, hi]

end calls

section calls2
variable {K : Type} [Field K] [DecidableEq K]

/-- A successful `set_public_inputs` sets exactly the public rows (in the shape). -/
theorem setPublics_shape (c : Circuit K) (w w' : Array (Option K)) (pubs : List K)
    (h : setPublics c w pubs = .ok w') :
    shape w' = c.pubRows.toList.foldl (fun t i => t.setIfInBounds i true) (shape w) := by
  unfold setPublics at h
  split at h
  · cases h
  · next hlen =>
    have hlen' : pubs.length = c.pubRows.size := by simpa using hlen
    have := C19.foldlM_setW_ok_shape (fun (vi : K × Nat) => c.pubRows.getD vi.2 0) (fun vi => vi.1)
      pubs.zipIdx w w' h
    rw [rows_zipIdx c.pubRows pubs hlen'] at this
    exact foldlM_setS_eq _ _ _ this

/-- A successful `set_private_inputs` sets exactly the private rows (in the shape). -/
theorem setPrivates_shape (c : Circuit K) (w w' : Array (Option K)) (privs : List K)
    (h : setPrivates c w privs = .ok w') :
    shape w' = c.privRows.toList.foldl (fun t i => t.setIfInBounds i true) (shape w) := by
  unfold setPrivates at h
  split at h
  · cases h
  · next hlen =>
    have hlen' : privs.length = c.privRows.size := by simpa using hlen
    have := C19.foldlM_setW_ok_shape (fun (vi : K × Nat) => c.privRows.getD vi.2 0) (fun vi => vi.1)
      privs.zipIdx w w' h
    rw [rows_zipIdx c.privRows privs hlen'] at this
    exact foldlM_setS_eq _ _ _ this

/-- **The table of the usual session has the shape `allInputsSet c`.** Whenever `set_public_inputs pubs`
followed by `set_private_inputs privs` succeeds on the fresh table, exactly the public and the private rows
are set. No distinctness of the rows is needed: `setW` is write-once with an equality re-check, so a repeated
row either conflicts (the session fails) or leaves the table unchanged. -/
theorem applyCalls_shape (c : Circuit K) (pubs privs : List K) (w0 : Array (Option K))
    (h : applyCalls c (Array.replicate c.witnessCount none) [(true, pubs), (false, privs)] = .ok w0) :
    shape w0 = allInputsSet c := by
  simp only [applyCalls] at h
  obtain ⟨w1, h1, h⟩ := C19.bindE h
  obtain ⟨w2, h2, h⟩ := C19.bindE h
  cases h
  rw [setPrivates_shape c w1 _ privs h2, setPublics_shape c _ w1 pubs h1]
  unfold allInputsSet allSet
  rw [List.foldl_append]
  congr 2
  simp [shape]

end calls2

end P3R.C02R

/-! ### The input rows of a compiled circuit are below `witnessCount` -/

namespace P3R.C02R
open P3R P3R.C02T P3R.C02S P3R.C02O P3R.C09C P3R.C03 P3R.C09R

section bounds
variable {K : Type}

/-- A predicate on lowering states kept by the four primitive state updates. -/
structure Closed (Q : LState K → Prop) : Prop where
  alloc : ∀ (s : LState K) (e : Nat), Q s → Q (s.allocWitness e).1
  setW : ∀ (s : LState K) (e w : Nat), Q s → Q (s.setW e w)
  push : ∀ (s : LState K) (op : Op K), Q s → Q (s.pushOp op)
  emitted : ∀ (s : LState K) (m : Array Bool), Q s → Q { s with emitted := m }

section
variable [Neg K] {Q : LState K → Prop}

theorem emitNpCall_closed (hQ : Closed Q) (s : LState K) (nodes : Array (Expr K)) (npOps : Array NpData)
    (opId : Nat) (s' : LState K) (hs : Q s) (h : s.emitNpCall nodes npOps opId = .ok s') : Q s' := by
  unfold LState.emitNpCall at h
  split_ifs at h
  · simp only [Except.ok.injEq] at h; subst h; exact hs
  · split at h
    · simp at h
    · dsimp only at h
      split at h
      · simp at h
      · next outs _ =>
        have hpre : ∀ (l : List (Nat × Nat)) (st : LState K), Q st →
            Q (l.foldl (fun (st : LState K) (o : Nat × Nat) =>
              match st.e2w.getD o.2 none with
              | some _ => st
              | none => let (st', w) := st.allocWitness o.2; st'.setW o.2 w) st) := by
          intro l
          induction l with
          | nil => intro st h; exact h
          | cons o l ih =>
            intro st hst
            simp only [List.foldl_cons]
            apply ih
            split
            · exact hst
            · exact hQ.setW _ _ _ (hQ.alloc _ o.2 hst)
        have hs1 := hpre outs _ (hQ.emitted s (s.emitted.setIfInBounds opId true) hs)
        split at h
        · split at h
          · simp at h
          · simp only [Except.ok.injEq] at h; subst h
            exact hQ.push _ _ hs1
        · split at h
          · split at h
            · simp at h
            · simp only [Except.ok.injEq] at h; subst h
              exact hQ.push _ _ hs1
          · simp at h

theorem emitNode_closed (hQ : Closed Q) (s : LState K) (nodes : Array (Expr K)) (npOps : Array NpData)
    (i : Nat) (e : Expr K) (s' : LState K) (hs : Q s) (h : s.emitNode nodes npOps i e = .ok s') : Q s' := by
  have ha := hQ.alloc s i hs
  unfold LState.emitNode at h
  cases e with
  | const _ => simp only [Except.ok.injEq] at h; subst h; exact hs
  | pub _ => simp only [Except.ok.injEq] at h; subst h; exact hs
  | priv _ => simp only [Except.ok.injEq] at h; subst h; exact hs
  | add l r =>
    dsimp only at h
    generalize s.allocWitness i = r0 at h ha
    obtain ⟨s1, out⟩ := r0
    dsimp only at h ha
    split at h <;> try (simp at h; done)
    simp only [Except.ok.injEq] at h; subst h
    exact hQ.setW _ _ _ (hQ.push _ _ ha)
  | mul l r =>
    dsimp only at h
    generalize s.allocWitness i = r0 at h ha
    obtain ⟨s1, out⟩ := r0
    dsimp only at h ha
    split at h <;> try (simp at h; done)
    simp only [Except.ok.injEq] at h; subst h
    exact hQ.setW _ _ _ (hQ.push _ _ ha)
  | div l r =>
    dsimp only at h
    generalize s.allocWitness i = r0 at h ha
    obtain ⟨s1, out⟩ := r0
    dsimp only at h ha
    split at h <;> try (simp at h; done)
    simp only [Except.ok.injEq] at h; subst h
    exact hQ.setW _ _ _ (hQ.push _ _ ha)
  | horner acc alpha pz px =>
    dsimp only at h
    generalize s.allocWitness i = r0 at h ha
    obtain ⟨s1, out⟩ := r0
    dsimp only at h ha
    split at h <;> try (simp at h; done)
    simp only [Except.ok.injEq] at h; subst h
    exact hQ.setW _ _ _ (hQ.push _ _ ha)
  | boolCheck v =>
    dsimp only at h
    generalize s.allocWitness i = r0 at h ha
    obtain ⟨s1, out⟩ := r0
    dsimp only at h ha
    split at h <;> try (simp at h; done)
    simp only [Except.ok.injEq] at h; subst h
    exact hQ.setW _ _ _ (hQ.push _ _ ha)
  | mulAdd a b c =>
    dsimp only at h
    generalize s.allocWitness i = r0 at h ha
    obtain ⟨s1, out⟩ := r0
    dsimp only at h ha
    split at h <;> try (simp at h; done)
    simp only [Except.ok.injEq] at h; subst h
    exact hQ.setW _ _ _ (hQ.push _ _ ha)
  | sub l r =>
    dsimp only at h
    generalize s.allocWitness i = r0 at h ha
    obtain ⟨s1, res⟩ := r0
    dsimp only at h ha
    split at h
    · simp at h
    · split at h
      · have hb := hQ.alloc s1 nodes.size ha
        generalize s1.allocWitness nodes.size = r1 at h hb
        obtain ⟨s2, nw⟩ := r1
        dsimp only at h hb
        simp only [Except.ok.injEq] at h; subst h
        exact hQ.setW _ _ _ (hQ.push _ _ (hQ.push _ _ hb))
      · split at h
        · simp at h
        · simp only [Except.ok.injEq] at h; subst h
          exact hQ.setW _ _ _ (hQ.push _ _ ha)
  | npCall op _ => exact emitNpCall_closed hQ s nodes npOps op s' hs h
  | npOut call _ =>
    dsimp only at h
    split at h
    · split at h
      · simp at h
      · next s1 hnp =>
        have h1 := emitNpCall_closed hQ s nodes npOps _ s1 hs hnp
        split at h
        · simp only [Except.ok.injEq] at h; subst h; exact h1
        · simp only [Except.ok.injEq] at h; subst h
          exact hQ.setW _ _ _ (hQ.alloc _ i h1)
    · simp at h

end

/-- `next` does not go below `n`, root slots are below `next`, the input rows are `P`, `V`. -/
def QB (n : Nat) (P V : Array Nat) (s : LState K) : Prop :=
  n ≤ s.next ∧ (∀ r v, s.rootW.getD r none = some v → v < s.next) ∧ s.pubRows = P ∧ s.privRows = V

theorem QB_closed (n : Nat) (P V : Array Nat) : Closed (QB (K := K) n P V) := by
  refine ⟨?_, fun s e w h => h, fun s op h => h, fun s m h => h⟩
  intro s e h
  cases hal : s.allocWitness e with
  | mk s1 w =>
    obtain ⟨_, _, hrb1, _, hcase⟩ := alloc_run h.2.1 hal
    show QB n P V s1
    refine ⟨?_, hrb1, (alloc_pub' hal).trans h.2.2.1, (alloc_fields' hal).2.2.trans h.2.2.2⟩
    have := h.1
    rcases hcase with h1 | ⟨h1, _⟩ <;> omega

/-- Root slots and input rows are below `next` (an input row may still be the initial `0`). -/
structure RB (s : LState K) : Prop where
  rb : ∀ r v, s.rootW.getD r none = some v → v < s.next
  pu : ∀ r ∈ s.pubRows.toList, r < s.next ∨ r = 0
  pv : ∀ r ∈ s.privRows.toList, r < s.next ∨ r = 0

theorem RB.mono {s s' : LState K} (h : RB s) (hn : s.next ≤ s'.next)
    (hrb : ∀ r v, s'.rootW.getD r none = some v → v < s'.next)
    (hp : s'.pubRows = s.pubRows) (hv : s'.privRows = s.privRows) : RB s' :=
  ⟨hrb, fun r hr => by rw [hp] at hr; exact (h.pu r hr).imp (fun h => by omega) id,
    fun r hr => by rw [hv] at hr; exact (h.pv r hr).imp (fun h => by omega) id⟩

theorem fConst_RB {s s' : LState K} {i : Nat} {e : Expr K} (hI : RB s) (h : fConst s i e = .ok s') :
    RB s' ∧ s.next ≤ s'.next ∧ ((∃ v, e = Expr.const v) → 0 < s'.next) := by
  cases e with
  | const v =>
    simp only [fConst] at h
    cases hal : s.allocWitness i with
    | mk s1 w =>
      rw [hal] at h
      simp only [Except.ok.injEq] at h
      subst h
      obtain ⟨_, _, hrb1, hw, hcase⟩ := alloc_run hI.rb hal
      have hn : s.next ≤ s1.next := by rcases hcase with h1 | ⟨h1, _⟩ <;> omega
      have h1 : RB s1 := hI.mono hn hrb1 (alloc_pub' hal) (alloc_fields' hal).2.2
      exact ⟨⟨h1.rb, h1.pu, h1.pv⟩, hn, fun _ => by
        show 0 < s1.next
        omega⟩
  | _ =>
    simp only [fConst, Except.ok.injEq] at h
    subst h
    exact ⟨hI, Nat.le_refl _, fun ⟨v, hv⟩ => by cases hv⟩

theorem mem_setIfInBounds {a : Array Nat} {i v r : Nat} (h : r ∈ (a.setIfInBounds i v).toList) :
    r ∈ a.toList ∨ r = v := by
  rw [Array.toList_setIfInBounds] at h
  exact List.mem_or_eq_of_mem_set h

theorem fPub_RB {s s' : LState K} {i : Nat} {e : Expr K} (hI : RB s) (h : fPub s i e = .ok s') :
    RB s' ∧ s.next ≤ s'.next := by
  cases e with
  | pub pos =>
    simp only [fPub] at h
    cases hal : s.allocWitness i with
    | mk s1 w =>
      rw [hal] at h
      simp only [Except.ok.injEq] at h
      subst h
      obtain ⟨_, _, hrb1, hw, hcase⟩ := alloc_run hI.rb hal
      have hn : s.next ≤ s1.next := by rcases hcase with h1 | ⟨h1, _⟩ <;> omega
      have h1 := hI.mono hn hrb1 (alloc_pub' hal) (alloc_fields' hal).2.2
      refine ⟨⟨h1.rb, ?_, h1.pv⟩, hn⟩
      intro r hr
      simp only [LState.setW, LState.pushOp] at hr
      rcases mem_setIfInBounds hr with hr | rfl
      · exact h1.pu r hr
      · exact Or.inl hw
  | _ =>
    simp only [fPub, Except.ok.injEq] at h
    subst h
    exact ⟨hI, Nat.le_refl _⟩

theorem fPriv_RB {s s' : LState K} {i : Nat} {e : Expr K} (hI : RB s) (h : fPriv s i e = .ok s') :
    RB s' ∧ s.next ≤ s'.next := by
  cases e with
  | priv pos =>
    simp only [fPriv] at h
    cases hal : s.allocWitness i with
    | mk s1 w =>
      rw [hal] at h
      simp only [Except.ok.injEq] at h
      subst h
      obtain ⟨_, _, hrb1, hw, hcase⟩ := alloc_run hI.rb hal
      have hn : s.next ≤ s1.next := by rcases hcase with h1 | ⟨h1, _⟩ <;> omega
      have h1 := hI.mono hn hrb1 (alloc_pub' hal) (alloc_fields' hal).2.2
      refine ⟨⟨h1.rb, h1.pu, ?_⟩, hn⟩
      intro r hr
      simp only [LState.setW] at hr
      rcases mem_setIfInBounds hr with hr | rfl
      · exact h1.pv r hr
      · exact Or.inl hw
  | _ =>
    simp only [fPriv, Except.ok.injEq] at h
    subst h
    exact ⟨hI, Nat.le_refl _⟩

/-- **Every public and private row of a lowering is below `witnessCount`** (node 0 a constant, as
`ExpressionBuilder::new` makes it). -/
theorem lower_rows_lt [Neg K] (b : BState K) (hz : ∃ v, b.nodes[0]? = some (Expr.const v))
    (l : Lowered K) (hl : lower b = .ok l) :
    ∀ r, r ∈ l.pubRows.toList ∨ r ∈ l.privRows.toList → r < l.witnessCount := by
  have h := hl
  rw [lower_eq] at h
  simp only [bind, Except.bind, forNodes] at h
  obtain ⟨v0, hv0⟩ := hz
  have hsz : 0 < b.nodes.size := get_lt hv0
  have P0 : RB (lowerInit b) := by
    refine ⟨?_, ?_, ?_⟩
    · intro r v hv
      simp only [lowerInit, getD_replicate] at hv
      cases hv
    · intro r hr
      simp only [lowerInit, Array.toList_replicate, List.mem_replicate] at hr
      exact Or.inr hr.2
    · intro r hr
      simp only [lowerInit, Array.toList_replicate, List.mem_replicate] at hr
      exact Or.inr hr.2
  split at h
  · cases h
  · rename_i s1 hs1
    have J1 := fold_inv b.nodes fConst (lowerInit b) (fun k s => RB s ∧ (0 < k → 0 < s.next))
      ⟨P0, fun h => absurd h (Nat.lt_irrefl 0)⟩
      (fun k s s' hk _ hI hf => by
        obtain ⟨h1, h2, h3⟩ := fConst_RB hI.1 hf
        refine ⟨h1, fun _ => ?_⟩
        by_cases hk0 : k = 0
        · subst hk0
          apply h3
          refine ⟨v0, ?_⟩
          have : b.nodes[0]? = some b.nodes[0] := Array.getElem?_eq_getElem hk
          rw [this] at hv0
          exact Option.some.inj hv0
        · have := hI.2 (by omega); omega)
      _ (Nat.le_refl _) s1 hs1
    have hpos1 : 0 < s1.next := J1.2 hsz
    split at h
    · cases h
    · rename_i s2 hs2
      have J2 := fold_inv b.nodes fPub s1 (fun _ s => RB s ∧ 0 < s.next) ⟨J1.1, hpos1⟩
        (fun k s s' hk _ hI hf => by
          obtain ⟨h1, h2⟩ := fPub_RB hI.1 hf
          exact ⟨h1, by have := hI.2; omega⟩)
        _ (Nat.le_refl _) s2 hs2
      split at h
      · cases h
      · rename_i s3 hs3
        have J3 := fold_inv b.nodes fPriv s2 (fun _ s => RB s ∧ 0 < s.next) J2
          (fun k s s' hk _ hI hf => by
            obtain ⟨h1, h2⟩ := fPriv_RB hI.1 hf
            exact ⟨h1, by have := hI.2; omega⟩)
          _ (Nat.le_refl _) s3 hs3
        split at h
        · cases h
        · rename_i s4 hs4
          have J4 := fold_inv b.nodes (fun st i e => st.emitNode b.nodes b.npOps i e) s3
            (fun _ s => QB s3.next s3.pubRows s3.privRows s)
            ⟨Nat.le_refl _, J3.1.rb, rfl, rfl⟩
            (fun k s s' hk _ hI hf =>
              emitNode_closed (QB_closed _ _ _) s b.nodes b.npOps k _ s' hI hf)
            _ (Nat.le_refl _) s4 hs4
          split at h
          · cases h
          · simp only [Except.ok.injEq] at h
            obtain ⟨_, hbp⟩ := backfill_fields (List.range (b.nodes.size + 1)) s4
            obtain ⟨hbu, hbn⟩ := backfill_pub_next (List.range (b.nodes.size + 1)) s4
            subst h
            simp only []
            rw [hbp, hbu, hbn]
            obtain ⟨hn4, _, hp4, hv4⟩ := J4
            have hpos3 := J3.2
            intro r hr
            rcases hr with hr | hr
            · rw [hp4] at hr
              rcases J3.1.pu r hr with h1 | h1 <;> omega
            · rw [hv4] at hr
              rcases J3.1.pv r hr with h1 | h1 <;> omega

end bounds

section compiled
variable {K : Type} [Neg K] [Zero K] [DecidableEq K]

/-- **Every public and private row of a compiled circuit is below `witnessCount`.** -/
theorem compile_rows_lt (b : BState K) (hok : b.Ok) (hpo : privOk b = true) (hpu : pubOk b = true)
    (hprim : primOk b = true) (hz : ∃ v, b.nodes[0]? = some (Expr.const v))
    (c : Circuit K) (hc : compile b = .ok c) :
    ∀ r, r ∈ c.pubRows.toList ∨ r ∈ c.privRows.toList → r < c.witnessCount := by
  obtain ⟨l, hl, rfl⟩ := compile_eq_compiledOf b c hc
  obtain ⟨t, ht, _⟩ := lower_shape_ok b hok hpo hpu hprim l hl
  obtain ⟨_, hB, _, _⟩ := dedup_keeps_shape l.ops _ t (lower_io b l hl) ht
  have hsz : (Lowered.inputsSet l).size = l.witnessCount := allSet_size _ _
  rw [hsz] at hB
  have hrows := lower_rows_lt b hz l hl
  have hc2 : (compiledOf l).pubRows.toList = l.pubRows.toList.map (resolve (dedup l.ops).2) := by
    simp [compiledOf, optimize]
  have hc3 : (compiledOf l).privRows.toList = l.privRows.toList.map (resolve (dedup l.ops).2) := by
    simp [compiledOf, optimize]
  intro r hr
  show r < l.witnessCount
  rw [hc2, hc3] at hr
  rcases hr with hr | hr
  · obtain ⟨r0, hr0, rfl⟩ := List.mem_map.mp hr
    exact resolve_lt hB (hrows r0 (Or.inl hr0))
  · obtain ⟨r0, hr0, rfl⟩ := List.mem_map.mp hr
    exact resolve_lt hB (hrows r0 (Or.inr hr0))

end compiled

/-! ### The session succeeds in supplying the inputs -/

section supply
variable {K : Type} [Field K] [DecidableEq K]
open P3R.C02

theorem setW_ok_of_agree (t : Array (Option K)) (w : Nat → K) (i : Nat) (v : K) (h : Agree t w)
    (hv : v = w i) (hi : i < t.size) : ∃ t', setW t i v = .ok t' ∧ Agree t' w ∧ t'.size = t.size := by
  have hg := setW_good t w i v h hv
  have hex : ∃ t', setW t i v = .ok t' ∧ t'.size = t.size := by
    unfold setW
    rw [Array.getElem?_eq_getElem hi]
    cases hti : t[i] with
    | none => exact ⟨_, rfl, by simp⟩
    | some old =>
      have hs : slot t i = some old := by unfold slot; rw [Array.getElem?_eq_getElem hi, hti]
      have : old = v := by rw [hv]; exact h i old hs
      simp only [this, if_true]
      exact ⟨t, rfl, rfl⟩
  obtain ⟨t', ht', hsz⟩ := hex
  rw [ht'] at hg
  exact ⟨t', ht', hg, hsz⟩

theorem foldlM_setW_ok {α : Type} (f : α → Nat) (g : α → K) (w : Nat → K) :
    ∀ (l : List α) (t : Array (Option K)), Agree t w → (∀ x ∈ l, f x < t.size ∧ g x = w (f x)) →
      ∃ t', l.foldlM (fun t x => setW t (f x) (g x)) t = .ok t' ∧ Agree t' w ∧ t'.size = t.size := by
  intro l
  induction l with
  | nil => intro t h _; exact ⟨t, rfl, h, rfl⟩
  | cons x xs ih =>
    intro t h hall
    obtain ⟨hx1, hx2⟩ := hall x List.mem_cons_self
    obtain ⟨t1, h1, ha1, hs1⟩ := setW_ok_of_agree t w (f x) (g x) h hx2 hx1
    obtain ⟨t', h2, ha2, hs2⟩ := ih t1 ha1 (fun y hy => by
      rw [hs1]; exact hall y (List.mem_cons_of_mem _ hy))
    refine ⟨t', ?_, ha2, hs2.trans hs1⟩
    simp only [List.foldlM_cons, h1]
    exact h2

/-- Supplying a vector that agrees with `w` on in-range rows succeeds. -/
theorem supply_ok (rows : Array Nat) (vs : List K) (w : Nat → K) (t : Array (Option K)) (h : Agree t w)
    (hrows : ∀ r ∈ rows.toList, r < t.size) (hlen : vs.length = rows.size)
    (hv : ∀ (i : Nat) (v : K), vs[i]? = some v → v = w (rows.getD i 0)) :
    ∃ t', (vs.zipIdx).foldlM (fun t (vi : K × Nat) => setW t (rows.getD vi.2 0) vi.1) t = .ok t' ∧
      Agree t' w ∧ t'.size = t.size := by
  apply foldlM_setW_ok (fun (vi : K × Nat) => rows.getD vi.2 0) (fun vi => vi.1) w _ t h
  rintro ⟨v, i⟩ hvi
  have hget : vs[i]? = some v := List.mk_mem_zipIdx_iff_getElem?.mp hvi
  have hi : i < rows.size := by
    rw [← hlen]
    by_contra hge
    rw [List.getElem?_eq_none (by omega)] at hget
    cases hget
  refine ⟨?_, hv i v hget⟩
  apply hrows
  simp [Array.getD, hi]

end supply

end P3R.C02R

namespace P3R.C02
open P3R P3R.C02S P3R.C02O P3R.C02R P3R.C09R

variable {K : Type} [Field K] [DecidableEq K]

/-- **Every guard of `run_total_on_satisfying_inputs` holds in every `ReachablePrim` state.** -/
theorem reachable_guards {b : BState K} (h : ReachablePrim b) :
    b.Ok ∧ privOk b = true ∧ pubOk b = true ∧ primOk b = true ∧ pubFull b = true :=
  reachablePrim_guards h

/-- **C02 / `run_total_reachable`.** For every builder state reachable through the builder API, its compiled
circuit, every assignment satisfying the compiled relations (hints agreeing, rewrite map respected), supplied
through a table holding exactly the inputs: the run succeeds and returns the assignment. -/
theorem run_total_reachable (canon : K → Nat) (b : BState K) (h : ReachablePrim b)
    (c : Circuit K) (hc : compile b = .ok c)
    (w0 : Array (Option K)) (w pub : Nat → K) (h0 : Agree w0 w) (hsh : shape w0 = allInputsSet c)
    (hall : ∀ op ∈ c.ops.toList, op.holds w pub ∧ RunnerWrites w op ∧ HintAgrees canon w op)
    (hrw : ∀ dc ∈ c.rewrite, w dc.1 = w (resolve c.rewrite dc.2)) :
    ∃ t, runFrom canon c w0 = .ok t ∧ ∀ j, j < t.witness.size → t.witness.getD j 0 = w j := by
  obtain ⟨hok, hpo, hpu, hprim, hpf⟩ := reachable_guards h
  exact run_total_on_satisfying_inputs canon b hok hpo hpu hprim hpf c hc w0 w pub h0 hsh hall hrw

end P3R.C02

namespace P3R.C02
open P3R P3R.C02S P3R.C02O P3R.C02R P3R.C09R

variable {K : Type} [Field K] [DecidableEq K]

/-- **C02 / `session_total_reachable`.** For every builder state reachable through the builder API and its
compiled circuit: for every input vector `(pubs, privs)` of the right lengths that a satisfying assignment `w`
extends (`w` satisfies every compiled relation, hints agreeing, rewrite map respected), the usual session
`set_public_inputs pubs; set_private_inputs privs; run` succeeds and returns `w`. -/
theorem session_total_reachable (canon : K → Nat) (b : BState K) (h : ReachablePrim b)
    (c : Circuit K) (hc : compile b = .ok c) (pubs privs : List K) (w pub : Nat → K)
    (hpl : pubs.length = c.pubRows.size) (hvl : privs.length = c.privRows.size)
    (hpv : ∀ (i : Nat) (v : K), pubs[i]? = some v → v = w (c.pubRows.getD i 0))
    (hvv : ∀ (i : Nat) (v : K), privs[i]? = some v → v = w (c.privRows.getD i 0))
    (hall : ∀ op ∈ c.ops.toList, op.holds w pub ∧ RunnerWrites w op ∧ HintAgrees canon w op)
    (hrw : ∀ dc ∈ c.rewrite, w dc.1 = w (resolve c.rewrite dc.2)) :
    ∃ t, run canon c pubs privs = .ok t ∧ ∀ j, j < t.witness.size → t.witness.getD j 0 = w j := by
  obtain ⟨hok, hpo, hpu, hprim, hpf⟩ := reachable_guards h
  have hrows := compile_rows_lt b hok hpo hpu hprim ⟨0, (reachablePrim_RI h).z0⟩ c hc
  have h00 : Agree (Array.replicate c.witnessCount (none : Option K)) w := by
    intro j x hx
    unfold slot at hx
    by_cases hj : j < c.witnessCount
    · simp [hj] at hx
    · simp [hj] at hx
  obtain ⟨w1, e1, a1, s1⟩ := supply_ok c.pubRows pubs w _ h00
    (fun r hr => by simpa using hrows r (Or.inl hr)) hpl hpv
  obtain ⟨w2, e2, a2, s2⟩ := supply_ok c.privRows privs w w1 a1
    (fun r hr => by rw [s1]; simpa using hrows r (Or.inr hr)) hvl hvv
  have hcalls : applyCalls c (Array.replicate c.witnessCount none) [(true, pubs), (false, privs)] = .ok w2 := by
    simp only [applyCalls, setPublics, setPrivates, hpl, hvl, ne_eq, not_true_eq_false, if_false]
    rw [e1]
    simp only [bind, Except.bind]
    rw [e2]
  obtain ⟨t, ht, hw⟩ := run_total_reachable canon b h c hc w2 w pub a2 (applyCalls_shape c pubs privs w2 hcalls)
    hall hrw
  refine ⟨t, ?_, hw⟩
  unfold run session
  rw [hcalls]
  exact ht

end P3R.C02

#print axioms P3R.C02R.reachablePrim_RI
#print axioms P3R.C02R.applyCalls_shape
#print axioms P3R.C02R.lower_rows_lt
#print axioms P3R.C02R.compile_rows_lt
#print axioms P3R.C02R.reachablePrim_guards
#print axioms P3R.C02.reachable_guards
#print axioms P3R.C02.run_total_reachable
#print axioms P3R.C02.session_total_reachable
