/-
L5 — creator / reader roles and bus multiplicities.
Mirrors `circuit/src/circuit.rs::generate_preprocessed_columns` (primitive ops; table-backed
non-primitive ops are outside this layer) and the 12→13 / 1→2 column conversion of
`circuit-prover/src/common.rs::get_airs_and_degrees_with_prep`, plus the WitnessChecks
interactions declared by `ConstAir`, `PublicAir`, `AluAir` (`eval_alu_interactions`).

The Rust code decides the role of each operand of a row from the `defined` bitmap and a few
same-row aliasing guards. After the repairs F6 / F13b / F14 / F15 (see DESIGN §5) that
decision is exactly a *sequential* scan of the row's operands in the order `out, a, c, b`
against the set of slots defined so far; the model is written in that form, which is what
makes "at most one creator per slot" true by construction (`P3R.Props.C09`). The
correspondence check compares the resulting columns with the real ones cell by cell.
-/
import P3R.Model.Optimize

namespace P3R

inductive Role where
  | skip | reader | creator
deriving Repr, DecidableEq

/-- A row asks for a role on a slot: `create` — may create it if nobody has;
`elseSkip` — if it can neither read nor create, it stays off the bus (else it reads). -/
structure Request where
  slot : Nat
  create : Bool
  elseSkip : Bool
deriving Repr

structure RoleState where
  defined : List Nat
  reads : List (Nat × Nat)
  events : List (Nat × Role)

def readsOf (m : List (Nat × Nat)) (s : Nat) : Nat := (m.lookup s).getD 0

def incRead (m : List (Nat × Nat)) (s : Nat) : List (Nat × Nat) := (s, readsOf m s + 1) :: m

def Request.role (defined : List Nat) (r : Request) : Role :=
  if defined.contains r.slot then .reader
  else if r.create then .creator
  else if r.elseSkip then .skip
  else .reader

/-- Serve one request: a reader bumps the slot's read count, a creator defines the slot. -/
def RoleState.serve (s : RoleState) (r : Request) : RoleState :=
  match r.role s.defined with
  | .reader => { s with reads := incRead s.reads r.slot, events := s.events ++ [(r.slot, .reader)] }
  | .creator => { s with defined := r.slot :: s.defined, events := s.events ++ [(r.slot, .creator)] }
  | .skip => { s with events := s.events ++ [(r.slot, .skip)] }

/-- One ALU row of the 12-value preprocessed layout. `aState`/`cState`: 0 skip, 1 reader,
2 creator. -/
structure AluPrep where
  kind : AluKind
  a : Nat
  b : Nat
  c : Nat
  out : Nat
  aState : Nat
  bCreator : Bool
  cState : Nat
  outCreator : Bool
deriving Repr, DecidableEq

def Role.state : Role → Nat
  | .skip => 0 | .reader => 1 | .creator => 2

/-- The requests of one op, in the order the roles are decided. -/
def requestsOf {K} (privs hints : List Nat) (defined : List Nat) : Op K → List Request
  | .const out _ => [⟨out, true, false⟩]
  | .pub out _ => [⟨out, true, false⟩]
  | .alu _ a b c out _ =>
    let elig := fun x => privs.contains x || hints.contains x
    -- a hint output or private input in `out` is given, so the row solves for `b`
    let outBackward := defined.contains out || hints.contains out || privs.contains out
    [⟨out, true, false⟩, ⟨a, elig a, true⟩] ++
    (match c with
     | some cw => [⟨cw, elig cw, true⟩]
     | none => []) ++
    [⟨b, privs.contains b || outBackward, false⟩]
  | .hint _ _ _ => []
  | .npo _ _ _ _ => []

structure PrepState where
  rs : RoleState
  consts : List Nat
  pubs : List Nat
  alu : List AluPrep

def roleAt (evs : List (Nat × Role)) (i : Nat) : Role := (evs.getD i (0, .skip)).2

/-- One iteration of the main loop of `generate_preprocessed_columns`. -/
def PrepState.step {K} (privs hints : List Nat) (s : PrepState) (op : Op K) : PrepState :=
  let n0 := s.rs.events.length
  let rs := (requestsOf privs hints s.rs.defined op).foldl RoleState.serve s.rs
  match op with
  | .const out _ => { s with rs := rs, consts := s.consts ++ [out] }
  | .pub out _ => { s with rs := rs, pubs := s.pubs ++ [out] }
  | .alu k a b c out _ =>
    let rOut := roleAt rs.events n0
    let rA := roleAt rs.events (n0 + 1)
    let (rC, rB) := match c with
      | some _ => (roleAt rs.events (n0 + 2), roleAt rs.events (n0 + 3))
      | none => (Role.skip, roleAt rs.events (n0 + 2))
    { s with rs := rs,
             alu := s.alu ++ [⟨k, a, b, c.getD 0, out, rA.state, rB == .creator, rC.state, rOut == .creator⟩] }
  | _ => { s with rs := rs }

structure Prep where
  consts : List Nat
  pubs : List Nat
  alu : List AluPrep
  reads : List (Nat × Nat)
  events : List (Nat × Role)
  defined : List Nat

/-- `generate_preprocessed_columns` restricted to primitive ops and hints. Returns `none`
for an unclaimed private input (`CircuitError::UnclaimedPrivateInput`). -/
def genPrep {K} (c : Circuit K) : Option Prep :=
  let constPub : List Nat := c.ops.toList.filterMap fun
    | .const out _ => some out
    | .pub out _ => some out
    | _ => none
  let hints : List Nat := (c.ops.toList.flatMap fun
    | .hint _ outs _ => outs
    | _ => []).filter fun w => !constPub.contains w
  let privs := c.privRows.toList
  let s := c.ops.toList.foldl (PrepState.step privs hints)
    { rs := { defined := [], reads := [], events := [] }, consts := [], pubs := [], alu := [] }
  if privs.all fun w => s.rs.defined.contains w then
    some { consts := s.consts, pubs := s.pubs, alu := s.alu, reads := s.rs.reads,
           events := s.rs.events, defined := s.rs.defined }
  else none

/-- Signed multiplicity of one event on the WitnessChecks bus after the conversion of
`common.rs`: a creator sends `+reads(slot)`, a reader receives `-1`, a skip is absent. -/
def eventMult (reads : List (Nat × Nat)) (e : Nat × Role) : Int :=
  match e.2 with
  | .creator => (readsOf reads e.1 : Int)
  | .reader => -1
  | .skip => 0

/-- Net multiplicity of slot `s` over all rows. The honest bus balances iff this is 0 for
every slot (all tuples on slot `s` carry the same value in an honest trace). -/
def netOf (reads : List (Nat × Nat)) (evs : List (Nat × Role)) (s : Nat) : Int :=
  ((evs.filter fun e => e.1 == s).map (eventMult reads)).sum

def Prep.net (p : Prep) (s : Nat) : Int := netOf p.reads p.events s

/-- Marks, for each slot of a Const/Public row list, whether the row is the first on its
slot (the view taken by the column conversion in `common.rs`). -/
def sendMults (outs : List Nat) : List (Nat × Bool) :=
  (outs.foldl (fun (acc : List (Nat × Bool) × List Nat) o =>
    (acc.1 ++ [(o, !acc.2.contains o)], o :: acc.2)) ([], [])).1


/-! ### Table-backed non-primitive rows (generic row kind)

`Op::NonPrimitiveOpWithExecutor` in `generate_preprocessed_columns`: first the plug-in's
`executor.preprocess` registers *reads* (`register_non_primitive_witness_reads`: the slot's read
count goes up whatever its state), then the generic scan walks the first `num_exposed_outputs`
output groups: a slot that is already defined is recorded in `dup_npo_outputs` and read, any other
is defined by this row. In the vocabulary of this file a read is the request `⟨s, false, false⟩`
(always a reader) and an exposed output the request `⟨s, true, false⟩` (creator unless defined),
so a non-primitive row is just a list of requests computed by a per-plug-in function, and the
role scan and its invariant (`P3R.C09`) go through unchanged.

What the plug-in *conversions* of `circuit-prover` then do with the scan's result is modelled
separately (`npoMult`, `freeMult`): they are not part of the scan and two of their rules break the
invariant (findings F-C09N-1, F-C09N-3); the driver prints the converted counts, which the bus audit
of the real AIRs must reproduce. -/

structure NpoRow where
  /-- op type (0 is reserved for primitive rows) -/
  table : Nat
  /-- slots registered with `register_non_primitive_witness_reads`, in order -/
  reads : List Nat
  /-- exposed outputs (`num_exposed_outputs` leading groups), in order -/
  outs : List Nat
  /-- sends that bypass the scan: `recompose/coeff` coefficient tuples -/
  frees : List Nat
deriving Repr

def NpoRow.requests (r : NpoRow) : List Request :=
  r.reads.map (fun s => ⟨s, false, false⟩) ++ r.outs.map (fun s => ⟨s, true, false⟩)

inductive ROp (K : Type) where
  | prim (op : Op K)
  | npo (r : NpoRow)

def ROp.requests {K} (privs hints defined : List Nat) : ROp K → List Request
  | .prim op => requestsOf privs hints defined op
  | .npo r => r.requests

/-- The main loop of `generate_preprocessed_columns` over primitive and non-primitive ops. -/
def scanR {K} (privs hints : List Nat) (ops : List (ROp K)) : RoleState :=
  ops.foldl (fun s op => (op.requests privs hints s.defined).foldl RoleState.serve s)
    { defined := [], reads := [], events := [] }

/-- Per-plug-in request functions, mirroring `preprocess_inputs` / `preprocess_outputs` /
`preprocess_flags` of `circuit/src/ops/poseidon_perm/executor.rs`. `ins`: the op's input groups
(limbs, then accumulator, direction bit, high bit), `outs` its output groups; `sumRead`: the
accumulator read that `poseidon_preprocess_for_prover` adds when the row ends a Merkle chain. -/
def posRow (table : Nat) (merkle arity4 : Bool) (widthExt rateExt : Nat) (sumRead : Bool)
    (ins outs : List (List Nat)) : NpoRow :=
  let limbs := (ins.take widthExt).flatten
  -- arity-2 Merkle rows register no read for witness-fed limbs; sponge rows and arity-4 rows do
  let limbReads := if merkle && !arity4 then [] else limbs
  let flagReads :=
    if arity4 && merkle then (ins.getD (widthExt + 1) []) ++ (ins.getD (widthExt + 2) [])
    else if sumRead then ins.getD widthExt [] else []
  { table := table, reads := limbReads ++ flagReads, outs := (outs.take rateExt).flatten, frees := [] }

/-- `RecomposeExecutor::preprocess`: the output is exposed; with coefficient lookups every
coefficient is sent by the row without going through the scan. -/
def recRow (table : Nat) (coeffCtl : Bool) (ins outs : List (List Nat)) : NpoRow :=
  { table := table, reads := [], outs := (outs.take 1).flatten,
    frees := if coeffCtl then ins.getD 0 [] else [] }

/-- Is the row's accumulator exposed? `mmcs_merkle_flag · next.new_start`, with the table's padding
rule of `poseidon_preprocess_for_prover` (`flags i = (merkle ∧ accumulator wired, new_start)`). -/
def sumExposed (flags : List (Bool × Bool)) (i : Nat) : Bool :=
  let n := flags.length
  let next :=
    if i + 1 < n then (flags.getD (i + 1) (false, false)).2
    else if n.nextPowerOfTwo > n then true
    else (flags.getD 0 (false, false)).2
  (flags.getD i (false, false)).1 && next

/-- Tag of every request, parallel to the scan's events: (table, is an exposed-output request). -/
def ROp.tags {K} (privs hints : List Nat) : ROp K → List (Nat × Bool)
  | .prim op => (requestsOf privs hints [] op).map fun _ => (0, false)
  | .npo r => r.reads.map (fun _ => (r.table, false)) ++ r.outs.map (fun _ => (r.table, true))

/-- Signed multiplicity of one scan event after the plug-in conversion: an exposed output of table
`t` on a slot that `dup_npo_outputs[t]` contains is sent with −1 — also by the row that created it
(the flag is per table and slot, not per row). -/
def npoMult (reads : List (Nat × Nat)) (dups : List (Nat × Nat)) (e : Nat × Role) (tag : Nat × Bool) : Int :=
  if tag.2 && tag.1 != 0 && dups.contains (tag.1, e.1) then -1 else eventMult reads e

/-- `dup_npo_outputs`: exposed-output requests that were served as readers. -/
def dupsOf (evs : List (Nat × Role)) (tags : List (Nat × Bool)) : List (Nat × Nat) :=
  (evs.zip tags).filterMap fun (e, t) => if t.2 && t.1 != 0 && e.2 == .reader then some (t.1, e.1) else none

/-- `recompose/coeff`: the coefficient tuple's multiplicity. -/
def freeMult (reads : List (Nat × Nat)) (hints : List Nat) (s : Nat) : Int :=
  if hints.contains s then (readsOf reads s : Int) else 0

end P3R
