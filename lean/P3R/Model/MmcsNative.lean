/-
L9 (native side): model of `p3_merkle_tree::MerkleTreeMmcs::verify_batch` (p3-merkle-tree 0.6.3,
`src/mmcs/batch.rs`, `src/mmcs/geometry.rs`, `src/mmcs/mod.rs::proof_arity_schedule`,
`src/merkle_tree.rs::{select_arity_step, padded_len}`) with the leaf hash
`p3_symmetric::PaddingFreeSponge` and the compression `TruncatedPermutation`.

Import-free. The permutation is a parameter (`perm : List K → List K` on width-`W` states);
digests, rows and siblings are lists of base-field elements. `ExtensionMmcs` (flatten every
extension element to its `D` coefficients, widths × `D`) and `MerkleTreeHidingMmcs` (append the
per-matrix salt, widths + `SALT`) are applied by the caller: this model sees the inner batch.
-/
namespace P3R.Mmcs

/-- `p3_util::log2_ceil_usize` (0 for `n ≤ 1`). -/
def log2Ceil (n : Nat) : Nat := if n ≤ 1 then 0 else Nat.log2 (n - 1) + 1

/-- `usize::next_power_of_two` (`1` for `0`). -/
def npt (n : Nat) : Nat := 2 ^ log2Ceil n

/-- `merkle_tree::padded_len`. -/
def paddedLen (raw n : Nat) : Nat :=
  if raw ≤ 1 then raw else if raw ≥ n then (raw + n - 1) / n * n else n

structure Dim where
  height : Nat
  width : Nat
deriving DecidableEq, Repr

inductive NErr
  | wrongBatchSize | emptyBatch | incompatibleHeights | wrongHeight | wrongWidth
  | indexOutOfBounds | capMismatch
  | fuel  -- model artefact: schedule loop out of fuel (never produced on generated inputs)
deriving DecidableEq, Repr

/-- Hash / compression parameters: state width, sponge rate, digest length, arity. -/
structure Cfg where
  W : Nat
  rate : Nat
  dig : Nat
  N : Nat
deriving Repr

section
variable {K : Type} [Zero K]

/-- Overwrite the first `c.length` positions of `st` by `c`. -/
def overwrite (st c : List K) : List K := c ++ st.drop c.length

/-- `PaddingFreeSponge::hash_iter` absorption: one permutation per (possibly partial) chunk of
`rate` elements, partial chunks keep the remaining state; no permutation for no input.
`fuel` ≥ number of chunks. -/
def absorb (perm : List K → List K) (rate : Nat) : Nat → List K → List K → List K
  | 0, st, _ => st
  | f + 1, st, inp =>
    if inp.isEmpty then st
    else absorb perm rate f (perm (overwrite st (inp.take rate))) (inp.drop rate)

def sponge (perm : List K → List K) (c : Cfg) (inp : List K) : List K :=
  (absorb perm c.rate inp.length (List.replicate c.W 0) inp).take c.dig

/-- `TruncatedPermutation::compress`: permute the concatenated inputs, keep `dig` elements. -/
def compress (perm : List K → List K) (c : Cfg) (inputs : List (List K)) : List K :=
  (perm inputs.flatten).take c.dig

end

/-- Stable insertion of `x` into a list sorted by decreasing height (`sorted_by_key(Reverse(h))`). -/
def insertDesc (x : Nat × Dim) : List (Nat × Dim) → List (Nat × Dim)
  | [] => [x]
  | y :: ys => if y.2.height ≤ x.2.height then x :: y :: ys else y :: insertDesc x ys

/-- `dimensions.iter().enumerate().sorted_by_key(|(_, d)| Reverse(d.height))` (stable). -/
def sortDesc (l : List (Nat × Dim)) : List (Nat × Dim) := l.foldr insertDesc []

def enum (dims : List Dim) : List (Nat × Dim) := (List.range dims.length).zip dims

def tallestFirst (dims : List Dim) : List (Nat × Dim) := sortDesc (enum dims)

/-- `geometry::validate_commit_reachable_heights`. -/
def validateHeights (hs : List Nat) : Except NErr Nat :=
  let mx := hs.foldl max 0
  if mx = 0 then .error .emptyBatch
  else
    let L := log2Ceil mx
    if hs.all (fun h => h == ((mx - 1) >>> (L - log2Ceil h)) + 1) then .ok mx
    else .error .incompatibleHeights

/-- `merkle_tree::select_arity_step`. -/
def selectArityStep (N curr leafNpt : Nat) (remaining : List Nat) : Nat :=
  if curr < N then 2
  else
    let target := npt (curr / N)
    if (remaining.filter (fun h => npt h != leafNpt)).any (fun h => npt h > target) then 2 else N

/-- Consume the injection group at `logicalNext`: the matrices whose height equals the peeked
height, provided that height rounds up to `npt logicalNext`. Returns (group, rest). -/
def takeInjection (logicalNext : Nat) (rem : List (Nat × Dim)) : List (Nat × Dim) × List (Nat × Dim) :=
  match rem with
  | [] => ([], [])
  | x :: _ =>
    if npt x.2.height == npt logicalNext then rem.span (fun y => y.2.height == x.2.height) else ([], rem)

/-- The `while curr_height_padded > 1` loop of `proof_arity_schedule`. -/
def scheduleLoop (N leafNpt : Nat) : Nat → Nat → List (Nat × Dim) → Option (List Nat)
  | 0, _, _ => none
  | f + 1, curr, rem =>
    if curr ≤ 1 then some []
    else
      let step := selectArityStep N curr leafNpt (rem.map (·.2.height))
      let logicalNext := curr / step
      let rem' := (takeInjection logicalNext rem).2
      (scheduleLoop N leafNpt f (paddedLen logicalNext N) rem').map (step :: ·)

/-- `MerkleTreeMmcs::proof_arity_schedule` (after the geometry gate, `maxHeight` given). -/
def proofAritySchedule (N capHeight maxHeight : Nat) (dims : List Dim) : Option (List Nat) :=
  let leafNpt := npt maxHeight
  let rem := (tallestFirst dims).dropWhile (fun x => npt x.2.height == leafNpt)
  match scheduleLoop N leafNpt (2 * (paddedLen maxHeight N + dims.length) + 2) (paddedLen maxHeight N) rem with
  | none => none
  | some s => some (s.take (s.length - min capHeight s.length))

section
variable {K : Type} [Zero K] [DecidableEq K]

/-- Inputs of one N-ary compression: the running digest at `pos`, siblings elsewhere in
order, default digests beyond `step`. -/
def stepInputs (c : Cfg) (step pos : Nat) (digest : List K) (sibs : List (List K)) : List (List K) :=
  (List.range c.N).map fun k =>
    if k < step then
      if k = pos then digest else (sibs.getD (if k < pos then k else k - 1) (List.replicate c.dig 0))
    else List.replicate c.dig 0

/-- The `for &step in &arity_schedule` loop of `verify_batch`. State: running digest, index,
padded current height, not yet injected matrices (tallest first). -/
def walk (perm : List K → List K) (c : Cfg) (opened : List (List K)) :
    List Nat → List (List K) → List K → Nat → Nat → List (Nat × Dim) → List K × Nat
  | [], _, digest, index, _, _ => (digest, index)
  | step :: rest, proof, digest, index, curr, rem =>
    let sibs := proof.take (step - 1)
    let digest1 := compress perm c (stepInputs c step (index % step) digest sibs)
    let logicalNext := curr / step
    let (grp, rem') := takeInjection logicalNext rem
    let digest2 :=
      if grp.isEmpty then digest1
      else
        let inj := sponge perm c (grp.map (fun x => opened.getD x.1 [])).flatten
        compress perm c ((List.range c.N).map fun k =>
          if k = 0 then digest1 else if k = 1 then inj else List.replicate c.dig 0)
    walk perm c opened rest (proof.drop (step - 1)) digest2 (index / step) (paddedLen logicalNext c.N) rem'

/-- `MerkleTreeMmcs::verify_batch`. `cap` is the commitment (list of digests), `opened` the
opened rows (one per matrix), `proof` the sibling digests. -/
def verifyBatch (perm : List K → List K) (c : Cfg) (capHeight : Nat) (cap : List (List K))
    (dims : List Dim) (index : Nat) (opened : List (List K)) (proof : List (List K)) : Except NErr Unit :=
  if dims.length ≠ opened.length then .error .wrongBatchSize else
  match validateHeights (dims.map (·.height)) with
  | .error e => .error e
  | .ok maxHeight =>
    match proofAritySchedule c.N capHeight maxHeight dims with
    | none => .error .fuel
    | some sched =>
      if proof.length ≠ (sched.map (· - 1)).sum then .error .wrongHeight else
      if !(dims.zip opened).all (fun x => x.2.length == x.1.width) then .error .wrongWidth else
      if index ≥ maxHeight then .error .indexOutOfBounds else
      let sorted := tallestFirst dims
      let leafNpt := npt maxHeight
      let (leaf, rem) := sorted.span (fun x => npt x.2.height == leafNpt)
      let digest0 := sponge perm c (leaf.map (fun x => opened.getD x.1 [])).flatten
      let (digest, capIndex) := walk perm c opened sched proof digest0 index (paddedLen maxHeight c.N) rem
      if capIndex < cap.length ∧ cap.getD capIndex [] = digest then .ok () else .error .capMismatch

end
end P3R.Mmcs
