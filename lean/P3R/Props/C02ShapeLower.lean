/-
C02 — the lowered op list of a guarded builder state is executable: `lower_shape_ok`.

Invariant threaded through the four passes of `lower` (next to `C02T.PassInv`): `RunInv` —
from every table `t0` that is large enough and has the slots of the already-mapped input nodes set,
the shape run of the ops emitted so far succeeds, and afterwards EVERY slot allocated so far is set.
Slots are allocated when a node is emitted (constants: a `Const` op; publics / privates: supplied by
the caller; arithmetic nodes: the row just pushed writes the node's slot — in the `out` column, or
in the `b` column of a backward `sub` / `div` row whose `out` operand is an earlier node; call
outputs: the hint op pushed by the same step), operands are resolved through `expr_to_widx`, which
is only filled at emission — so no read can dangle, and the final "every slot set" scan succeeds.
No `hintsGuarded` / `operandsGuarded` is needed on the runner side.
-/
import P3R.Props.C02ShapeMono
import P3R.Props.C09Compile
import P3R.Props.C18Lower

namespace P3R.C02S
open P3R P3R.C02T P3R.C09C

variable {K : Type}

/-! ### Builder-side guards (decidable) -/

/-- Public-input nodes carry distinct positions below `pubCount` (what `alloc_public_input`
constructs); the analogue of `privOk`. -/
def pubOk (b : BState K) : Bool :=
  (List.range b.nodes.size).all fun i =>
    match b.nodes[i]? with
    | some (.pub pos) => decide (pos < b.pubCount) &&
      (List.range b.nodes.size).all fun j =>
        match b.nodes[j]? with
        | some (.pub pos') => pos' != pos || j == i
        | _ => true
    | _ => true

/-- Is `x` an output node of call `op`? -/
def ownOut (nodes : Array (Expr K)) (op x : Nat) : Bool :=
  match nodes[x]? with
  | some (.npOut call _) =>
    match nodes[call]? with
    | some (.npCall op' _) => op' == op
    | _ => false
  | _ => false

/-- The model's runner layer executes the two unconstrained hints of a degree-1 field
(`Model/Runner.lean`): every non-primitive op is such a hint with one input (which is not one of its
own outputs), and an `ExtDecompositionHint` has exactly one output. Table-backed ops are executed by
plugins outside this layer. -/
def primOk [Neg K] (b : BState K) : Bool :=
  (List.range b.npOps.size).all fun op =>
    match b.npOps[op]? with
    | some d =>
      (match d.ins with
       | [[x]] => !ownOut b.nodes op x
       | _ => false) &&
      (match d.kind with
       | .hintBits => true
       | .hintExt =>
         (match npOutputsOf b.nodes op with
          | some [_] => true
          | some _ => false
          | none => true)
       | .table _ => false)
    | none => true

/-! ### Executing one row on a table where its operands are set -/

theorem setS_ok {t : Array Bool} {i : Nat} (h : i < t.size) :
    ∃ t', setS t i = some t' ∧ getS t' i = true :=
  ⟨_, setS_of_lt h, (getS_set t i i).mpr (Or.inr ⟨rfl, h⟩)⟩

/-- `Add` / `Mul`: `a` is set, and `b` or `out` is. -/
theorem exec_am {t : Array Bool} {k : AluKind} (hk : k = .add ∨ k = .mul) {a b out : Nat}
    (c io : Option Nat) (ha : getS t a = true) (hbo : getS t b = true ∨ getS t out = true)
    (hb : b < t.size) (ho : out < t.size) :
    ∃ t', execOpShape t (.alu k a b c out io : Op K) = some t' ∧ getS t' b = true ∧ getS t' out = true := by
  have key : ∃ t', (if !getS t a then none else if getS t b then setS t out
      else if !getS t out then none else setS t b) = some t' ∧ getS t' b = true ∧ getS t' out = true := by
    rw [if_neg (by simp [ha])]
    by_cases hgb : getS t b = true
    · rw [if_pos hgb]
      obtain ⟨t', h1, h2⟩ := setS_ok ho
      refine ⟨t', h1, ?_, h2⟩
      obtain ⟨_, rfl⟩ := setS_some h1
      exact (getS_set t out b).mpr (Or.inl hgb)
    · have hgo : getS t out = true := hbo.resolve_left hgb
      rw [if_neg hgb, if_neg (by simp [hgo])]
      obtain ⟨t', h1, h2⟩ := setS_ok hb
      refine ⟨t', h1, h2, ?_⟩
      obtain ⟨_, rfl⟩ := setS_some h1
      exact (getS_set t b out).mpr (Or.inl hgo)
  rcases hk with rfl | rfl <;> exact key

theorem exec_bool {t : Array Bool} {a b out : Nat} (c io : Option Nat) (ha : getS t a = true)
    (ho : out < t.size) :
    ∃ t', execOpShape t (.alu .boolCheck a b c out io : Op K) = some t' ∧ getS t' out = true := by
  simp only [execOpShape, execAluShape]
  rw [if_neg (by simp [ha])]
  exact setS_ok ho

theorem exec_mulAdd {t : Array Bool} {a b ci out : Nat} (ha : getS t a = true) (hb : getS t b = true)
    (hc : getS t ci = true) (ho : out < t.size) :
    ∃ t', execOpShape t (.alu .mulAdd a b (some ci) out none : Op K) = some t' ∧ getS t' out = true := by
  simp only [execOpShape, execAluShape]
  rw [if_neg (by simp [ha, hb])]
  rw [if_neg (by simp [hc])]
  exact setS_ok ho

theorem exec_horner {t : Array Bool} {a b ci out acc : Nat} (ha : getS t a = true)
    (hb : getS t b = true) (hc : getS t ci = true) (hacc : getS t acc = true) (ho : out < t.size) :
    ∃ t', execOpShape t (.alu .horner a b (some ci) out (some acc) : Op K) = some t' ∧
      getS t' out = true := by
  simp only [execOpShape, execAluShape]
  rw [if_neg (by simp [ha, hb, hc, hacc])]
  exact setS_ok ho

theorem foldSet_ok : ∀ (outs : List Nat) (t : Array Bool), (∀ o ∈ outs, o < t.size) →
    ∃ t', outs.foldlM (fun t o => setS t o) t = some t' ∧ ∀ o ∈ outs, getS t' o = true := by
  intro outs
  induction outs with
  | nil => intro t _; exact ⟨t, rfl, by simp⟩
  | cons o rest ih =>
    intro t hb
    simp only [List.foldlM_cons]
    rw [setS_of_lt (hb o (by simp))]
    simp only [Option.bind_eq_bind, Option.bind_some]
    obtain ⟨t', h1, h2⟩ := ih (t.setIfInBounds o true) (fun x hx => by simpa using hb x (by simp [hx]))
    refine ⟨t', h1, fun x hx => ?_⟩
    rcases List.mem_cons.mp hx with rfl | hx
    · have hsub : Rel id (t.setIfInBounds x true) t' := by
        have : runOps (t.setIfInBounds x true) (rest.map fun o => (Op.const o (0 : Nat) : Op Nat)) = some t' := by
          unfold runOps
          rw [List.foldlM_map]
          exact h1
        exact run_sub _ this
      exact hsub.2 x ((getS_set t x x).mpr (Or.inr ⟨rfl, hb x (by simp)⟩))
    · exact h2 x hx

/-! ### The invariant -/

def isInputNode (nodes : Array (Expr K)) (x : Nat) : Prop :=
  (∃ pos, nodes[x]? = some (.priv pos)) ∨ (∃ pos, nodes[x]? = some (.pub pos))

/-- The slots of the mapped input nodes are set in `t0`. -/
def InpSet (nodes : Array (Expr K)) (s : LState K) (t0 : Array Bool) : Prop :=
  ∀ x w, isInputNode nodes x → s.e2w.getD x none = some w → getS t0 w = true

structure RunInv (nodes : Array (Expr K)) (s : LState K) : Prop where
  eb : ∀ e w, s.e2w.getD e none = some w → w < s.next
  rb : ∀ r w, s.rootW.getD r none = some w → w < s.next
  run : ∀ t0, s.next ≤ t0.size → InpSet nodes s t0 →
    ∃ t, runOps t0 s.ops.toList = some t ∧ ∀ w, w < s.next → getS t w = true

theorem alloc_run {s s1 : LState K} {e w : Nat}
    (hrb : ∀ r v, s.rootW.getD r none = some v → v < s.next) (h : s.allocWitness e = (s1, w)) :
    s1.e2w = s.e2w ∧ s1.ops = s.ops ∧ (∀ r v, s1.rootW.getD r none = some v → v < s1.next) ∧
    w < s1.next ∧ (s1.next = s.next ∨ (s1.next = s.next + 1 ∧ w = s.next)) := by
  unfold LState.allocWitness at h
  by_cases hc : s.inConnect.getD e false = true
  · simp only [hc, if_true] at h
    cases hr : s.rootW.getD (s.rep.getD e e) none with
    | some w0 =>
      simp only [hr] at h
      obtain ⟨rfl, rfl⟩ := Prod.mk.inj h
      exact ⟨rfl, rfl, hrb, hrb _ _ hr, Or.inl rfl⟩
    | none =>
      simp only [hr] at h
      obtain ⟨rfl, rfl⟩ := Prod.mk.inj h
      refine ⟨rfl, rfl, ?_, Nat.lt_succ_self _, Or.inr ⟨rfl, rfl⟩⟩
      intro r v hv
      simp only at hv ⊢
      rw [getD_setIfInBounds] at hv
      split at hv
      · cases hv; exact Nat.lt_succ_self _
      · exact Nat.lt_succ_of_lt (hrb r v hv)
  · simp only [hc] at h
    obtain ⟨rfl, rfl⟩ := Prod.mk.inj h
    exact ⟨rfl, rfl, fun r v hv => Nat.lt_succ_of_lt (hrb r v hv), Nat.lt_succ_self _, Or.inr ⟨rfl, rfl⟩⟩

/-- Extension of the invariant by one lowering step. -/
theorem RunInv.extend {nodes : Array (Expr K)} {s s' : LState K} (hI : RunInv nodes s)
    (added : List (Op K)) (hops : s'.ops.toList = s.ops.toList ++ added) (hn : s.next ≤ s'.next)
    (hext : ∀ x v, s.e2w.getD x none = some v → s'.e2w.getD x none = some v)
    (heb : ∀ e w, s'.e2w.getD e none = some w → w < s'.next)
    (hrb : ∀ r w, s'.rootW.getD r none = some w → w < s'.next)
    (hrun : ∀ t0 t, s'.next ≤ t.size → InpSet nodes s' t0 → Rel id t0 t →
      (∀ v, v < s.next → getS t v = true) →
      ∃ t', runOps t added = some t' ∧ ∀ v, s.next ≤ v → v < s'.next → getS t' v = true) :
    RunInv nodes s' := by
  refine ⟨heb, hrb, fun t0 hsz hin => ?_⟩
  have hin0 : InpSet nodes s t0 := fun x w hx hw => hin x w hx (hext x w hw)
  obtain ⟨t, ht, hall⟩ := hI.run t0 (by omega) hin0
  have hsub := run_sub _ ht
  obtain ⟨t', ht', hnew⟩ := hrun t0 t (by rw [hsub.1]; exact hsz) hin hsub hall
  refine ⟨t', by rw [hops, runOps_append, ht]; exact ht', fun v hv => ?_⟩
  by_cases hlt : v < s.next
  · exact (run_sub _ ht').2 v (hall v hlt)
  · exact hnew v (by omega) hv

/-- `e2w` bound after recording `i ↦ w`. -/
theorem eb_set {s s1 s' : LState K} {i w : Nat} (heb : ∀ e v, s.e2w.getD e none = some v → v < s.next)
    (he : s1.e2w = s.e2w) (hn : s.next ≤ s'.next) (hw : w < s'.next)
    (he' : s'.e2w = s1.e2w.setIfInBounds i (some w)) :
    ∀ e v, s'.e2w.getD e none = some v → v < s'.next := by
  intro e v hv
  rw [he', getD_setIfInBounds, he] at hv
  split at hv
  · cases hv; exact hw
  · exact Nat.lt_of_lt_of_le (heb e v hv) hn

/-- The usual step: one allocation for node `i`, rows pushed, `i ↦ w` recorded; the rows set `w`. -/
theorem step_fin {nodes : Array (Expr K)} {s s1 s' : LState K} {i w : Nat} (hI : RunInv nodes s)
    (hal : s.allocWitness i = (s1, w)) (added : List (Op K))
    (hops : s'.ops.toList = s1.ops.toList ++ added)
    (he2w : s'.e2w = s1.e2w.setIfInBounds i (some w)) (hroot : s'.rootW = s1.rootW)
    (hnext : s'.next = s1.next)
    (hext : ∀ x v, s.e2w.getD x none = some v → s'.e2w.getD x none = some v)
    (hrun : ∀ t0 t, s1.next ≤ t.size → InpSet nodes s' t0 → Rel id t0 t →
      (∀ v, v < s.next → getS t v = true) →
      ∃ t', runOps t added = some t' ∧ getS t' w = true) : RunInv nodes s' := by
  obtain ⟨he, ho, hrb1, hw1, hcase⟩ := alloc_run hI.rb hal
  have hn : s.next ≤ s'.next := by rw [hnext]; rcases hcase with h | ⟨h, _⟩ <;> omega
  refine hI.extend added (by rw [hops, ho]) hn hext
    (eb_set hI.eb he hn (by rw [hnext]; exact hw1) he2w) (by rw [hroot, hnext]; exact hrb1) ?_
  intro t0 t hsz hin hsub hall
  obtain ⟨t', h1, h2⟩ := hrun t0 t (by rw [← hnext]; exact hsz) hin hsub hall
  refine ⟨t', h1, fun v hv1 hv2 => ?_⟩
  rcases hcase with h | ⟨h, hw⟩
  · omega
  · have : v = w := by omega
    rw [this]; exact h2

theorem runOps_single (t : Array Bool) (op : Op K) : runOps t [op] = execOpShape t op := by
  rw [runOps_cons]
  cases execOpShape t op <;> rfl

/-! ### Passes 1–3 -/

theorem run_fConst {nodes : Array (Expr K)} {s s' : LState K} {i : Nat} {e : Expr K}
    (hI : RunInv nodes s)
    (hext : ∀ x v, s.e2w.getD x none = some v → s'.e2w.getD x none = some v)
    (h : fConst s i e = .ok s') : RunInv nodes s' := by
  cases e with
  | const v =>
    simp only [fConst] at h
    cases hal : s.allocWitness i with
    | mk s1 w =>
      rw [hal] at h
      simp only [Except.ok.injEq] at h
      subst h
      refine step_fin hI hal [.const w v] (by simp [LState.setW, LState.pushOp]) rfl rfl rfl hext ?_
      intro t0 t hsz _ _ _
      rw [runOps_single]
      exact setS_ok (by have := (alloc_run hI.rb hal).2.2.2.1; omega)
  | _ => simp only [fConst, Except.ok.injEq] at h; subst h; exact hI

theorem run_fPub {nodes : Array (Expr K)} {s s' : LState K} {i : Nat} {e : Expr K}
    (hI : RunInv nodes s) (hi : nodes[i]? = some e) (hiN : i < s.e2w.size)
    (hext : ∀ x v, s.e2w.getD x none = some v → s'.e2w.getD x none = some v)
    (h : fPub s i e = .ok s') : RunInv nodes s' := by
  cases e with
  | pub pos =>
    simp only [fPub] at h
    cases hal : s.allocWitness i with
    | mk s1 w =>
      rw [hal] at h
      simp only [Except.ok.injEq] at h
      subst h
      have he1 := (alloc_run hI.rb hal).1
      refine step_fin hI hal [.pub w pos] (by simp [LState.setW, LState.pushOp]) rfl rfl rfl hext ?_
      intro t0 t hsz hin hsub _
      rw [runOps_single]
      have hw : getS t w = true := by
        apply hsub.2
        apply hin i w (Or.inr ⟨pos, hi⟩)
        simp only [LState.setW, LState.pushOp]
        rw [getD_setIfInBounds, if_pos ⟨rfl, by rw [he1]; exact hiN⟩]
      exact ⟨t, by simp [execOpShape, hw], hw⟩
  | _ => simp only [fPub, Except.ok.injEq] at h; subst h; exact hI

theorem run_fPriv {nodes : Array (Expr K)} {s s' : LState K} {i : Nat} {e : Expr K}
    (hI : RunInv nodes s) (hi : nodes[i]? = some e) (hiN : i < s.e2w.size)
    (hext : ∀ x v, s.e2w.getD x none = some v → s'.e2w.getD x none = some v)
    (h : fPriv s i e = .ok s') : RunInv nodes s' := by
  cases e with
  | priv pos =>
    simp only [fPriv] at h
    cases hal : s.allocWitness i with
    | mk s1 w =>
      rw [hal] at h
      simp only [Except.ok.injEq] at h
      subst h
      have he1 := (alloc_run hI.rb hal).1
      refine step_fin hI hal [] (by simp [LState.setW]) rfl rfl rfl hext ?_
      intro t0 t hsz hin hsub _
      refine ⟨t, rfl, ?_⟩
      apply hsub.2
      apply hin i w (Or.inl ⟨pos, hi⟩)
      simp only [LState.setW]
      rw [getD_setIfInBounds, if_pos ⟨rfl, by rw [he1]; exact hiN⟩]
  | _ => simp only [fPriv, Except.ok.injEq] at h; subst h; exact hI

/-! ### Pass 4: arithmetic nodes -/

/-- One allocation, one row. -/
theorem run_alu1 {nodes : Array (Expr K)} {s s1 : LState K} {i w : Nat} (hI : RunInv nodes s)
    (hal : s.allocWitness i = (s1, w)) (op : Op K)
    (hext : ∀ x v, s.e2w.getD x none = some v → ((s1.pushOp op).setW i w).e2w.getD x none = some v)
    (hex : ∀ t, s1.next ≤ t.size → (∀ v, v < s.next → getS t v = true) →
      ∃ t', execOpShape t op = some t' ∧ getS t' w = true) :
    RunInv nodes ((s1.pushOp op).setW i w) := by
  refine step_fin hI hal [op] (by simp [LState.setW, LState.pushOp]) rfl rfl rfl hext ?_
  intro t0 t hsz _ _ hall
  rw [runOps_single]
  exact hex t hsz hall

section emit
variable [Neg K]

theorem run_emit_alu {nodes : Array (Expr K)} {npOps : Array NpData} {s s' : LState K} {i : Nat}
    {e : Expr K} (hI : RunInv nodes s) (he : e.isAluE = true)
    (hext : ∀ x v, s.e2w.getD x none = some v → s'.e2w.getD x none = some v)
    (h : s.emitNode nodes npOps i e = .ok s') : RunInv nodes s' := by
  have opnd : ∀ {s1 : LState K} {l a : Nat}, s1.e2w = s.e2w → s1.resolve l = .ok a → a < s.next :=
    fun he1 hl => hI.eb _ _ (he1 ▸ resolve_ok.mp hl)
  cases e with
  | const _ => cases he
  | pub _ => cases he
  | priv _ => cases he
  | npCall _ _ => cases he
  | npOut _ _ => cases he
  | add l r =>
    simp only [LState.emitNode] at h
    cases hal : s.allocWitness i with
    | mk s1 out =>
      rw [hal] at h
      obtain ⟨he1, _, _, hw1, _⟩ := alloc_run hI.rb hal
      cases hl : s1.resolve l with
      | error _ => simp [hl] at h
      | ok a =>
        cases hr : s1.resolve r with
        | error _ => simp [hl, hr] at h
        | ok bw =>
          simp only [hl, hr, Except.ok.injEq] at h
          subst h
          refine run_alu1 hI hal _ hext (fun t hsz hall => ?_)
          have ha := opnd he1 hl
          have hb := opnd he1 hr
          obtain ⟨t', h1, _, h3⟩ := exec_am (K := K) (Or.inl rfl) none none (hall a ha) (Or.inl (hall bw hb))
            (b := bw) (out := out) (by omega) (by omega)
          exact ⟨t', h1, h3⟩
  | mul l r =>
    simp only [LState.emitNode] at h
    cases hal : s.allocWitness i with
    | mk s1 out =>
      rw [hal] at h
      obtain ⟨he1, _, _, hw1, _⟩ := alloc_run hI.rb hal
      cases hl : s1.resolve l with
      | error _ => simp [hl] at h
      | ok a =>
        cases hr : s1.resolve r with
        | error _ => simp [hl, hr] at h
        | ok bw =>
          simp only [hl, hr, Except.ok.injEq] at h
          subst h
          refine run_alu1 hI hal _ hext (fun t hsz hall => ?_)
          have ha := opnd he1 hl
          have hb := opnd he1 hr
          obtain ⟨t', h1, _, h3⟩ := exec_am (K := K) (Or.inr rfl) none none (hall a ha) (Or.inl (hall bw hb))
            (b := bw) (out := out) (by omega) (by omega)
          exact ⟨t', h1, h3⟩
  | div l r =>
    simp only [LState.emitNode] at h
    cases hal : s.allocWitness i with
    | mk s1 q =>
      rw [hal] at h
      obtain ⟨he1, _, _, hw1, _⟩ := alloc_run hI.rb hal
      cases hl : s1.resolve l with
      | error _ => simp [hl] at h
      | ok lw =>
        cases hr : s1.resolve r with
        | error _ => simp [hl, hr] at h
        | ok rw' =>
          simp only [hl, hr, Except.ok.injEq] at h
          subst h
          refine run_alu1 hI hal _ hext (fun t hsz hall => ?_)
          have ha := opnd he1 hl
          have hb := opnd he1 hr
          obtain ⟨t', h1, h2, _⟩ := exec_am (K := K) (Or.inr rfl) none none (hall rw' hb) (Or.inr (hall lw ha))
            (b := q) (out := lw) (by omega) (by omega)
          exact ⟨t', h1, h2⟩
  | horner acc alpha pz px =>
    simp only [LState.emitNode] at h
    cases hal : s.allocWitness i with
    | mk s1 out =>
      rw [hal] at h
      obtain ⟨he1, _, _, hw1, _⟩ := alloc_run hI.rb hal
      cases h1 : s1.resolve acc with
      | error _ => simp [h1] at h
      | ok w1 =>
        cases h2 : s1.resolve alpha with
        | error _ => simp [h1, h2] at h
        | ok w2 =>
          cases h3 : s1.resolve pz with
          | error _ => simp [h1, h2, h3] at h
          | ok w3 =>
            cases h4 : s1.resolve px with
            | error _ => simp [h1, h2, h3, h4] at h
            | ok w4 =>
              simp only [h1, h2, h3, h4, Except.ok.injEq] at h
              subst h
              refine run_alu1 hI hal _ hext (fun t hsz hall => ?_)
              exact exec_horner (hall _ (opnd he1 h4)) (hall _ (opnd he1 h2)) (hall _ (opnd he1 h3))
                (hall _ (opnd he1 h1)) (by omega)
  | boolCheck v =>
    simp only [LState.emitNode] at h
    cases hal : s.allocWitness i with
    | mk s1 out =>
      rw [hal] at h
      obtain ⟨he1, _, _, hw1, _⟩ := alloc_run hI.rb hal
      cases hv : s1.resolve v with
      | error _ => simp [hv] at h
      | ok vw =>
        cases hz : s1.resolve 0 with
        | error _ => simp [hv, hz] at h
        | ok zw =>
          simp only [hv, hz, Except.ok.injEq] at h
          subst h
          refine run_alu1 hI hal _ hext (fun t hsz hall => ?_)
          exact exec_bool _ _ (hall _ (opnd he1 hv)) (by omega)
  | mulAdd x y z =>
    simp only [LState.emitNode] at h
    cases hal : s.allocWitness i with
    | mk s1 out =>
      rw [hal] at h
      obtain ⟨he1, _, _, hw1, _⟩ := alloc_run hI.rb hal
      cases h1 : s1.resolve x with
      | error _ => simp [h1] at h
      | ok wa =>
        cases h2 : s1.resolve y with
        | error _ => simp [h1, h2] at h
        | ok wb =>
          cases h3 : s1.resolve z with
          | error _ => simp [h1, h2, h3] at h
          | ok wc =>
            simp only [h1, h2, h3, Except.ok.injEq] at h
            subst h
            refine run_alu1 hI hal _ hext (fun t hsz hall => ?_)
            exact exec_mulAdd (hall _ (opnd he1 h1)) (hall _ (opnd he1 h2)) (hall _ (opnd he1 h3)) (by omega)
  | sub l r =>
    simp only [LState.emitNode] at h
    cases hal : s.allocWitness i with
    | mk s1 res =>
      rw [hal] at h
      obtain ⟨he1, ho1, hrb1, hw1, hc1⟩ := alloc_run hI.rb hal
      simp only at h
      cases hl : s1.resolve l with
      | error _ => simp [hl] at h
      | ok lw =>
        simp only [hl] at h
        have ha := opnd he1 hl
        split at h
        · -- fast path
          rename_i m1 m2 cst _ _
          cases hal2 : s1.allocWitness nodes.size with
          | mk s2 nw =>
            rw [hal2] at h
            simp only [Except.ok.injEq] at h
            subst h
            obtain ⟨he2, ho2, hrb2, hw2, hc2⟩ := alloc_run hrb1 hal2
            have hn : s.next ≤ s2.next := by
              rcases hc1 with h | ⟨h, _⟩ <;> rcases hc2 with h' | ⟨h', _⟩ <;> omega
            refine hI.extend [.const nw (-cst), Op.add lw nw res]
              (by simp [LState.setW, LState.pushOp, ho2, ho1]) hn hext
              (eb_set (s1 := s2) hI.eb (he2.trans he1) hn (by
                show res < s2.next
                rcases hc2 with h' | ⟨h', _⟩ <;> omega) rfl)
              (by simpa [LState.setW, LState.pushOp] using hrb2) ?_
            intro t0 t hsz _ _ hall
            have hsz' : s2.next ≤ t.size := hsz
            rw [runOps_cons]
            obtain ⟨t1, e1, g1⟩ := setS_ok (t := t) (i := nw) (by omega)
            have e1' : execOpShape t (.const nw (-cst) : Op K) = some t1 := e1
            rw [e1']
            simp only [Option.bind_some]
            have hsub1 := step_sub _ e1'
            obtain ⟨t2, e2, g2, g3⟩ := exec_am (K := K) (t := t1) (Or.inl rfl) none none
              (hsub1.2 _ (hall lw ha)) (Or.inl g1) (b := nw) (out := res)
              (by rw [hsub1.1]; omega) (by rw [hsub1.1]; omega)
            rw [runOps_single]
            refine ⟨t2, e2, fun v hv1 hv2 => ?_⟩
            have hv2' : v < s2.next := hv2
            rcases hc1 with h1 | ⟨h1, hw⟩ <;> rcases hc2 with h2 | ⟨h2, hw'⟩
            · omega
            · have : v = nw := by omega
              rw [this]; exact g2
            · have : v = res := by omega
              rw [this]; exact g3
            · by_cases hvr : v = res
              · rw [hvr]; exact g3
              · have : v = nw := by omega
                rw [this]; exact g2
        · cases hr : s1.resolve r with
          | error _ => simp [hr] at h
          | ok rw' =>
            simp only [hr, Except.ok.injEq] at h
            subst h
            refine run_alu1 hI hal _ hext (fun t hsz hall => ?_)
            have hb := opnd he1 hr
            obtain ⟨t', h1, h2, _⟩ := exec_am (K := K) (Or.inl rfl) none none (hall rw' hb) (Or.inr (hall lw ha))
              (b := res) (out := lw) (by omega) (by omega)
            exact ⟨t', h1, h2⟩

/-! ### Pass 4: calls -/

omit [Neg K] in
theorem npOutputsOf_own {nodes : Array (Expr K)} {opId : Nat} {outs : List (Nat × Nat)}
    (h : npOutputsOf nodes opId = some outs) :
    ∀ o ∈ outs, ownOut nodes opId o.2 = true ∧ o.2 < nodes.size := by
  unfold npOutputsOf at h
  simp only at h
  split at h
  · cases h
    intro o ho
    rw [List.mem_mergeSort] at ho
    obtain ⟨i, hi, hf⟩ := List.mem_filterMap.mp ho
    split at hf
    · rename_i call idx hn
      split at hf
      · rename_i op' _ hc
        split at hf
        · rename_i hop
          cases hf
          refine ⟨?_, List.mem_range.mp hi⟩
          simp only [ownOut, hn, hc, hop, beq_self_eq_true]
        · cases hf
      · cases hf
    · cases hf
  · cases h

omit [Neg K] in
theorem prealloc_run (outs : List (Nat × Nat)) :
    ∀ s : LState K, (∀ e w, s.e2w.getD e none = some w → w < s.next) →
      (∀ r w, s.rootW.getD r none = some w → w < s.next) → (∀ o ∈ outs, o.2 < s.e2w.size) →
      let sb := outs.foldl (fun (st : LState K) (o : Nat × Nat) =>
        match st.e2w.getD o.2 none with
        | some _ => st
        | none => let (st', w) := st.allocWitness o.2; st'.setW o.2 w) s
      sb.ops = s.ops ∧ (∀ e w, sb.e2w.getD e none = some w → w < sb.next) ∧
      (∀ r w, sb.rootW.getD r none = some w → w < sb.next) ∧ s.next ≤ sb.next ∧
      (∀ x v, s.e2w.getD x none = some v → sb.e2w.getD x none = some v) ∧
      (∀ x v, sb.e2w.getD x none = some v → s.e2w.getD x none = some v ∨ x ∈ outs.map (·.2)) ∧
      (∀ v, s.next ≤ v → v < sb.next → ∃ o ∈ outs, sb.e2w.getD o.2 none = some v) ∧
      (∀ o ∈ outs, ∃ v, sb.e2w.getD o.2 none = some v) := by
  induction outs with
  | nil =>
    intro s heb hrb _
    exact ⟨rfl, heb, hrb, Nat.le_refl _, fun _ _ h => h, fun _ _ h => Or.inl h,
      fun v h1 h2 => by simp only [List.foldl_nil] at h2; omega, by simp⟩
  | cons o rest ih =>
    intro s heb hrb hsz
    simp only [List.foldl_cons]
    cases hv : s.e2w.getD o.2 none with
    | some w0 =>
      simp only []
      obtain ⟨a1, a2, a3, a4, a5, a6, a7, a8⟩ := ih s heb hrb (fun o' ho' => hsz o' (by simp [ho']))
      refine ⟨a1, a2, a3, a4, a5, ?_, ?_, ?_⟩
      · intro x v hx
        rcases a6 x v hx with h | h
        · exact Or.inl h
        · exact Or.inr (by simp [h])
      · intro v h1 h2
        obtain ⟨o', ho', h3⟩ := a7 v h1 h2
        exact ⟨o', by simp [ho'], h3⟩
      · intro o' ho'
        rcases List.mem_cons.mp ho' with rfl | ho'
        · exact ⟨w0, a5 _ _ hv⟩
        · exact a8 o' ho'
    | none =>
      simp only []
      cases hal : s.allocWitness o.2 with
      | mk s1 w =>
        simp only []
        obtain ⟨he1, ho1, hrb1, hw1, hc1⟩ := alloc_run hrb hal
        have hn1 : s.next ≤ s1.next := by rcases hc1 with h | ⟨h, _⟩ <;> omega
        have heb2 : ∀ e v, (s1.setW o.2 w).e2w.getD e none = some v → v < (s1.setW o.2 w).next :=
          eb_set (s' := s1.setW o.2 w) heb he1 hn1 hw1 rfl
        have hsz2 : ∀ o' ∈ rest, o'.2 < (s1.setW o.2 w).e2w.size := by
          intro o' ho'
          simp only [LState.setW, Array.size_setIfInBounds, he1]
          exact hsz o' (by simp [ho'])
        obtain ⟨a1, a2, a3, a4, a5, a6, a7, a8⟩ := ih (s1.setW o.2 w) heb2 hrb1 hsz2
        have hself : (s1.setW o.2 w).e2w.getD o.2 none = some w := by
          simp only [LState.setW]
          rw [getD_setIfInBounds, if_pos ⟨rfl, by rw [he1]; exact hsz o (by simp)⟩]
        have hmono : ∀ x v, s.e2w.getD x none = some v → (s1.setW o.2 w).e2w.getD x none = some v := by
          intro x v hx
          simp only [LState.setW]
          rw [getD_setIfInBounds, he1]
          split
          · rename_i hh; rw [← hh.1, hv] at hx; cases hx
          · exact hx
        refine ⟨a1.trans ho1, a2, a3, Nat.le_trans hn1 a4, fun x v hx => a5 x v (hmono x v hx), ?_, ?_, ?_⟩
        · intro x v hx
          rcases a6 x v hx with h | h
          · simp only [LState.setW] at h
            rw [getD_setIfInBounds, he1] at h
            split at h
            · rename_i hh; exact Or.inr (by simp [hh.1])
            · exact Or.inl h
          · exact Or.inr (by simp [h])
        · intro v h1 h2
          by_cases hlt : v < s1.next
          · have hvw : v = w := by rcases hc1 with h | ⟨h, hw⟩ <;> omega
            exact ⟨o, by simp, by rw [hvw]; exact a5 _ _ hself⟩
          · obtain ⟨o', ho', h3⟩ := a7 v (by simp only [LState.setW]; omega) h2
            exact ⟨o', by simp [ho'], h3⟩
        · intro o' ho'
          rcases List.mem_cons.mp ho' with rfl | ho'
          · exact ⟨w, a5 _ _ hself⟩
          · exact a8 o' ho'

/-- The guard, per call. -/
theorem primOk_spec {b : BState K} (h : primOk b = true) {op : Nat} {d : NpData}
    (hd : b.npOps[op]? = some d) :
    (∃ x, d.ins = [[x]] ∧ ownOut b.nodes op x = false) ∧
    (d.kind = .hintBits ∨ (d.kind = .hintExt ∧
      ∀ outs, npOutputsOf b.nodes op = some outs → ∃ o, outs = [o])) := by
  unfold primOk at h
  rw [List.all_eq_true] at h
  have hlt : op < b.npOps.size := by
    by_contra hge
    rw [Array.getElem?_eq_none (by omega)] at hd
    cases hd
  have := h op (List.mem_range.mpr hlt)
  rw [hd] at this
  simp only [Bool.and_eq_true] at this
  obtain ⟨h1, h2⟩ := this
  constructor
  · split at h1
    · rename_i x hins
      exact ⟨x, hins, by simpa using h1⟩
    · cases h1
  · cases hk : d.kind with
    | hintBits => exact Or.inl rfl
    | table _ => rw [hk] at h2; cases h2
    | hintExt =>
      rw [hk] at h2
      refine Or.inr ⟨rfl, fun outs ho => ?_⟩
      rw [ho] at h2
      simp only at h2
      split at h2
      · rename_i o heq; cases heq; exact ⟨o, rfl⟩
      · cases h2
      · rename_i heq; cases heq

theorem run_emitNp {b : BState K} {opId : Nat} {s s' : LState K} (hprim : primOk b = true)
    (hI : RunInv b.nodes s) (hsz : s.e2w.size = b.nodes.size + 1)
    (hext : ∀ x v, s.e2w.getD x none = some v → s'.e2w.getD x none = some v)
    (h : s.emitNpCall b.nodes b.npOps opId = .ok s') : RunInv b.nodes s' := by
  unfold LState.emitNpCall at h
  split at h
  · cases h; exact hI
  · split at h
    · cases h
    · rename_i data hdata
      simp only at h
      split at h
      · cases h
      · rename_i outs houts
        obtain ⟨⟨x, hins, hown⟩, hkind⟩ := primOk_spec hprim hdata
        have hmem := npOutputsOf_own houts
        obtain ⟨p1, p2, p3, p4, p5, p6, p7, p8⟩ := prealloc_run outs
          { s with emitted := s.emitted.setIfInBounds opId true } hI.eb hI.rb
          (fun o ho => by show o.2 < s.e2w.size; rw [hsz]; have := (hmem o ho).2; omega)
        simp only at p1 p2 p3 p4 p5 p6 p7 p8
        generalize (outs.foldl (fun (st : LState K) (o : Nat × Nat) =>
          match st.e2w.getD o.2 none with
          | some _ => st
          | none => let (st', w) := st.allocWitness o.2; st'.setW o.2 w)
          { s with emitted := s.emitted.setIfInBounds opId true }) = sb at h p1 p2 p3 p4 p5 p6 p7 p8
        have hxnot : x ∉ outs.map (·.2) := by
          intro hx
          obtain ⟨o, ho, rfl⟩ := List.mem_map.mp hx
          rw [(hmem o ho).1] at hown
          cases hown
        -- the hint row
        have fin : ∀ (k : NpKind) (wx : Nat), sb.e2w.getD x none = some wx →
            (k = .hintBits ∨ (k = .hintExt ∧ ∃ o, outs = [o])) →
            RunInv b.nodes (sb.pushOp (.hint [wx] (outs.map fun o => (sb.e2w.getD o.2 none).getD 0) k)) := by
          intro k wx hwx hk
          have hwx0 : wx < s.next := by
            rcases p6 x wx hwx with h0 | h0
            · exact hI.eb x wx h0
            · exact absurd h0 hxnot
          refine hI.extend [.hint [wx] (outs.map fun o => (sb.e2w.getD o.2 none).getD 0) k]
            (by simp [LState.pushOp, p1]) p4 ?_ p2 p3 ?_
          · intro y v hy; exact p5 y v hy
          · intro t0 t hsz' _ _ hall
            have hsz'' : sb.next ≤ t.size := hsz'
            rw [runOps_single]
            have hbound : ∀ o' ∈ (outs.map fun o => (sb.e2w.getD o.2 none).getD 0), o' < t.size := by
              intro o' ho'
              obtain ⟨o, ho, rfl⟩ := List.mem_map.mp ho'
              obtain ⟨v, hv⟩ := p8 o ho
              rw [hv]
              have := p2 _ _ hv
              simp only [Option.getD_some]
              omega
            have hnew : ∀ t', (∀ o' ∈ (outs.map fun o => (sb.e2w.getD o.2 none).getD 0), getS t' o' = true) →
                ∀ v, s.next ≤ v → v < sb.next → getS t' v = true := by
              intro t' hall' v hv1 hv2
              obtain ⟨o, ho, hv⟩ := p7 v hv1 hv2
              exact hall' v (List.mem_map.mpr ⟨o, ho, by rw [hv]; rfl⟩)
            rcases hk with rfl | ⟨rfl, o, rfl⟩
            · simp only [execOpShape]
              rw [if_neg (by simp [hall wx hwx0])]
              obtain ⟨t', e1, e2⟩ := foldSet_ok _ t hbound
              exact ⟨t', e1, hnew t' e2⟩
            · simp only [execOpShape, List.map_cons, List.map_nil]
              rw [if_neg (by simp [hall wx hwx0])]
              have hb1 := hbound ((sb.e2w.getD o.2 none).getD 0) (by simp)
              obtain ⟨t', e1, e2⟩ := setS_ok (t := t) hb1
              refine ⟨t', e1, hnew t' ?_⟩
              intro o' ho'
              simp only [List.map_cons, List.map_nil, List.mem_singleton] at ho'
              rw [ho']; exact e2
        have hkind' : ∀ k, data.kind = k → (k = .hintBits ∨ (k = .hintExt ∧ ∃ o, outs = [o])) := by
          intro k hk
          rcases hkind with h1 | ⟨h1, h2⟩
          · exact Or.inl (hk ▸ h1)
          · exact Or.inr ⟨hk ▸ h1, h2 outs houts⟩
        split at h
        · rename_i tag hk
          rcases hkind with h1 | ⟨h1, _⟩ <;> rw [hk] at h1 <;> cases h1
        · rename_i k hk
          rw [hins] at h
          simp only [List.mapM_cons, List.mapM_nil, bind, Except.bind, pure, Except.pure] at h
          cases hr : sb.resolve x with
          | error e => rw [hr] at h; simp at h
          | ok wx =>
            rw [hr] at h
            simp only [Except.ok.injEq] at h
            subst h
            exact fin _ wx (resolve_ok.mp hr) (hkind' _ rfl)

omit [Neg K] in
theorem mem_npOutputsOf {nodes : Array (Expr K)} {i call idx op : Nat} {args : List Nat}
    (hi : nodes[i]? = some (.npOut call idx)) (hc : nodes[call]? = some (.npCall op args))
    {outs : List (Nat × Nat)} (h : npOutputsOf nodes op = some outs) : ∃ o ∈ outs, o.2 = i := by
  unfold npOutputsOf at h
  simp only at h
  split at h
  · cases h
    refine ⟨(idx, i), ?_, rfl⟩
    rw [List.mem_mergeSort]
    refine List.mem_filterMap.mpr ⟨i, ?_, ?_⟩
    · rw [List.mem_range]
      by_contra hge
      rw [Array.getElem?_eq_none (by omega)] at hi
      cases hi
    · simp only [hi, hc, if_true]
  · cases h

theorem emitNp_mapped {nodes : Array (Expr K)} {npOps : Array NpData} {opId : Nat} {s s2 : LState K}
    (hI : RunInv nodes s) (hsz : s.e2w.size = nodes.size + 1)
    (hEm : s.emitted.getD opId false = true → ∃ outs, npOutputsOf nodes opId = some outs ∧
      ∀ o ∈ outs, ∃ w, s.e2w.getD o.2 none = some w)
    (h : s.emitNpCall nodes npOps opId = .ok s2) :
    ∃ outs, npOutputsOf nodes opId = some outs ∧ ∀ o ∈ outs, ∃ w, s2.e2w.getD o.2 none = some w := by
  unfold LState.emitNpCall at h
  split at h
  · rename_i hem; cases h; exact hEm hem
  · split at h
    · cases h
    · rename_i data hdata
      simp only at h
      split at h
      · cases h
      · rename_i outs houts
        have hmem := npOutputsOf_own houts
        obtain ⟨_, _, _, _, _, _, _, p8⟩ := prealloc_run outs
          { s with emitted := s.emitted.setIfInBounds opId true } hI.eb hI.rb
          (fun o ho => by show o.2 < s.e2w.size; rw [hsz]; have := (hmem o ho).2; omega)
        simp only at p8
        generalize (outs.foldl (fun (st : LState K) (o : Nat × Nat) =>
          match st.e2w.getD o.2 none with
          | some _ => st
          | none => let (st', w) := st.allocWitness o.2; st'.setW o.2 w)
          { s with emitted := s.emitted.setIfInBounds opId true }) = sb at h p8
        have : s2.e2w = sb.e2w := by
          split at h
          · split at h
            · cases h
            · cases h; rfl
          · split at h
            · split at h
              · cases h
              · cases h; rfl
            · cases h
        exact ⟨outs, houts, fun o ho => by rw [this]; exact p8 o ho⟩

/-- **One step of `emit_operations`.** -/
theorem run_emit {b : BState K} {P : List Nat} {s s' : LState K} {i : Nat} {e : Expr K}
    (hprim : primOk b = true) (hi : b.nodes[i]? = some e) (hI : RunInv b.nodes s)
    (hE : C18L.EInv b P s)
    (hext : ∀ x v, s.e2w.getD x none = some v → s'.e2w.getD x none = some v)
    (h : s.emitNode b.nodes b.npOps i e = .ok s') : RunInv b.nodes s' := by
  by_cases he : e.isAluE = true
  · exact run_emit_alu hI he hext h
  · cases e with
    | const _ => simp only [LState.emitNode, Except.ok.injEq] at h; subst h; exact hI
    | pub _ => simp only [LState.emitNode, Except.ok.injEq] at h; subst h; exact hI
    | priv _ => simp only [LState.emitNode, Except.ok.injEq] at h; subst h; exact hI
    | add _ _ => simp [Expr.isAluE] at he
    | sub _ _ => simp [Expr.isAluE] at he
    | mul _ _ => simp [Expr.isAluE] at he
    | div _ _ => simp [Expr.isAluE] at he
    | horner _ _ _ _ => simp [Expr.isAluE] at he
    | boolCheck _ => simp [Expr.isAluE] at he
    | mulAdd _ _ _ => simp [Expr.isAluE] at he
    | npCall op args => exact run_emitNp hprim hI hE.esz hext h
    | npOut call idx =>
      simp only [LState.emitNode] at h
      split at h
      · rename_i op args hc
        split at h
        · cases h
        · rename_i s2 h2
          obtain ⟨outs, ho, hm⟩ := emitNp_mapped hI hE.esz (hE.e op) h2
          obtain ⟨o, hoo, hoi⟩ := mem_npOutputsOf hi hc ho
          obtain ⟨w, hw⟩ := hm o hoo
          rw [hoi] at hw
          simp only [hw, Except.ok.injEq] at h
          subst h
          exact run_emitNp hprim hI hE.esz hext h2
      · cases h

end emit

/-! ### Public rows: bookkeeping (`C09C.Q` for the public side) -/

theorem alloc_pub (s : LState K) (e : Nat) : (s.allocWitness e).1.pubRows = s.pubRows := by
  unfold LState.allocWitness
  split
  · dsimp only
    split <;> rfl
  · rfl

theorem alloc_pub' {s s1 : LState K} {e w : Nat} (h : s.allocWitness e = (s1, w)) :
    s1.pubRows = s.pubRows := by
  have := alloc_pub s e
  rw [h] at this
  exact this

theorem prealloc_pub (outs : List (Nat × Nat)) (s : LState K) :
    (outs.foldl (fun (st : LState K) (o : Nat × Nat) =>
        match st.e2w.getD o.2 none with
        | some _ => st
        | none => let (st', w) := st.allocWitness o.2; st'.setW o.2 w) s).pubRows = s.pubRows := by
  induction outs generalizing s with
  | nil => rfl
  | cons o rest ih =>
    simp only [List.foldl_cons]
    cases hv : s.e2w.getD o.2 none with
    | some w0 => simp only []; exact ih s
    | none =>
      simp only []
      cases hal : s.allocWitness o.2 with
      | mk s1 w =>
        simp only []
        have h1 : s1.pubRows = s.pubRows := alloc_pub' hal
        exact (ih (s1.setW o.2 w)).trans h1

section emitpub
variable [Neg K]

omit [Neg K] in
theorem emitNp_pub {nodes : Array (Expr K)} {npOps : Array NpData} {opId : Nat} {s s' : LState K}
    (h : s.emitNpCall nodes npOps opId = .ok s') : s'.pubRows = s.pubRows := by
  unfold LState.emitNpCall at h
  split at h
  · cases h; rfl
  · split at h
    · cases h
    · simp only at h
      split at h
      · cases h
      · rename_i outs _
        have hb := prealloc_pub outs { s with emitted := s.emitted.setIfInBounds opId true }
        generalize (outs.foldl (fun (st : LState K) (o : Nat × Nat) =>
          match st.e2w.getD o.2 none with
          | some _ => st
          | none => let (st', w) := st.allocWitness o.2; st'.setW o.2 w)
          { s with emitted := s.emitted.setIfInBounds opId true }) = sb at h hb
        split at h
        · split at h
          · cases h
          · cases h; exact hb
        · split at h
          · split at h
            · cases h
            · cases h; exact hb
          · cases h

theorem emit_pub {nodes : Array (Expr K)} {npOps : Array NpData} {s s' : LState K} {i : Nat}
    {e : Expr K} (h : s.emitNode nodes npOps i e = .ok s') : s'.pubRows = s.pubRows := by
  have alu : ∀ {f : LState K → Nat → Except LowerErr (LState K)},
      (∀ s1 w s2, f s1 w = .ok s2 → s2.pubRows = s1.pubRows) →
      (match s.allocWitness i with | (s1, w) => f s1 w) = .ok s' → s'.pubRows = s.pubRows := by
    intro f hf h
    cases hal : s.allocWitness i with
    | mk s1 w =>
      rw [hal] at h
      exact (hf s1 w s' h).trans (alloc_pub' hal)
  cases e with
  | const _ => simp only [LState.emitNode, Except.ok.injEq] at h; subst h; rfl
  | pub _ => simp only [LState.emitNode, Except.ok.injEq] at h; subst h; rfl
  | priv _ => simp only [LState.emitNode, Except.ok.injEq] at h; subst h; rfl
  | npCall op _ => exact emitNp_pub h
  | npOut call idx =>
    simp only [LState.emitNode] at h
    split at h
    · split at h
      · cases h
      · rename_i s2 h2
        have h2' := emitNp_pub h2
        split at h
        · cases h; exact h2'
        · cases hal : s2.allocWitness i with
          | mk s3 w =>
            rw [hal] at h
            cases h
            exact (alloc_pub' hal).trans h2'
    · cases h
  | add l r =>
    refine alu (f := fun s1 out => match s1.resolve l, s1.resolve r with
      | .ok a, .ok b => .ok ((s1.pushOp (Op.add a b out)).setW i out)
      | .error e, _ => .error e
      | _, .error e => .error e) ?_ h
    intro s1 w s2 hf
    split at hf <;> first | (cases hf; rfl) | cases hf
  | mul l r =>
    refine alu (f := fun s1 out => match s1.resolve l, s1.resolve r with
      | .ok a, .ok b => .ok ((s1.pushOp (Op.mul a b out)).setW i out)
      | .error e, _ => .error e
      | _, .error e => .error e) ?_ h
    intro s1 w s2 hf
    split at hf <;> first | (cases hf; rfl) | cases hf
  | div l r =>
    refine alu (f := fun s1 q => match s1.resolve l, s1.resolve r with
      | .ok out, .ok a => .ok ((s1.pushOp (Op.mul a q out)).setW i q)
      | .error e, _ => .error e
      | _, .error e => .error e) ?_ h
    intro s1 w s2 hf
    split at hf <;> first | (cases hf; rfl) | cases hf
  | horner acc alpha pz px =>
    refine alu (f := fun s1 out => match s1.resolve acc, s1.resolve alpha, s1.resolve pz, s1.resolve px with
      | .ok accW, .ok alW, .ok pzW, .ok pxW => .ok ((s1.pushOp (Op.horner pxW alW pzW out accW)).setW i out)
      | .error e, _, _, _ => .error e
      | _, .error e, _, _ => .error e
      | _, _, .error e, _ => .error e
      | _, _, _, .error e => .error e) ?_ h
    intro s1 w s2 hf
    split at hf <;> first | (cases hf; rfl) | cases hf
  | boolCheck v =>
    refine alu (f := fun s1 out => match s1.resolve v, s1.resolve 0 with
      | .ok vw, .ok zw => .ok ((s1.pushOp (.alu .boolCheck vw zw (some vw) out none)).setW i out)
      | .error e, _ => .error e
      | _, .error e => .error e) ?_ h
    intro s1 w s2 hf
    split at hf <;> first | (cases hf; rfl) | cases hf
  | mulAdd x y z =>
    refine alu (f := fun s1 out => match s1.resolve x, s1.resolve y, s1.resolve z with
      | .ok aw, .ok bw, .ok cw => .ok ((s1.pushOp (Op.mulAdd aw bw cw out)).setW i out)
      | .error e, _, _ => .error e
      | _, .error e, _ => .error e
      | _, _, .error e => .error e) ?_ h
    intro s1 w s2 hf
    split at hf <;> first | (cases hf; rfl) | cases hf
  | sub l r =>
    simp only [LState.emitNode] at h
    cases hal : s.allocWitness i with
    | mk s1 res =>
      rw [hal] at h
      have hp1 := alloc_pub' hal
      simp only at h
      split at h
      · cases h
      · split at h
        · cases hal2 : s1.allocWitness nodes.size with
          | mk s2 nw =>
            rw [hal2] at h
            cases h
            exact (alloc_pub' hal2).trans hp1
        · split at h
          · cases h
          · cases h; exact hp1

end emitpub

structure QP (b : BState K) (s : LState K) : Prop where
  sz : s.pubRows.size = b.pubCount
  pr : ∀ x pos w, b.nodes[x]? = some (.pub pos) → s.e2w.getD x none = some w →
    s.pubRows[pos]? = some w

theorem pubOk_spec {b : BState K} (h : pubOk b = true) {i pos : Nat}
    (hi : b.nodes[i]? = some (.pub pos)) :
    pos < b.pubCount ∧ ∀ j, b.nodes[j]? = some (.pub pos) → j = i := by
  have lt : ∀ {j : Nat} {e : Expr K}, b.nodes[j]? = some e → j < b.nodes.size := by
    intro j e hj
    by_contra hge
    rw [Array.getElem?_eq_none (by omega)] at hj
    cases hj
  unfold pubOk at h
  rw [List.all_eq_true] at h
  have h1 := h i (List.mem_range.mpr (lt hi))
  rw [hi] at h1
  simp only [Bool.and_eq_true, decide_eq_true_eq, List.all_eq_true, List.mem_range] at h1
  refine ⟨h1.1, fun j hj => ?_⟩
  have h2 := h1.2 j (lt hj)
  rw [hj] at h2
  simpa using h2

theorem fConst_QP {b : BState K} {s s' : LState K} {i : Nat} {e : Expr K}
    (hi : b.nodes[i]? = some e) (hQ : QP b s) (h : fConst s i e = .ok s') : QP b s' := by
  cases e with
  | const v =>
    simp only [fConst] at h
    cases hal : s.allocWitness i with
    | mk s1 w =>
      rw [hal] at h
      simp only [Except.ok.injEq] at h
      subst h
      have he := (alloc_fields' hal).1
      have hp := alloc_pub' hal
      refine ⟨by simp [LState.setW, LState.pushOp, hp, hQ.sz], ?_⟩
      intro x pos w' hx hw
      simp only [LState.setW, LState.pushOp] at hw ⊢
      rw [getD_setIfInBounds, he] at hw
      by_cases hix : i = x
      · subst hix; rw [hi] at hx; cases hx
      · rw [if_neg (fun hh => hix hh.1)] at hw
        rw [hp]; exact hQ.pr x pos w' hx hw
  | _ =>
    simp only [fConst, Except.ok.injEq] at h
    subst h
    exact hQ

theorem fPriv_QP {b : BState K} {s s' : LState K} {i : Nat} {e : Expr K}
    (hi : b.nodes[i]? = some e) (hQ : QP b s) (h : fPriv s i e = .ok s') : QP b s' := by
  cases e with
  | priv v =>
    simp only [fPriv] at h
    cases hal : s.allocWitness i with
    | mk s1 w =>
      rw [hal] at h
      simp only [Except.ok.injEq] at h
      subst h
      have he := (alloc_fields' hal).1
      have hp := alloc_pub' hal
      refine ⟨by simp [LState.setW, hp, hQ.sz], ?_⟩
      intro x pos w' hx hw
      simp only [LState.setW] at hw ⊢
      rw [getD_setIfInBounds, he] at hw
      by_cases hix : i = x
      · subst hix; rw [hi] at hx; cases hx
      · rw [if_neg (fun hh => hix hh.1)] at hw
        rw [hp]; exact hQ.pr x pos w' hx hw
  | _ =>
    simp only [fPriv, Except.ok.injEq] at h
    subst h
    exact hQ

theorem fPub_QP {b : BState K} (hpu : pubOk b = true) {s s' : LState K} {i : Nat} {e : Expr K}
    (hi : b.nodes[i]? = some e) (hsz : i < s.e2w.size) (hQ : QP b s)
    (h : fPub s i e = .ok s') : QP b s' := by
  cases e with
  | pub pos0 =>
    simp only [fPub] at h
    cases hal : s.allocWitness i with
    | mk s1 w =>
      rw [hal] at h
      simp only [Except.ok.injEq] at h
      subst h
      have he := (alloc_fields' hal).1
      have hp := alloc_pub' hal
      obtain ⟨hlt, huniq⟩ := pubOk_spec hpu hi
      refine ⟨by simp [LState.setW, LState.pushOp, hp, hQ.sz], ?_⟩
      intro x pos w' hx hw
      simp only [LState.setW, LState.pushOp] at hw ⊢
      rw [getD_setIfInBounds, he] at hw
      rw [hp]
      by_cases hix : i = x
      · subst hix
        rw [hi] at hx
        cases hx
        rw [if_pos ⟨rfl, hsz⟩] at hw
        cases hw
        have : pos0 < s.pubRows.size := by rw [hQ.sz]; exact hlt
        simp [Array.getElem?_setIfInBounds, this]
      · rw [if_neg (fun hh => hix hh.1)] at hw
        have hne : pos0 ≠ pos := by
          intro hpp
          subst hpp
          exact hix (huniq x hx).symm
        have := hQ.pr x pos w' hx hw
        simp [Array.getElem?_setIfInBounds, hne, this]
  | _ =>
    simp only [fPub, Except.ok.injEq] at h
    subst h
    exact hQ

/-! ### The table "every public and private row set" -/

/-- The `t0` of the driver's `shape` command. -/
def allSet (n : Nat) (rows : List Nat) : Array Bool :=
  rows.foldl (fun t i => t.setIfInBounds i true) (Array.replicate n false)

theorem allSet_spec (rows : List Nat) : ∀ (t : Array Bool),
    (rows.foldl (fun t i => t.setIfInBounds i true) t).size = t.size ∧
    ∀ w, getS (rows.foldl (fun t i => t.setIfInBounds i true) t) w = true ↔
      getS t w = true ∨ (w ∈ rows ∧ w < t.size) := by
  induction rows with
  | nil => intro t; simp
  | cons r rest ih =>
    intro t
    simp only [List.foldl_cons]
    obtain ⟨h1, h2⟩ := ih (t.setIfInBounds r true)
    refine ⟨by simpa using h1, fun w => ?_⟩
    rw [h2 w, getS_set]
    simp only [Array.size_setIfInBounds, List.mem_cons]
    constructor
    · rintro ((h | ⟨rfl, h⟩) | ⟨h, hlt⟩)
      · exact Or.inl h
      · exact Or.inr ⟨Or.inl rfl, h⟩
      · exact Or.inr ⟨Or.inr h, hlt⟩
    · rintro (h | ⟨rfl | h, hlt⟩)
      · exact Or.inl (Or.inl h)
      · exact Or.inl (Or.inr ⟨rfl, hlt⟩)
      · exact Or.inr ⟨h, hlt⟩

theorem allSet_size (n : Nat) (rows : List Nat) : (allSet n rows).size = n := by
  unfold allSet
  rw [(allSet_spec rows _).1]
  simp

theorem getS_allSet {n : Nat} {rows : List Nat} {w : Nat} (hm : w ∈ rows) (hlt : w < n) :
    getS (allSet n rows) w = true := by
  unfold allSet
  rw [(allSet_spec rows _).2 w]
  exact Or.inr ⟨hm, by simpa using hlt⟩

theorem none_of_passInv [Neg K] {nodes : Array (Expr K)} {N : Nat} {R : Array Nat} {C : Array Bool} {p k : Nat}
    {s : LState K} (PI : PassInv nodes N R C p k s) {e : Expr K} (hk : nodes[k]? = some e)
    (hc : cat e = p) : isOut e = false → s.e2w.getD k none = none := by
  intro ho
  cases hv : s.e2w.getD k none with
  | none => rfl
  | some w =>
    obtain ⟨e', he', hcase⟩ := PI.only k w hv
    rw [hk] at he'
    cases he'
    rcases hcase with h | ⟨_, h⟩ | h
    · omega
    · omega
    · rw [ho] at h; cases h

end P3R.C02S
