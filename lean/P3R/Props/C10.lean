/-
C10 — every buildable circuit with satisfying inputs can be proven and verified.
Model-level content (real proving is exercised by the harness on every run):

* `record_row_add/mul/muladd` — the record the runner emits for an executed ALU op
  (`C02.execAlu_sound`) makes the corresponding lane constraints of the ALU table vanish;
* `record_row_bool` — for a bool check the row constraint vanishes iff the checked value is
  0 or 1 (the runner itself does not test it: a violated `assert_bool` surfaces here);
* `honest_bus_balanced` — restatement of `C09.bus_balanced`: in an honest execution every
  interaction on a slot carries the slot's single witness value, so the signed multiset is
  balanced as soon as the per-slot multiplicities cancel.
Horner rows: the table row uses the *previous row's* output as accumulator while the runner
uses the `acc` operand; they agree only for well-formed chains (`HornerChainsWF`), which is
why the full statement is false for arbitrary `horner_acc_step` programs (finding F7, replayed
by the harness). The packed/scheduled layout is tied by C11's scheduled-trace oracle.
-/
import P3R.Props.C02
import P3R.Props.C09
import P3R.Props.C11

namespace P3R.C10
open P3R

variable {K : Type} [Field K] [DecidableEq K]

theorem record_row_add (r : AluRec K) (acc : K) (hk : r.kind = .add) (h : C02.recHolds r acc) :
    ∀ x ∈ laneAdd 1 (1 : K) [r.aVal] [r.bVal] [r.outVal], x = 0 := by
  rw [C11.laneAdd_iff 1 (1 : K) one_ne_zero]
  intro i hi
  have : i = 0 := by omega
  subst this
  simpa [C02.recHolds, hk, vget] using h

theorem record_row_mul (r : AluRec K) (acc : K) (hk : r.kind = .mul) (h : C02.recHolds r acc) :
    ∀ x ∈ laneEq 1 (1 : K) [r.aVal * r.bVal] [r.outVal], x = 0 := by
  rw [C11.laneEq_iff 1 (1 : K) one_ne_zero]
  intro i hi
  have : i = 0 := by omega
  subst this
  simpa [C02.recHolds, hk, vget] using h

theorem record_row_muladd (r : AluRec K) (acc : K) (hk : r.kind = .mulAdd) (h : C02.recHolds r acc) :
    ∀ x ∈ laneMulAdd 1 (1 : K) [r.aVal * r.bVal] [r.cVal] [r.outVal], x = 0 := by
  rw [C11.laneMulAdd_iff 1 (1 : K) one_ne_zero]
  intro i hi
  have : i = 0 := by omega
  subst this
  simpa [C02.recHolds, hk, vget] using h

/-- The bool-check row accepts the runner's record exactly when the value is boolean. -/
theorem record_row_bool (r : AluRec K) :
    (∀ x ∈ laneBool 1 (1 : K) [r.aVal], x = 0) ↔ (r.aVal = 0 ∨ r.aVal = 1) := by
  rw [C11.laneBool_iff 1 (1 : K) one_ne_zero]
  simp [vget]

/-- Honest bus: if every read slot has a creator, every slot's net multiplicity is zero. -/
theorem honest_bus_balanced {F} (c : Circuit F) (p : Prep) (h : genPrep c = some p)
    (hwf : ∀ s, readsOf p.reads s ≠ 0 → s ∈ p.defined) : ∀ s, p.net s = 0 :=
  C09.bus_balanced c p h hwf

end P3R.C10
