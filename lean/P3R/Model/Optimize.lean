/-
L3 — optimiser passes on the flat op list.
Mirrors `circuit/src/builder/compiler/optimizer/{analysis,dedup,fuse_mul_add}.rs` and
`WitnessId::resolve` (`types.rs`).
-/
import P3R.Model.Lower

namespace P3R

/-- The rewrite map `dup ↦ canonical` as an association list (newest first). -/
abbrev Rewrite := List (Nat × Nat)

/-- `WitnessId::resolve`: follow the map until a non-key. The Rust loop is unbounded; the
model carries fuel and reports exhaustion (`none`) so that termination is a theorem about
the maps dedup can build (`P3R.Props.C02`), not an assumption. -/
def resolveFuel (rw : Rewrite) : Nat → Nat → Option Nat
  | 0, _ => none
  | fuel + 1, w =>
    match rw.lookup w with
    | none => some w
    | some w' => resolveFuel rw fuel w'

/-- Resolution with the canonical fuel `|rw| + 1` (enough for every acyclic map). Falls back
to the input when fuel runs out; `resolve_total` shows that never happens for dedup maps. -/
def resolve (rw : Rewrite) (w : Nat) : Nat := (resolveFuel rw (rw.length + 1) w).getD w

/-- `Op::apply_witness_rewrite`. -/
def Op.rewrite {K} (rw : Rewrite) : Op K → Op K
  | .const out v => .const (resolve rw out) v
  | .pub out pos => .pub (resolve rw out) pos
  | .alu k a b c out io =>
    .alu k (resolve rw a) (resolve rw b) (c.map (resolve rw)) (resolve rw out) (io.map (resolve rw))
  | .hint ins outs k => .hint (ins.map (resolve rw)) (outs.map (resolve rw)) k
  | .npo ins outs id k => .npo (ins.map (·.map (resolve rw))) (outs.map (·.map (resolve rw))) id k

/-- `AluKey::new(..).with_accumulator(..)`. The accumulator (`intermediate_out`) of a Horner
step is part of the key (repo fix for finding F1; before it the key ignored `acc`). -/
def aluKey (k : AluKind) (a b : Nat) (c io : Option Nat) : AluKind × Nat × Nat × Nat × Nat :=
  match k with
  | .add | .mul => (k, min a b, max a b, 0, 0)
  | .boolCheck => (k, a, b, 0, 0)
  | .mulAdd => (k, a, b, c.getD 0, 0)
  | .horner => (k, a, b, c.getD 0, io.getD 0)

structure DedupState (K : Type) where
  rw : Rewrite
  seen : List ((AluKind × Nat × Nat × Nat × Nat) × Nat)
  out : Array (Op K)

/-- One iteration of `Deduplicator::run`. -/
def DedupState.step {K} (s : DedupState K) (op : Op K) : DedupState K :=
  let op := op.rewrite s.rw
  match op with
  | .alu k a b c out io =>
    let key := aluKey k (resolve s.rw a) (resolve s.rw b) (c.map (resolve s.rw)) (io.map (resolve s.rw))
    match s.seen.lookup key with
    | some canonical =>
      let root := resolve s.rw canonical
      if out ≠ root then { s with rw := (out, root) :: s.rw } else s
    | none => { s with seen := (key, out) :: s.seen, out := s.out.push op }
  | _ => { s with out := s.out.push op }

/-- `Deduplicator::run`. After the scan the *final* rewrite map is re-applied to every kept
op (repo fix for finding F2: an op emitted before a rewrite was recorded, e.g. a `Public` op
whose slot is aliased to a later duplicate's output, must follow the slot to its root). -/
def dedup {K} (ops : Array (Op K)) : Array (Op K) × Rewrite :=
  let s := ops.foldl DedupState.step ({ rw := [], seen := [], out := #[] } : DedupState K)
  (s.out.map (Op.rewrite s.rw), s.rw)

/-! ### Mul+Add fusion -/

inductive OpDef (K : Type) where
  | const (v : K)
  | mul (a b : Nat)
  | other

structure Fusion (K : Type) where
  useCounts : List (Nat × Nat)
  defs : List (Nat × (Nat × OpDef K))
  backwards : List (Nat × Nat)
  /-- private-input slots: set before execution, no defining op (repo fix for finding F13) -/
  inputs : List Nat
  /-- number of ops writing each slot (repo fix for finding F3) -/
  writers : List (Nat × Nat)

section
variable {K : Type}

def bump (m : List (Nat × Nat)) (w : Nat) : List (Nat × Nat) :=
  match m.lookup w with
  | some n => (w, n + 1) :: m
  | none => (w, 1) :: m

def Fusion.defIdx (f : Fusion K) (w : Nat) : Option Nat := (f.defs.lookup w).map (·.1)
def Fusion.isConst (f : Fusion K) (w : Nat) : Bool :=
  match f.defs.lookup w with
  | some (_, .const _) => true
  | _ => false
def Fusion.uses (f : Fusion K) (w : Nat) : Nat := (f.useCounts.lookup w).getD 0
def Fusion.isBackwards (f : Fusion K) (idx out : Nat) : Bool :=
  f.inputs.contains out ||
  match f.defIdx out with
  | some i => decide (i < idx)
  | none => false
def Fusion.insertDef (f : Fusion K) (w idx : Nat) (d : OpDef K) : Fusion K :=
  let f := { f with writers := bump f.writers w }
  if f.isConst w then f else { f with defs := (w, (idx, d)) :: f.defs }
def Fusion.trackBackwards (f : Fusion K) (idx out computed : Nat) : Fusion K :=
  if f.isBackwards idx out then
    ({ f with backwards := (computed, idx) :: f.backwards }).insertDef computed idx .other
  else f

/-- `scan_use_counts`. A Horner step's accumulator (`intermediate_out`) and a hint's inputs
are uses as well (repo fix for finding F3: a product read only through one of them was fused
away although the fused row does not constrain it). -/
def scanUseCounts (ops : Array (Op K)) : List (Nat × Nat) :=
  ops.foldl (fun m op =>
    match op with
    | .alu k a b c _ io =>
      let m := bump (bump m a) b
      let m := match c with
        | some c => bump m c
        | none => m
      match k, io with
      | .horner, some acc => bump m acc
      | _, _ => m
    | .hint ins _ _ => ins.foldl bump m
    | .npo ins _ _ _ => ins.flatten.foldl bump m
    | _ => m) []

/-- `scan_defs`. -/
def scanDefs (f : Fusion K) (ops : Array (Op K)) : Fusion K :=
  (ops.toList.zipIdx).foldl (fun f (p : Op K × Nat) =>
    let idx := p.2
    match p.1 with
    | .const out v => { f with defs := (out, (idx, .const v)) :: f.defs, writers := bump f.writers out }
    | .alu .mul a b none out _ => (f.trackBackwards idx out b).insertDef out idx (.mul a b)
    | .alu .add _ b none out _ => (f.trackBackwards idx out b).insertDef out idx .other
    | .alu _ _ _ _ out _ => f.insertDef out idx .other
    | .pub out _ => f.insertDef out idx .other
    | .npo _ outs _ _ => outs.flatten.foldl (fun f w => f.insertDef w idx .other) f
    | .hint _ outs _ => outs.foldl (fun f w => f.insertDef w idx .other) f) f

def Fusion.new (ops : Array (Op K)) (inputs : List Nat) : Fusion K :=
  scanDefs { useCounts := scanUseCounts ops, defs := [], backwards := [], inputs := inputs, writers := [] } ops

/-- A fusion candidate: position of the mul, the fused op, the addend. -/
structure Cand (K : Type) where
  addIdx : Nat
  mulIdx : Nat
  op : Op K
  addend : Nat
  out : Nat

/-- `try_fuse`. -/
def Fusion.tryFuse (f : Fusion K) (mulResult addend out addIdx : Nat) : Option (Cand K) :=
  match f.defs.lookup mulResult with
  | some (mulIdx, .mul ma mb) =>
    if f.uses mulResult ≠ 1 || f.isConst mulResult then none
    else if (f.writers.lookup mulResult).getD 0 ≠ 1 || f.inputs.contains mulResult then none
    else if (match f.defIdx addend with | some i => decide (i ≥ addIdx) | none => false) then none
    else if (match f.backwards.lookup addend with | some i => decide (i ≥ mulIdx) | none => false) then none
    else if (match f.defIdx mb with | some i => decide (i ≥ mulIdx) | none => false) then none
    else some { addIdx := addIdx, mulIdx := mulIdx,
                op := .alu .mulAdd ma mb (some addend) out (some mulResult),
                addend := addend, out := out }
  | _ => none

/-- `identify_candidates`, in ascending `add_idx` order. -/
def Fusion.candidates (f : Fusion K) (ops : Array (Op K)) : List (Cand K) :=
  (ops.toList.zipIdx).filterMap fun (p : Op K × Nat) =>
    match p.1 with
    | .alu .add a b none out _ =>
      if f.isConst out || f.isBackwards p.2 out then none
      else match f.tryFuse a b out p.2 with
        | some c => some c
        | none => f.tryFuse b a out p.2
    | _ => none

/-- One round of the `filter_valid` fixpoint. `fusedPos` maps an add's `out` to its mul
position; when two valid adds share `out` the Rust `collect()` keeps whichever the hash
iteration visits last — the model takes the *last in ascending order* (see C18). -/
def Fusion.filterRound (f : Fusion K) (valid : List (Cand K)) : List (Cand K) :=
  let fusedPos : List (Nat × Nat) := (valid.map fun c => (c.out, c.mulIdx)).reverse
  valid.filter fun c =>
    let pos := match fusedPos.lookup c.addend with
      | some p => some p
      | none => f.defIdx c.addend
    match pos with
    | some p => decide (p < c.mulIdx)
    | none => true

def Fusion.filterValid (f : Fusion K) : Nat → List (Cand K) → List (Cand K)
  | 0, valid => valid
  | fuel + 1, valid =>
    let valid' := f.filterRound valid
    if valid'.length = valid.length then valid else f.filterValid fuel valid'

/-- `apply`: replace each fused mul by the MulAdd and drop the consumed add. -/
def Fusion.apply (ops : Array (Op K)) (valid : List (Cand K)) : Array (Op K) :=
  -- first candidate per mul position wins (positions are distinct in practice)
  let chosen := valid.foldl (fun (acc : List (Cand K)) c =>
    if acc.any (fun d => d.mulIdx = c.mulIdx) then acc else acc ++ [c]) []
  ((ops.toList.zipIdx).filterMap fun (p : Op K × Nat) =>
    if chosen.any (fun c => c.addIdx = p.2) then none
    else match chosen.find? (fun c => c.mulIdx = p.2) with
      | some c => some c.op
      | none => some p.1).toArray

/-- `MulAddFusion::with_inputs(&ops, inputs).run(ops)`. -/
def fuse (ops : Array (Op K)) (inputs : List Nat) : Array (Op K) :=
  let f := Fusion.new ops inputs
  let cands := f.candidates ops
  Fusion.apply ops (f.filterValid (cands.length + 1) cands)

/-- `Optimizer::optimize_with_inputs`. -/
def optimize (ops : Array (Op K)) (privRows : List Nat) : Array (Op K) × Rewrite :=
  let (ops, rw) := dedup ops
  (fuse ops (privRows.map (resolve rw)), rw)

end

/-- Witness slots that carry the constant zero. -/
def zeroConsts {K : Type} [Zero K] [DecidableEq K] (ops : List (Op K)) : List Nat :=
  ops.filterMap fun
    | .const out v => if v = 0 then some out else none
    | _ => none

/-- `CircuitBuilder::validate_horner_chains`: the ALU table takes a HornerAcc step's accumulator
from the previous ALU row (zero at the start of a run of HornerAcc ops), so a step's `acc` must be
the directly preceding HornerAcc step's output, or a zero constant's slot at the start of a run.
`prev` is the output of the preceding ALU op when that op is a HornerAcc step. -/
def hornerChainedFrom {K : Type} (zs : List Nat) : List (Op K) → Option Nat → Bool
  | [], _ => true
  | .alu .horner _ _ _ out (some acc) :: ops, prev =>
    (match prev with
     | some p => acc == p
     | none => zs.contains acc) && hornerChainedFrom zs ops (some out)
  | .alu .horner _ _ _ _ none :: _, _ => false
  | .alu .add _ _ _ _ _ :: ops, _ => hornerChainedFrom zs ops none
  | .alu .mul _ _ _ _ _ :: ops, _ => hornerChainedFrom zs ops none
  | .alu .boolCheck _ _ _ _ _ :: ops, _ => hornerChainedFrom zs ops none
  | .alu .mulAdd _ _ _ _ _ :: ops, _ => hornerChainedFrom zs ops none
  | .const _ _ :: ops, prev => hornerChainedFrom zs ops prev
  | .pub _ _ :: ops, prev => hornerChainedFrom zs ops prev
  | .hint _ _ _ :: ops, prev => hornerChainedFrom zs ops prev
  | .npo _ _ _ _ :: ops, prev => hornerChainedFrom zs ops prev

def hornerChained {K : Type} [Zero K] [DecidableEq K] (ops : List (Op K)) : Bool :=
  hornerChainedFrom (zeroConsts ops) ops none

/-- The compiled circuit (`Circuit` fields that the models use). -/
structure Circuit (K : Type) where
  witnessCount : Nat
  ops : Array (Op K)
  pubRows : Array Nat
  privRows : Array Nat
  e2w : Array (Option Nat)
  rewrite : Rewrite

/-- `CircuitBuilder::build_with_public_mapping` (stages 1–3). -/
def compile {K : Type} [Neg K] [Zero K] [DecidableEq K] (b : BState K) : Except LowerErr (Circuit K) :=
  match lower b with
  | .error e => .error e
  | .ok l =>
    let (ops, rw) := optimize l.ops l.privRows.toList
    -- `validate_horner_chains` (fix 93b51a3): HornerAcc steps must be chained
    if !hornerChained ops.toList then .error .hornerNotChained else
    .ok { witnessCount := l.witnessCount, ops := ops,
          pubRows := l.pubRows.map (resolve rw), privRows := l.privRows.map (resolve rw),
          e2w := l.e2w.map (·.map (resolve rw)), rewrite := rw }

end P3R
