/-
C20 — the full-strength quotient-recomposition statement is false of the current code (F12).

Witness (same shape as the case replayed on the real code every run, `corpus/c20/f12_*.json`:
trace degree 2, quotient degree 2 ⇒ two chunk domains of size 2, ζ := first point of chunk 0),
over the field `ZMod 17` (two-adicity 4, multiplicative generator 3):
  quotient domain 3·⟨4⟩ split into D₀ = 3·⟨−1⟩ = {3, 14}, D₁ = 12·⟨−1⟩ = {12, 5}; ζ = 3 ∈ D₀.
Native: `L₀(ζ) = Z₁(ζ)/Z₁(g₀) = 1`, `L₁(ζ) = Z₀(ζ)/Z₀(g₁) = 0`, so `Q(ζ) = Q₀`.
Circuit: `div(Z₀(ζ)·Z₁(ζ), Z₀(ζ)) = div(0, 0)` — the run fails with `DivisionByZero`.
-/
import P3R.Model.Gadgets
import Mathlib.Data.ZMod.Basic
import Mathlib.Algebra.Field.ZMod

namespace P3R.Witness.C20
open P3R.Gadgets

instance : Fact (Nat.Prime 17) := ⟨by decide⟩

def doms : List (Dom (ZMod 17)) := [⟨3, 6, 1⟩, ⟨12, 10, 1⟩]
def chunks : List (List (ZMod 17)) := [[1], [0]]
def basis : List (ZMod 17) := [1]
def zeta : ZMod 17 := 3

/-- The inverses recorded in `doms` are the inverses. -/
example : (3 : ZMod 17) * 6 = 1 ∧ (12 : ZMod 17) * 10 = 1 := by decide

/-- ζ is a root of the vanishing polynomial of chunk domain 0 and not of chunk domain 1. -/
theorem zeta_on_chunk0 : vanishing doms[0] zeta = 0 ∧ vanishing doms[1] zeta ≠ 0 := by decide

theorem circuit_fails : recomposeC doms chunks basis zeta = none := by decide

theorem native_defined : recomposeN doms chunks basis zeta = some 1 := by decide +kernel

/-- **Negation of the full-strength C20 quotient statement** ("for every evaluation point"). -/
theorem quotient_recompose_full_false :
    ¬ ∀ (K : Type) [Field K] [DecidableEq K] (doms : List (Dom K)) (chunks : List (List K))
        (basis : List K) (zeta : K), chunks.length = doms.length →
        recomposeC doms chunks basis zeta = recomposeN doms chunks basis zeta := by
  intro h
  have := h (ZMod 17) doms chunks basis zeta rfl
  rw [circuit_fails, native_defined] at this
  cases this

/-- The hypothesis of `quotient_recompose_eq_partial` that the witness falsifies. -/
theorem witness_falsifies_hz : ¬ (2 ≤ doms.length → ∀ d ∈ doms, vanishing d zeta ≠ 0) := by decide

/-! ### non-vacuity of the hypotheses used in `P3R.Props.C20` -/

/-- `hz` of `quotient_recompose_eq_partial` is satisfiable on the same domains (ζ = 2), and there
both sides are defined and equal. -/
example : (2 ≤ doms.length → ∀ d ∈ doms, vanishing d (2 : ZMod 17) ≠ 0) := by decide

example : recomposeC doms chunks basis 2 = recomposeN doms chunks basis 2
    ∧ (recomposeC doms chunks basis 2).isSome = true := by decide +kernel

/-- `hidft` / `hinj` of `periodic_eq_interpolant`: coefficients `[1, 2]` on the sub-coset `{1, −1}`. -/
def pts2 : Fin 2 → ZMod 17 := fun j => if j = 0 then 1 else 16
def col2 : Fin 2 → ZMod 17 := fun j => if j = 0 then 3 else 16
example : (∀ j : Fin 2, polyEval [1, 2] (pts2 j) = col2 j) ∧ Function.Injective pts2 := by decide

/-- Selectors: a point where all four are defined (size-2 domain, shift 1, x = 3). -/
example : (selectorsC (1 : ZMod 17) 16 1 3).isSome = true
    ∧ selectorsC (1 : ZMod 17) 16 1 3 = selectorsN (1 : ZMod 17) 16 1 3 := by decide +kernel

end P3R.Witness.C20
