-- Root of the `P3R` library: models, lemmas, property theorems, witnesses.
import P3R.Model.Field
import P3R.Model.Builder
import P3R.Model.Lower
import P3R.Model.Optimize
import P3R.Model.Runner
import P3R.Model.Roles
import P3R.Model.Driver
