/-
C15 witnesses — the full statements are still false of the code with fixes C15-1/2/3 and the
repairs ca07f07, fc0321f, 069da9d, c030fca, 0e5036a applied (unrepaired: the two-adicity window of
F9a, F9f, F9g, F9h). The shapes of the repaired findings F9b, F9c, F9d, F9e, F9i, F9o and of the
repaired part of F9a are kept as regression facts: the model now says `.err` for them; `*_record`
theorems keep the pre-fix steps they used to fail as a record only.

Every theorem here evaluates the model (`P3R.Shape.verifyUni`) on a concrete shape vector that
differs from an honest one by ONE structural alteration; each is the shape of a corpus witness
(`corpus/c15/*.json`) that the harness replays on the real builders on every run and whose real
outcome (panic / accepted with a different circuit) must equal the model's.

Honest shapes: `P3R.C15.honestFib cap` under `envFib` (Fibonacci AIR, 8 rows, testing FRI
parameters: blow-up 4, 2 queries, 3 arity-2 phases, final polynomial of length 1) and
`honestMul` under `envMul` (AIR with 4 preprocessed columns).
-/
import P3R.Props.C15

namespace P3R.Witness.C15
open P3R.Shape P3R.C15

def fib := honestFib 1
def e0 := envFib 0

/-- F9a, what is left after ca07f07: `degree_bits` is bounded by the field's *bit width* (31) before
the shift, but the PCS domain constructors need the *two-adicity* (27): 28..=31 still panic
(corpus f9a_degree_bits_28, f9a_degree_bits_31). The window is exact: 27 and 32 are errors
(`C15.uni_prefix_panic_iff` for every shape). -/
theorem degree_bits_panics :
    verifyUni e0 { fib with degreeBits := 28 } = .panic ∧
    verifyUni e0 { fib with degreeBits := 31 } = .panic ∧
    verifyUni e0 { fib with degreeBits := 27 } = .err ∧
    verifyUni e0 { fib with degreeBits := 32 } = .err := by decide

/-- F9a-1 repaired (ca07f07): `degree_bits` ≥ 64 (the old shift overflow), 63, `usize::MAX` and
everything above the bit width are rejected with an error (corpus f9a_degree_bits_64, now a
regression case; `C15.uni_degree_out_of_range_err` for every shape). -/
theorem degree_bits_out_of_range_rejected :
    verifyUni e0 { fib with degreeBits := 64 } = .err ∧
    verifyUni e0 { fib with degreeBits := 63 } = .err ∧
    verifyUni e0 { fib with degreeBits := 2 ^ 64 - 1 } = .err ∧
    verifyUni envMul { honestMul with degreeBits := 31 } = .err := by decide

/-- Record only: the step `1 << degree_bits` as it was before ca07f07 (first step of the builder). -/
def preFixShiftStep (e : Env) (s : UniShape) : List Check := [ partialStep (s.degreeBits < e.wordBits) ]

theorem degree_bits_64_record : run (preFixShiftStep e0 { fib with degreeBits := 64 }) = .panic := by
  decide

/-- Record only: the two steps of `friVerifyChecks` as they were before fix C15-1 (unchecked
slice `challenges[1..1+commits]`, unchecked `+`), and the step of `openInputChecks` before fix
C15-3 (unchecked `log_global_max_height - height`). Not part of the model any more. -/
def preFixSliceSteps (e : Env) (f : FriShape) : List Check :=
  [ partialStep (f.commitCaps.length ≤ f.powWitnesses),
    partialStep (logMaxHeight e f < 2 ^ e.wordBits) ]

def preFixHeightSteps (e : Env) (f : FriShape) (rounds : List Round) : List Check :=
  rounds.flatMap fun r => r.mats.map fun m => partialStep (m.1 + e.logBlowup ≤ logMaxHeight e f)

/-- F9b repaired (fix C15-1): one PoW witness fewer is rejected with an error (corpus f9b, now a
regression case). Record: the pre-fix slice step failed on this shape. -/
theorem pow_witnesses_short_rejected :
    verifyUni e0 { fib with fri := { fib.fri with powWitnesses := 2 } } = .err := by decide

theorem pow_witnesses_short_record :
    run (preFixSliceSteps e0 { fib.fri with powWitnesses := 2 }) = .panic := by decide

/-- F9c repaired (fix C15-1): one commit-phase commitment more is rejected (corpus f9c). -/
theorem commit_extra_rejected :
    verifyUni e0 { fib with fri := { fib.fri with commitCaps := [1, 1, 1, 1] } } = .err := by decide

theorem commit_extra_record :
    run (preFixSliceSteps e0 { fib.fri with commitCaps := [1, 1, 1, 1] }) = .panic := by decide

/-- F9i overflow part repaired (fix C15-1): `log_final_poly_len = usize::MAX` is rejected (corpus
f9i_log_final_poly_len_max). -/
theorem log_final_poly_len_max_rejected :
    verifyUni { e0 with logFinalPolyLen := 2 ^ 64 - 1 } fib = .err := by decide

/-- F9o repaired (fix C15-3): a self-consistent folding schedule that is too short for the
committed matrices is rejected. `shortSchedule0` is the corpus shape f9o (first `log_arity` set to
0 in the only remaining query; the tree now also rejects it earlier, by `1 ≤ log_arity`);
`shortSchedule` drops one whole phase consistently, so that only the height comparison of fix
C15-3 stands between it and the subtraction. -/
def shortSchedule0 : UniShape :=
  { fib with fri := { fib.fri with queries := [{ honestQuery with steps := [0, 1, 1] }] } }

def shortSchedule : UniShape :=
  { fib with fri :=
      { commitCaps := [1, 1], powWitnesses := 2, finalPolyLen := 1,
        queries := [{ inputProof := [[2], [4]], steps := [1, 1], siblings := [1, 1] },
                    { inputProof := [[2], [4]], steps := [1, 1], siblings := [1, 1] }] } }

theorem schedule_too_short_rejected :
    verifyUni e0 shortSchedule0 = .err ∧ verifyUni e0 shortSchedule = .err := by decide

/-- F9a, "one above the real degree" part, repaired by fix C15-3: the domain is then taller than
the folding schedule reaches, which is the same height comparison (corpus f9a_degree_bits_plus1,
now a regression case). The shift / two-adicity parts of F9a (`degree_bits_panics`) remain. -/
theorem degree_bits_plus1_rejected : verifyUni e0 { fib with degreeBits := 4 } = .err := by decide

theorem degree_bits_plus1_record :
    run (preFixHeightSteps e0 fib.fri (uniRounds e0 { fib with degreeBits := 4 })) = .panic := by
  decide

theorem schedule_too_short_record :
    run (preFixHeightSteps e0 shortSchedule.fri (uniRounds e0 shortSchedule)) = .panic := by decide

/-- F9d repaired (fc0321f): a `log_arity` of 255 (old shift overflow) or 28 (old 2^30-target
allocation) is rejected with an error — the targets are sized by the proof's sibling count and the
count is compared with checked arithmetic (corpus f9d_*, now regression cases;
`C15.fri_sibling_mismatch_err` / `fri_log_arity_out_of_range_err` for every shape). The third
shape keeps the honest schedule and drops one sibling value: an error too (before the repair the
sibling count was invisible to the builder). -/
theorem log_arity_out_of_range_rejected :
    verifyUni e0 { fib with fri := { fib.fri with
      queries := [{ honestQuery with steps := [1, 1, 255] }, honestQuery] } } = .err ∧
    verifyUni e0 { fib with fri := { fib.fri with
      queries := [honestQuery, { honestQuery with steps := [28, 1, 1] }] } } = .err ∧
    verifyUni e0 { fib with fri := { fib.fri with
      queries := [honestQuery, { honestQuery with siblings := [1, 1, 0] }] } } = .err := by decide

/-- Record only: `CommitPhaseProofStepTargets::new` as it was before fc0321f (`1 << log_arity`,
`(arity-1) * DIMENSION`, allocation of that many targets), run while the targets were allocated. -/
def preFixAllocStep (e : Env) (la : Nat) : List Check :=
  [ partialStep (la < e.wordBits),
    partialStep ((2 ^ la - 1) * e.dim < 2 ^ e.wordBits),
    partialStep ((2 ^ la - 1) * e.dim ≤ e.maxAlloc) ]

theorem log_arity_record :
    run (preFixAllocStep e0 255) = .panic ∧ run (preFixAllocStep e0 28) = .panic ∧
    run (preFixAllocStep e0 1) = .ok := by decide

/-- F9e repaired (069da9d): an empty Merkle cap, and a cap of 3 roots, are rejected with an error
(corpus f9e_*, now regression cases; `C15.open_input_bad_cap_err` for every shape). -/
theorem cap_empty_rejected : verifyUni e0 { fib with traceCap := 0 } = .err := by decide

theorem cap_not_pow2_rejected :
    verifyUni (envFib 1) { honestFib 2 with traceCap := 3 } = .err := by decide

/-- Record only: the cap steps as they were before 069da9d (`assert!(!cap.is_empty())`,
`log2_strict_usize`). -/
def preFixCapSteps (cap : Nat) : List Check := [ partialStep (cap != 0), partialStep (isPow2 cap) ]

theorem cap_record : run (preFixCapSteps 0) = .panic ∧ run (preFixCapSteps 3) = .panic := by decide

/-- F9h: the uni verifier evaluates the AIR with the proof's preprocessed width before validating
it (corpus f9h). -/
theorem prep_short_panics :
    verifyUni envMul { honestMul with prepLocal := some 3 } = .panic := by decide

/-- F9i repaired (c030fca): `log_blowup = 28` gives `log_max_height = 31`, within the bit width
but above the two-adicity: an error now (corpus f9i_log_blowup_28, regression case;
`C15.fri_height_above_two_adicity_err` for every shape). Record: the former last step of
`friVerifyChecks`, `two_adic_generator(log_max_height)`. -/
theorem log_blowup_28_rejected : verifyUni { e0 with logBlowup := 28 } fib = .err := by decide

def preFixGeneratorStep (e : Env) (f : FriShape) : List Check :=
  [ partialStep (logMaxHeight e f ≤ e.twoAdicity) ]

theorem log_blowup_28_record :
    run (preFixGeneratorStep { e0 with logBlowup := 28 } fib.fri) = .panic := by decide

/-- C07-F4 repaired (0e5036a): a proof without fold phase — every committed matrix already has the
final polynomial's height — is accepted (native accepts it; before, `verify_fri_circuit` returned
"FRI must have at least one fold phase"). One-row trace, blow-up 4, constant final polynomial. -/
def zeroPhase : UniShape :=
  { fib with degreeBits := 0, fri :=
      { commitCaps := [], powWitnesses := 0, finalPolyLen := 1,
        queries := [{ inputProof := [[2], [4]], steps := [], siblings := [] },
                    { inputProof := [[2], [4]], steps := [], siblings := [] }] } }

theorem zero_phase_accepted : verifyUni e0 zeroPhase = .ok ∧ PanicGuards e0 zeroPhase = true := by
  decide

/-- F9p (fixed by bd209ac; regression record): a commitment round whose LDE height is below the cap
height — `open_input` passes only the upper `batchHeight` index bits and `verify_batch_circuit`
now returns `InvalidDimension` instead of subtracting the cap height from their number (corpus
f9p: `degree_bits = 0`, `log_blowup = 0`, caps of 2 roots). -/
theorem domain_below_cap_panics :
    verifyUni { envFib 1 with logBlowup := 0 } { honestFib 2 with degreeBits := 0 } = .err := by
  decide

/-- F9g: a proof with one of the two FRI queries dropped is accepted — the builder has no
`num_queries` parameter, so it emits a circuit with fewer queries (corpus f9g). -/
theorem query_dropped_accepted :
    verifyUni e0 { fib with fri := { fib.fri with queries := [honestQuery] } } = .ok ∧
    ({ fib with fri := { fib.fri with queries := [honestQuery] } } : UniShape) ≠ fib := by decide

/-- F9f: a cap with twice the configured number of roots is accepted — the circuit MMCS takes the
cap height from the proof (corpus f9f). -/
theorem cap_resized_accepted :
    verifyUni e0 { fib with traceCap := 2 } = .ok ∧ ({ fib with traceCap := 2 } : UniShape) ≠ fib := by
  decide

/-- Negation of the full statement "the builder never panics". -/
theorem no_panic_full_false : ¬ (∀ (e : Env) (s : UniShape), verifyUni e s ≠ .panic) := by
  intro h
  exact h e0 { fib with degreeBits := 28 } degree_bits_panics.1

/-- Negation of the full statement "every shape other than the well-formed one is rejected with
an error" (for this AIR, degree and FRI configuration the well-formed shape is `fib`: the native
verifier fixes 2 queries, cap height 0 and arity-2 folding). -/
theorem malformed_rejected_full_false :
    ¬ (∀ s : UniShape, s ≠ fib → verifyUni e0 s = .err) := by
  intro h
  have := h _ query_dropped_accepted.2
  rw [query_dropped_accepted.1] at this
  exact absurd this (by decide)

/-- Every remaining panic witness falsifies the hypothesis of `uni_no_panic_partial`; the accepted
ones do not (they are outside what validation covers, not panics), and neither do the shapes of
the repaired findings (they are plain errors now: caps, `log_arity`, `log_blowup`). -/
theorem witnesses_falsify_guards :
    PanicGuards e0 { fib with degreeBits := 28 } = false ∧
    PanicGuards e0 { fib with fri := { fib.fri with powWitnesses := 2 } } = true ∧
    PanicGuards e0 { fib with fri := { fib.fri with commitCaps := [1, 1, 1, 1] } } = true ∧
    PanicGuards e0 shortSchedule = true ∧
    PanicGuards e0 { fib with traceCap := 0 } = true ∧
    PanicGuards (envFib 1) { honestFib 2 with traceCap := 3 } = true ∧
    PanicGuards e0 { fib with fri := { fib.fri with
      queries := [{ honestQuery with steps := [1, 1, 255] }, honestQuery] } } = true ∧
    PanicGuards envMul { honestMul with prepLocal := some 3 } = false ∧
    PanicGuards { e0 with logBlowup := 28 } fib = true ∧
    PanicGuards e0 { fib with fri := { fib.fri with queries := [honestQuery] } } = true ∧
    PanicGuards e0 { fib with traceCap := 2 } = true := by decide

end P3R.Witness.C15

#print axioms P3R.Witness.C15.degree_bits_panics
#print axioms P3R.Witness.C15.pow_witnesses_short_rejected
#print axioms P3R.Witness.C15.pow_witnesses_short_record
#print axioms P3R.Witness.C15.commit_extra_rejected
#print axioms P3R.Witness.C15.commit_extra_record
#print axioms P3R.Witness.C15.log_final_poly_len_max_rejected
#print axioms P3R.Witness.C15.schedule_too_short_rejected
#print axioms P3R.Witness.C15.degree_bits_plus1_rejected
#print axioms P3R.Witness.C15.degree_bits_plus1_record
#print axioms P3R.Witness.C15.schedule_too_short_record
#print axioms P3R.Witness.C15.degree_bits_out_of_range_rejected
#print axioms P3R.Witness.C15.degree_bits_64_record
#print axioms P3R.Witness.C15.log_arity_out_of_range_rejected
#print axioms P3R.Witness.C15.log_arity_record
#print axioms P3R.Witness.C15.cap_empty_rejected
#print axioms P3R.Witness.C15.cap_not_pow2_rejected
#print axioms P3R.Witness.C15.cap_record
#print axioms P3R.Witness.C15.log_blowup_28_rejected
#print axioms P3R.Witness.C15.log_blowup_28_record
#print axioms P3R.Witness.C15.zero_phase_accepted
#print axioms P3R.Witness.C15.prep_short_panics
#print axioms P3R.Witness.C15.query_dropped_accepted
#print axioms P3R.Witness.C15.cap_resized_accepted
#print axioms P3R.Witness.C15.no_panic_full_false
#print axioms P3R.Witness.C15.malformed_rejected_full_false
#print axioms P3R.Witness.C15.witnesses_falsify_guards
#print axioms P3R.Witness.C15.domain_below_cap_panics
