//! C13: translated AIR constraints evaluate like the native constraint folder.
//!
//! Every case goes through the real `RecursiveAir::eval_folded_circuit` (and, on a second
//! builder, through direct `SymbolicCompiler::compile_base/compile_ext` calls in the same loop
//! shape, to observe the id every constraint compiles to). The circuit is built and run; the
//! value of the folded target is compared with native evaluation:
//!   * kind `dag`: hand-built `Arc`-shared `SymbolicExpression` / `SymbolicExpressionExt` DAGs
//!     (every leaf kind, shared children, base sub-trees under extension leaves, deep chains)
//!     wrapped in an AIR that asserts them in a chosen emission order; native value = an
//!     independent memoised evaluator folded by p3's `VerifierConstraintFolder`
//!     (`assert_zero` / `assert_zero_ext` in emission order), cross-checked against p3's own
//!     `SymbolicExpression::resolve` when the unshared tree is small;
//!   * kind `air`: script AIRs written against the generic `AirBuilder` API (with bus
//!     interactions, so LogUp constraints are appended) evaluated symbolically by p3 and natively
//!     by `VerifierConstraintFolderWithLookups` + `LogUpGadget::eval_air_and_lookups`.
//! The case (pre-program, targets, dumped DAG by pointer identity, emission order, inputs) is
//! written for the Lean driver `p3r_driver_c13`, which must print the same lines.

use std::collections::{BTreeMap, HashMap};
use std::io::Write;
use std::panic::{AssertUnwindSafe, catch_unwind};
use std::sync::Arc;

use p3_air::symbolic::AirLayout;
use p3_air::{
    Air, AirBuilder, BaseAir, BaseEntry, BaseLeaf, ExtEntry, ExtLeaf, ExtensionBuilder, PermutationAirBuilder,
    RowWindow, SymbolicExpressionExt, SymbolicVariable, SymbolicVariableExt, WindowAccess,
};
use p3_baby_bear::BabyBear;
use p3_batch_stark::symbolic::{get_constraint_layout, get_symbolic_constraints};
use p3_circuit::symbolic::{ColumnsTargets, RowSelectorsTargets, SymbolicCompiler};
use p3_circuit::{CircuitBuilder, ExprId};
use p3_field::extension::BinomialExtensionField;
use p3_field::{BasedVectorSpace, PrimeCharacteristicRing, PrimeField64};
use p3_lookup::folder::VerifierConstraintFolderWithLookups;
use p3_lookup::{Count, InteractionBuilder, InteractionSymbolicBuilder, LogUpGadget, Lookup, LookupProtocol, Lookups};
use p3_matrix::dense::RowMajorMatrixView;
use p3_matrix::stack::VerticalPair;
use p3_recursion::traits::{LookupMetadata, RecursiveAir};
use p3_recursion::types::RecursiveLagrangeSelectors;
use p3_test_utils::baby_bear_params::MyConfig;
use p3_uni_stark::{SymbolicExpression, VerifierConstraintFolder};
use serde_json::{Value, json};

use crate::rng::Rng;

type F = BabyBear;
type EF = BinomialExtensionField<F, 4>;
type SE = SymbolicExpression<F>;
type SX = SymbolicExpressionExt<F, EF>;
const P: u64 = 2013265921;

const CAT_NAMES: [&str; 10] = [
    "challenges", "pubs", "permLocal", "permNext", "permVals", "prepLocal", "prepNext", "periodic", "locals", "nexts",
];
const CH: usize = 0;
const PUBS: usize = 1;
const PL: usize = 2;
const PN: usize = 3;
const PV: usize = 4;
const PREL: usize = 5;
const PREN: usize = 6;
const PER: usize = 7;
const LOC: usize = 8;
const NXT: usize = 9;

fn ef(c: [u64; 4]) -> EF {
    EF::from_basis_coefficients_fn(|i| F::from_u64(c[i]))
}
fn ef_str(x: EF) -> String {
    let c: &[F] = x.as_basis_coefficients_slice();
    c.iter().map(|v| v.as_canonical_u64().to_string()).collect::<Vec<_>>().join(" ")
}

// ------------------------------------------------------------------ pre-program (targets)

#[derive(Clone, Debug)]
enum Pre {
    Pub,
    Const([u64; 4]),
    Add(u32, u32),
    Sub(u32, u32),
    Mul(u32, u32),
}

impl Pre {
    fn line(&self) -> String {
        match self {
            Pre::Pub => "pub".into(),
            Pre::Const(c) => format!("const {} {} {} {}", c[0], c[1], c[2], c[3]),
            Pre::Add(a, b) => format!("add {a} {b}"),
            Pre::Sub(a, b) => format!("sub {a} {b}"),
            Pre::Mul(a, b) => format!("mul {a} {b}"),
        }
    }
    fn apply(&self, b: &mut CircuitBuilder<EF>) -> ExprId {
        match self {
            Pre::Pub => b.public_input(),
            Pre::Const(c) => b.define_const(ef(*c)),
            Pre::Add(x, y) => b.add(ExprId(*x), ExprId(*y)),
            Pre::Sub(x, y) => b.sub(ExprId(*x), ExprId(*y)),
            Pre::Mul(x, y) => b.mul(ExprId(*x), ExprId(*y)),
        }
    }
}

/// Targets of one case: expression ids in the builder after the pre-program.
#[derive(Clone, Debug, Default)]
struct Targets {
    sel: [u32; 3],
    alpha: u32,
    cats: [Vec<u32>; 10],
}

/// The generated pre-program together with a scratch builder used to learn the ids.
struct PreGen {
    pre: Vec<Pre>,
    ids: Vec<u32>,
    /// which public-input positions must hold base-field values (they feed `public_values`)
    base_only: Vec<bool>,
    scratch: CircuitBuilder<EF>,
    npub: usize,
}

impl PreGen {
    fn new() -> Self {
        Self { pre: vec![], ids: vec![], base_only: vec![], scratch: CircuitBuilder::new(), npub: 0 }
    }
    fn push(&mut self, p: Pre) -> u32 {
        let id = p.apply(&mut self.scratch).0;
        if matches!(p, Pre::Pub) {
            self.npub += 1;
            self.base_only.push(false);
        }
        self.pre.push(p);
        self.ids.push(id);
        id
    }
    fn fresh_pub(&mut self, base_only: bool) -> u32 {
        let id = self.push(Pre::Pub);
        *self.base_only.last_mut().unwrap() = base_only;
        id
    }
    /// A target: mostly a fresh public input; sometimes an alias, a constant or a computed value.
    fn target(&mut self, rng: &mut Rng, plain: bool) -> u32 {
        if plain || self.ids.is_empty() || rng.chance(85, 100) {
            return self.fresh_pub(false);
        }
        match rng.below(4) {
            0 => *rng.pick(&self.ids),
            1 => {
                let c = match rng.below(4) {
                    0 => [0, 0, 0, 0],
                    1 => [1, 0, 0, 0],
                    2 => [rng.below(P), 0, 0, 0],
                    _ => [rng.below(P), rng.below(P), rng.below(P), rng.below(P)],
                };
                self.push(Pre::Const(c))
            }
            _ => {
                let a = *rng.pick(&self.ids);
                let b = *rng.pick(&self.ids);
                match rng.below(3) {
                    0 => self.push(Pre::Add(a, b)),
                    1 => self.push(Pre::Sub(a, b)),
                    _ => self.push(Pre::Mul(a, b)),
                }
            }
        }
    }
}

fn gen_targets(rng: &mut Rng, widths: [usize; 10], plain: bool) -> (PreGen, Targets) {
    let mut g = PreGen::new();
    let mut t = Targets::default();
    for k in 0..3 {
        t.sel[k] = g.target(rng, plain);
    }
    t.alpha = g.target(rng, plain);
    for (c, w) in widths.iter().enumerate() {
        for _ in 0..*w {
            let id = if c == PUBS {
                // public values are base-field elements on the native side
                if !t.cats[PUBS].is_empty() && !plain && rng.chance(1, 10) {
                    *rng.pick(&t.cats[PUBS])
                } else {
                    g.fresh_pub(true)
                }
            } else {
                g.target(rng, plain)
            };
            t.cats[c].push(id);
        }
    }
    (g, t)
}

/// Value of every pre-program id under an input vector (independent of the builder).
fn pre_values(pre: &[Pre], ids: &[u32], inputs: &[EF]) -> HashMap<u32, EF> {
    let mut m: HashMap<u32, EF> = HashMap::new();
    m.insert(0, EF::ZERO);
    let mut np = 0;
    for (p, id) in pre.iter().zip(ids) {
        let v = match p {
            Pre::Pub => {
                np += 1;
                inputs[np - 1]
            }
            Pre::Const(c) => ef(*c),
            Pre::Add(a, b) => m[a] + m[b],
            Pre::Sub(a, b) => m[a] - m[b],
            Pre::Mul(a, b) => m[a] * m[b],
        };
        m.insert(*id, v);
    }
    m
}

// ------------------------------------------------------------------ DAG dump by pointer identity

#[derive(Default)]
struct Dump {
    bmap: HashMap<*const SE, usize>,
    xmap: HashMap<*const SX, usize>,
    blines: Vec<String>,
    xlines: Vec<String>,
    bkinds: BTreeMap<String, u64>,
    bhits: u64,
    xhits: u64,
    max_depth: usize,
}

fn base_entry_str(e: &BaseEntry) -> String {
    match e {
        BaseEntry::Preprocessed { offset } => format!("p{offset}"),
        BaseEntry::Main { offset } => format!("m{offset}"),
        BaseEntry::Periodic => "per".into(),
        BaseEntry::Public => "pub".into(),
    }
}
fn ext_entry_str(e: &ExtEntry) -> String {
    match e {
        ExtEntry::Permutation { offset } => format!("q{offset}"),
        ExtEntry::Challenge => "ch".into(),
        ExtEntry::PermutationValue => "pv".into(),
    }
}

impl Dump {
    fn kind(&mut self, k: &str) {
        *self.bkinds.entry(k.to_string()).or_default() += 1;
    }
    fn base(&mut self, e: &SE, depth: usize) -> usize {
        let key = e as *const SE;
        if let Some(&i) = self.bmap.get(&key) {
            self.bhits += 1;
            return i;
        }
        self.max_depth = self.max_depth.max(depth);
        let line = match e {
            SE::Leaf(BaseLeaf::Constant(c)) => {
                self.kind("b.const");
                format!("bc {}", ef_str(EF::from(*c)))
            }
            SE::Leaf(BaseLeaf::Variable(v)) => {
                self.kind(&format!("b.var.{}", base_entry_str(&v.entry)));
                format!("bn v {} {}", base_entry_str(&v.entry), v.index)
            }
            SE::Leaf(BaseLeaf::IsFirstRow) => {
                self.kind("b.first");
                "bn f".into()
            }
            SE::Leaf(BaseLeaf::IsLastRow) => {
                self.kind("b.last");
                "bn l".into()
            }
            SE::Leaf(BaseLeaf::IsTransition) => {
                self.kind("b.trans");
                "bn t".into()
            }
            SE::Neg { x, .. } => {
                self.kind("b.neg");
                let a = self.base(x, depth + 1);
                format!("bneg {a}")
            }
            SE::Add { x, y, .. } => {
                self.kind("b.add");
                let a = self.base(x, depth + 1);
                let b = self.base(y, depth + 1);
                format!("badd {a} {b}")
            }
            SE::Sub { x, y, .. } => {
                self.kind("b.sub");
                let a = self.base(x, depth + 1);
                let b = self.base(y, depth + 1);
                format!("bsub {a} {b}")
            }
            SE::Mul { x, y, .. } => {
                self.kind("b.mul");
                let a = self.base(x, depth + 1);
                let b = self.base(y, depth + 1);
                format!("bmul {a} {b}")
            }
        };
        let i = self.blines.len();
        self.blines.push(line);
        self.bmap.insert(key, i);
        i
    }
    fn ext(&mut self, e: &SX, depth: usize) -> usize {
        let key = e as *const SX;
        if let Some(&i) = self.xmap.get(&key) {
            self.xhits += 1;
            return i;
        }
        self.max_depth = self.max_depth.max(depth);
        let line = match e {
            SX::Leaf(ExtLeaf::Base(b)) => {
                self.kind("x.base");
                let r = self.base(b, depth + 1);
                format!("xb {r}")
            }
            SX::Leaf(ExtLeaf::ExtVariable(v)) => {
                self.kind(&format!("x.var.{}", ext_entry_str(&v.entry)));
                format!("xn v {} {}", ext_entry_str(&v.entry), v.index)
            }
            SX::Leaf(ExtLeaf::ExtConstant(c)) => {
                self.kind("x.const");
                format!("xc {}", ef_str(*c))
            }
            SX::Neg { x, .. } => {
                self.kind("x.neg");
                let a = self.ext(x, depth + 1);
                format!("xneg {a}")
            }
            SX::Add { x, y, .. } => {
                self.kind("x.add");
                let a = self.ext(x, depth + 1);
                let b = self.ext(y, depth + 1);
                format!("xadd {a} {b}")
            }
            SX::Sub { x, y, .. } => {
                self.kind("x.sub");
                let a = self.ext(x, depth + 1);
                let b = self.ext(y, depth + 1);
                format!("xsub {a} {b}")
            }
            SX::Mul { x, y, .. } => {
                self.kind("x.mul");
                let a = self.ext(x, depth + 1);
                let b = self.ext(y, depth + 1);
                format!("xmul {a} {b}")
            }
        };
        let i = self.xlines.len();
        self.xlines.push(line);
        self.xmap.insert(key, i);
        i
    }
}

// ------------------------------------------------------------------ native evaluation (oracle)

struct Env {
    sel: [EF; 3],
    alpha: EF,
    cats: [Vec<EF>; 10],
}

fn env_of(t: &Targets, vals: &HashMap<u32, EF>) -> Env {
    Env {
        sel: [vals[&t.sel[0]], vals[&t.sel[1]], vals[&t.sel[2]]],
        alpha: vals[&t.alpha],
        cats: core::array::from_fn(|c| t.cats[c].iter().map(|id| vals[id]).collect()),
    }
}

/// Memoised recursive evaluation; `None` where the native folder would panic.
struct NativeEval<'a> {
    env: &'a Env,
    bmemo: HashMap<*const SE, Option<EF>>,
    xmemo: HashMap<*const SX, Option<EF>>,
    /// unshared tree size, saturating (decides whether p3's own `resolve` is affordable)
    bsize: HashMap<*const SE, u64>,
}

impl<'a> NativeEval<'a> {
    fn new(env: &'a Env) -> Self {
        Self { env, bmemo: HashMap::new(), xmemo: HashMap::new(), bsize: HashMap::new() }
    }
    fn base_var(&self, e: &BaseEntry, i: usize) -> Option<EF> {
        let c = match e {
            BaseEntry::Preprocessed { offset: 0 } => PREL,
            BaseEntry::Preprocessed { offset: 1 } => PREN,
            BaseEntry::Main { offset: 0 } => LOC,
            BaseEntry::Main { offset: 1 } => NXT,
            BaseEntry::Public => PUBS,
            BaseEntry::Periodic => PER,
            _ => return None,
        };
        self.env.cats[c].get(i).copied()
    }
    fn ext_var(&self, e: &ExtEntry, i: usize) -> Option<EF> {
        let c = match e {
            ExtEntry::Permutation { offset: 0 } => PL,
            ExtEntry::Permutation { offset: 1 } => PN,
            ExtEntry::Challenge => CH,
            ExtEntry::PermutationValue => PV,
            _ => return None,
        };
        self.env.cats[c].get(i).copied()
    }
    fn tree_size(&mut self, e: &SE) -> u64 {
        let key = e as *const SE;
        if let Some(&s) = self.bsize.get(&key) {
            return s;
        }
        let s = match e {
            SE::Leaf(_) => 1,
            SE::Neg { x, .. } => 1u64.saturating_add(self.tree_size(x)),
            SE::Add { x, y, .. } | SE::Sub { x, y, .. } | SE::Mul { x, y, .. } => {
                1u64.saturating_add(self.tree_size(x)).saturating_add(self.tree_size(y))
            }
        };
        self.bsize.insert(key, s);
        s
    }
    fn base(&mut self, e: &SE) -> Option<EF> {
        let key = e as *const SE;
        if let Some(v) = self.bmemo.get(&key) {
            return *v;
        }
        let v = match e {
            SE::Leaf(BaseLeaf::Constant(c)) => Some(EF::from(*c)),
            SE::Leaf(BaseLeaf::Variable(v)) => self.base_var(&v.entry, v.index),
            SE::Leaf(BaseLeaf::IsFirstRow) => Some(self.env.sel[0]),
            SE::Leaf(BaseLeaf::IsLastRow) => Some(self.env.sel[1]),
            SE::Leaf(BaseLeaf::IsTransition) => Some(self.env.sel[2]),
            SE::Neg { x, .. } => self.base(x).map(|a| -a),
            SE::Add { x, y, .. } => {
                let (a, b) = (self.base(x), self.base(y));
                a.zip(b).map(|(a, b)| a + b)
            }
            SE::Sub { x, y, .. } => {
                let (a, b) = (self.base(x), self.base(y));
                a.zip(b).map(|(a, b)| a - b)
            }
            SE::Mul { x, y, .. } => {
                let (a, b) = (self.base(x), self.base(y));
                a.zip(b).map(|(a, b)| a * b)
            }
        };
        self.bmemo.insert(key, v);
        v
    }
    fn ext(&mut self, e: &SX) -> Option<EF> {
        let key = e as *const SX;
        if let Some(v) = self.xmemo.get(&key) {
            return *v;
        }
        let v = match e {
            SX::Leaf(ExtLeaf::Base(b)) => self.base(b),
            SX::Leaf(ExtLeaf::ExtVariable(v)) => self.ext_var(&v.entry, v.index),
            SX::Leaf(ExtLeaf::ExtConstant(c)) => Some(*c),
            SX::Neg { x, .. } => self.ext(x).map(|a| -a),
            SX::Add { x, y, .. } => {
                let (a, b) = (self.ext(x), self.ext(y));
                a.zip(b).map(|(a, b)| a + b)
            }
            SX::Sub { x, y, .. } => {
                let (a, b) = (self.ext(x), self.ext(y));
                a.zip(b).map(|(a, b)| a - b)
            }
            SX::Mul { x, y, .. } => {
                let (a, b) = (self.ext(x), self.ext(y));
                a.zip(b).map(|(a, b)| a * b)
            }
        };
        self.xmemo.insert(key, v);
        v
    }
}

/// p3's verifier folder over the opened values of `env` (public values must be base elements).
fn with_folder<R>(env: &Env, f: impl FnOnce(VerifierConstraintFolderWithLookups<'_, MyConfig>) -> R) -> Option<R> {
    let pubs: Option<Vec<F>> = env.cats[PUBS]
        .iter()
        .map(|x| {
            let c: &[F] = x.as_basis_coefficients_slice();
            if c[1..].iter().all(|v| *v == F::ZERO) { Some(c[0]) } else { None }
        })
        .collect();
    let pubs = pubs?;
    let main = VerticalPair::new(RowMajorMatrixView::new_row(&env.cats[LOC]), RowMajorMatrixView::new_row(&env.cats[NXT]));
    let preprocessed =
        VerticalPair::new(RowMajorMatrixView::new_row(&env.cats[PREL]), RowMajorMatrixView::new_row(&env.cats[PREN]));
    let preprocessed_window = RowWindow::from_two_rows(preprocessed.top.values, preprocessed.bottom.values);
    let inner = VerifierConstraintFolder {
        main,
        preprocessed,
        preprocessed_window,
        periodic_values: &env.cats[PER],
        public_values: &pubs,
        is_first_row: env.sel[0],
        is_last_row: env.sel[1],
        is_transition: env.sel[2],
        alpha: env.alpha,
        accumulator: EF::ZERO,
    };
    let folder = VerifierConstraintFolderWithLookups {
        inner,
        permutation: VerticalPair::new(RowMajorMatrixView::new_row(&env.cats[PL]), RowMajorMatrixView::new_row(&env.cats[PN])),
        permutation_challenges: &env.cats[CH],
        permutation_values: &env.cats[PV],
    };
    Some(f(folder))
}

// ------------------------------------------------------------------ AIRs

/// Asserts pre-built symbolic expressions in a fixed emission order (symbolic builder only).
struct FixedAir {
    width: usize,
    n_pub: usize,
    n_periodic: usize,
    base: Vec<SE>,
    ext: Vec<SX>,
    em: Vec<(bool, usize)>,
}

impl BaseAir<F> for FixedAir {
    fn width(&self) -> usize {
        self.width
    }
    fn num_public_values(&self) -> usize {
        self.n_pub
    }
    fn num_periodic_columns(&self) -> usize {
        self.n_periodic
    }
}

impl Air<InteractionSymbolicBuilder<F, EF>> for FixedAir {
    fn eval(&self, b: &mut InteractionSymbolicBuilder<F, EF>) {
        for (is_ext, k) in &self.em {
            if *is_ext {
                b.assert_zero_ext(self.ext[*k].clone());
            } else {
                b.assert_zero(self.base[*k].clone());
            }
        }
    }
}

#[derive(Clone, Debug)]
enum Stmt {
    // base registers
    Main(usize, usize),
    Prep(usize, usize),
    Pub(usize),
    Periodic(usize),
    First,
    Last,
    Trans,
    Const(u64),
    Add(usize, usize),
    Sub(usize, usize),
    Mul(usize, usize),
    Neg(usize),
    // extension registers
    XFromBase(usize),
    XConst([u64; 4]),
    XPerm(usize, usize),
    XChal(usize),
    XPermVal(usize),
    XAdd(usize, usize),
    XSub(usize, usize),
    XMul(usize, usize),
    XNeg(usize),
    XMulBase(usize, usize),
    // constraints / interactions
    Assert(usize),
    AssertFirst(usize),
    AssertTransition(usize),
    AssertLast(usize),
    AssertExt(usize),
    Interaction(Vec<usize>, usize),
}

/// An AIR written against the generic builder API, interpreted from a script.
struct ScriptAir {
    width: usize,
    prep_width: usize,
    n_pub: usize,
    n_periodic: usize,
    stmts: Vec<Stmt>,
}

impl BaseAir<F> for ScriptAir {
    fn width(&self) -> usize {
        self.width
    }
    fn preprocessed_width(&self) -> usize {
        self.prep_width
    }
    fn num_public_values(&self) -> usize {
        self.n_pub
    }
    fn num_periodic_columns(&self) -> usize {
        self.n_periodic
    }
}

impl<AB> Air<AB> for ScriptAir
where
    AB: AirBuilder<F = F> + PermutationAirBuilder<EF = EF> + InteractionBuilder,
{
    fn eval(&self, b: &mut AB) {
        let mut br: Vec<AB::Expr> = vec![];
        let mut xr: Vec<AB::ExprEF> = vec![];
        for s in &self.stmts {
            match s {
                Stmt::Main(off, i) => {
                    let m = b.main();
                    let v = if *off == 0 { m.current_slice()[*i] } else { m.next_slice()[*i] };
                    br.push(v.into());
                }
                Stmt::Prep(off, i) => {
                    let m = b.preprocessed().clone();
                    let v = if *off == 0 { m.current_slice()[*i] } else { m.next_slice()[*i] };
                    br.push(v.into());
                }
                Stmt::Pub(i) => br.push(b.public_values()[*i].into()),
                Stmt::Periodic(i) => br.push(b.periodic_values()[*i].into()),
                Stmt::First => br.push(b.is_first_row()),
                Stmt::Last => br.push(b.is_last_row()),
                Stmt::Trans => br.push(b.is_transition()),
                Stmt::Const(c) => br.push(AB::Expr::from(F::from_u64(*c))),
                Stmt::Add(x, y) => br.push(br[*x].clone() + br[*y].clone()),
                Stmt::Sub(x, y) => br.push(br[*x].clone() - br[*y].clone()),
                Stmt::Mul(x, y) => br.push(br[*x].clone() * br[*y].clone()),
                Stmt::Neg(x) => br.push(-br[*x].clone()),
                Stmt::XFromBase(x) => xr.push(AB::ExprEF::from(br[*x].clone())),
                Stmt::XConst(c) => xr.push(AB::ExprEF::from(ef(*c))),
                // `Lookups::from_air` evaluates the AIR with no permutation columns at all (it only
                // collects interactions); reads past the slice become zero there.
                Stmt::XPerm(off, i) => {
                    let m = b.permutation();
                    let v = if *off == 0 { m.current_slice().get(*i).copied() } else { m.next_slice().get(*i).copied() };
                    xr.push(v.map_or(AB::ExprEF::ZERO, Into::into));
                }
                Stmt::XChal(i) => xr.push(b.permutation_randomness().get(*i).map_or(AB::ExprEF::ZERO, |v| (*v).into())),
                Stmt::XPermVal(i) => xr.push(b.permutation_values().get(*i).map_or(AB::ExprEF::ZERO, |v| v.clone().into())),
                Stmt::XAdd(x, y) => xr.push(xr[*x].clone() + xr[*y].clone()),
                Stmt::XSub(x, y) => xr.push(xr[*x].clone() - xr[*y].clone()),
                Stmt::XMul(x, y) => xr.push(xr[*x].clone() * xr[*y].clone()),
                Stmt::XNeg(x) => xr.push(-xr[*x].clone()),
                Stmt::XMulBase(x, y) => xr.push(xr[*x].clone() * br[*y].clone()),
                Stmt::Assert(x) => b.assert_zero(br[*x].clone()),
                Stmt::AssertFirst(x) => b.when_first_row().assert_zero(br[*x].clone()),
                Stmt::AssertTransition(x) => b.when_transition().assert_zero(br[*x].clone()),
                Stmt::AssertLast(x) => b.when_last_row().assert_zero(br[*x].clone()),
                Stmt::AssertExt(x) => b.assert_zero_ext(xr[*x].clone()),
                Stmt::Interaction(fields, count) => {
                    let fs: Vec<AB::Expr> = fields.iter().map(|i| br[*i].clone()).collect();
                    b.push_interaction("bus", fs, Count::bounded(br[*count].clone(), 1));
                }
            }
        }
    }
}

// ------------------------------------------------------------------ generators

fn rand_base_const(rng: &mut Rng) -> u64 {
    match rng.below(6) {
        0 => 0,
        1 => 1,
        2 => P - 1,
        3 => 2,
        _ => rng.below(P),
    }
}

fn rand_ext_const(rng: &mut Rng) -> [u64; 4] {
    match rng.below(6) {
        0 => [0, 0, 0, 0],
        1 => [1, 0, 0, 0],
        2 => [rng.below(P), 0, 0, 0],
        _ => [rng.below(P), rng.below(P), rng.below(P), rng.below(P)],
    }
}

fn pick_child<T: Clone>(rng: &mut Rng, pool: &[T]) -> T {
    let n = pool.len();
    if rng.chance(1, 2) { pool[n - 1 - rng.usize(n.min(3))].clone() } else { pool[rng.usize(n)].clone() }
}

fn base_leaf(rng: &mut Rng, widths: &[usize; 10], wild: bool) -> SE {
    loop {
        match rng.below(10) {
            0 | 1 => return SE::Leaf(BaseLeaf::Constant(F::from_u64(rand_base_const(rng)))),
            2 => return SE::Leaf(BaseLeaf::IsFirstRow),
            3 => return SE::Leaf(BaseLeaf::IsLastRow),
            4 => return SE::Leaf(BaseLeaf::IsTransition),
            _ => {
                let (entry, cat) = match rng.below(6) {
                    0 => (BaseEntry::Preprocessed { offset: 0 }, PREL),
                    1 => (BaseEntry::Preprocessed { offset: 1 }, PREN),
                    2 => (BaseEntry::Main { offset: 0 }, LOC),
                    3 => (BaseEntry::Main { offset: 1 }, NXT),
                    4 => (BaseEntry::Public, PUBS),
                    _ => (BaseEntry::Periodic, PER),
                };
                if wild && rng.chance(1, 3) {
                    // the panic arms: a third row, or an index past the slice
                    if rng.chance(1, 2) {
                        return SE::Leaf(BaseLeaf::Variable(SymbolicVariable::new(BaseEntry::Main { offset: 2 }, 0)));
                    }
                    return SE::Leaf(BaseLeaf::Variable(SymbolicVariable::new(entry, widths[cat])));
                }
                if widths[cat] == 0 {
                    continue;
                }
                return SE::Leaf(BaseLeaf::Variable(SymbolicVariable::new(entry, rng.usize(widths[cat]))));
            }
        }
    }
}

fn base_op(rng: &mut Rng, pool: &[Arc<SE>]) -> SE {
    let x = pick_child(rng, pool);
    let y = if rng.chance(15, 100) { x.clone() } else { pick_child(rng, pool) };
    match rng.below(7) {
        0 => SE::Neg { x, degree_multiple: 0 },
        1 | 2 => SE::Add { x, y, degree_multiple: 0 },
        3 | 4 => SE::Sub { x, y, degree_multiple: 0 },
        _ => SE::Mul { x, y, degree_multiple: 0 },
    }
}

/// An inline base expression (a constraint root or the payload of `ExtLeaf::Base`).
fn inline_base(rng: &mut Rng, pool: &[Arc<SE>], widths: &[usize; 10], wild: bool) -> SE {
    if pool.is_empty() || rng.chance(15, 100) {
        base_leaf(rng, widths, wild)
    } else if rng.chance(1, 3) {
        (**rng.pick(pool)).clone()
    } else {
        base_op(rng, pool)
    }
}

fn ext_leaf(rng: &mut Rng, bpool: &[Arc<SE>], widths: &[usize; 10], wild: bool) -> SX {
    loop {
        match rng.below(10) {
            0..=3 => return SX::Leaf(ExtLeaf::Base(inline_base(rng, bpool, widths, wild))),
            4 | 5 => return SX::Leaf(ExtLeaf::ExtConstant(ef(rand_ext_const(rng)))),
            _ => {
                let (entry, cat) = match rng.below(4) {
                    0 => (ExtEntry::Permutation { offset: 0 }, PL),
                    1 => (ExtEntry::Permutation { offset: 1 }, PN),
                    2 => (ExtEntry::Challenge, CH),
                    _ => (ExtEntry::PermutationValue, PV),
                };
                if wild && rng.chance(1, 3) {
                    if rng.chance(1, 2) {
                        return SX::Leaf(ExtLeaf::ExtVariable(SymbolicVariableExt::new(ExtEntry::Permutation { offset: 2 }, 0)));
                    }
                    return SX::Leaf(ExtLeaf::ExtVariable(SymbolicVariableExt::new(entry, widths[cat])));
                }
                if widths[cat] == 0 {
                    continue;
                }
                return SX::Leaf(ExtLeaf::ExtVariable(SymbolicVariableExt::new(entry, rng.usize(widths[cat]))));
            }
        }
    }
}

fn ext_op(rng: &mut Rng, pool: &[Arc<SX>]) -> SX {
    let x = pick_child(rng, pool);
    let y = if rng.chance(15, 100) { x.clone() } else { pick_child(rng, pool) };
    match rng.below(7) {
        0 => SX::Neg { x, degree_multiple: 0 },
        1 | 2 => SX::Add { x, y, degree_multiple: 0 },
        3 | 4 => SX::Sub { x, y, degree_multiple: 0 },
        _ => SX::Mul { x, y, degree_multiple: 0 },
    }
}

struct DagCase {
    widths: [usize; 10],
    base: Vec<SE>,
    ext: Vec<SX>,
    em: Vec<(bool, usize)>,
    shape: &'static str,
}

fn gen_dag(rng: &mut Rng, max_nodes: usize) -> DagCase {
    let shape = match rng.below(20) {
        0 => "chain",
        1 => "wild",
        2 => "square",
        _ => "mixed",
    };
    let wild = shape == "wild";
    let mut widths = [0usize; 10];
    for w in widths.iter_mut() {
        *w = rng.usize(4);
    }
    widths[LOC] = 1 + rng.usize(4);
    widths[NXT] = widths[LOC];
    widths[PREN] = widths[PREL];
    widths[PN] = widths[PL];
    let nb = match shape {
        "chain" => max_nodes * 20,
        "square" => rng.range(1, max_nodes.max(1)),
        _ => rng.range(0, max_nodes),
    };
    let nx = rng.range(0, max_nodes / 2);
    let mut bpool: Vec<Arc<SE>> = vec![];
    for i in 0..nb {
        let e = match shape {
            "chain" if i > 0 => {
                // depth grows with every node
                let x = bpool[i - 1].clone();
                let y = if rng.chance(1, 2) { x.clone() } else { Arc::new(base_leaf(rng, &widths, false)) };
                match rng.below(4) {
                    0 => SE::Neg { x, degree_multiple: 0 },
                    1 => SE::Add { x, y, degree_multiple: 0 },
                    2 => SE::Sub { x: y, y: x, degree_multiple: 0 },
                    _ => SE::Mul { x, y, degree_multiple: 0 },
                }
            }
            "square" if i > 0 => {
                let x = bpool[i - 1].clone();
                SE::Mul { x: x.clone(), y: x, degree_multiple: 0 }
            }
            _ => {
                if bpool.is_empty() || rng.chance(35, 100) {
                    let w = wild && rng.chance(1, 8);
                    base_leaf(rng, &widths, w)
                } else {
                    base_op(rng, &bpool)
                }
            }
        };
        bpool.push(Arc::new(e));
    }
    let mut xpool: Vec<Arc<SX>> = vec![];
    for _ in 0..nx {
        let e = if xpool.is_empty() || rng.chance(40, 100) {
            let w = wild && rng.chance(1, 8);
            ext_leaf(rng, &bpool, &widths, w)
        } else {
            ext_op(rng, &xpool)
        };
        xpool.push(Arc::new(e));
    }
    let nbr = rng.range(0, 5);
    let nxr = rng.range(0, 4);
    let mut base = vec![];
    for _ in 0..nbr {
        let r = if (shape == "chain" || shape == "square") && !bpool.is_empty() {
            (**bpool.last().unwrap()).clone()
        } else {
            inline_base(rng, &bpool, &widths, false)
        };
        base.push(r);
    }
    let mut ext = vec![];
    for _ in 0..nxr {
        let r = if xpool.is_empty() || rng.chance(1, 5) {
            ext_leaf(rng, &bpool, &widths, false)
        } else if rng.chance(1, 3) {
            (**rng.pick(&xpool)).clone()
        } else {
            ext_op(rng, &xpool)
        };
        ext.push(r);
    }
    let mut em: Vec<(bool, usize)> = (0..nbr).map(|k| (false, k)).chain((0..nxr).map(|k| (true, k))).collect();
    if rng.chance(1, 4) {
        // an AIR may assert extension constraints before base constraints
        for i in (1..em.len()).rev() {
            let j = rng.usize(i + 1);
            em.swap(i, j);
        }
        // keep each stream in its own order (the builder records them that way)
        let (mut kb, mut kx) = (0, 0);
        for e in em.iter_mut() {
            if e.0 {
                e.1 = kx;
                kx += 1;
            } else {
                e.1 = kb;
                kb += 1;
            }
        }
    }
    DagCase { widths, base, ext, em, shape }
}

fn gen_script(rng: &mut Rng, max_stmts: usize) -> (ScriptAir, &'static str) {
    let width = 1 + rng.usize(4);
    let prep_width = rng.usize(3);
    let n_pub = rng.usize(3);
    let n_periodic = rng.usize(2);
    // statements that need permutation columns are decided after the interaction count is known
    let n_inter = if rng.chance(1, 2) { 0 } else { 1 + rng.usize(2) };
    let order = match rng.below(5) {
        0 => "ext-anywhere",
        _ => "base-then-ext",
    };
    let perm_w = if n_inter == 0 { 0 } else { n_inter + 1 };
    let n_chal = 2 * n_inter;
    let n_pv = usize::from(n_inter > 0);
    let mut stmts = vec![];
    let (mut nb, mut nx) = (0usize, 0usize);
    let mut late: Vec<Stmt> = vec![];
    let n = rng.range(3, max_stmts);
    for _ in 0..n {
        let r = rng.below(100);
        let s = if nb == 0 || r < 30 {
            nb += 1;
            match rng.below(9) {
                0 | 1 | 2 => Stmt::Main(rng.usize(2), rng.usize(width)),
                3 if prep_width > 0 => Stmt::Prep(rng.usize(2), rng.usize(prep_width)),
                4 if n_pub > 0 => Stmt::Pub(rng.usize(n_pub)),
                5 if n_periodic > 0 => Stmt::Periodic(rng.usize(n_periodic)),
                6 => match rng.below(3) {
                    0 => Stmt::First,
                    1 => Stmt::Last,
                    _ => Stmt::Trans,
                },
                _ => Stmt::Const(rand_base_const(rng)),
            }
        } else if r < 60 {
            let (x, y) = (pick_reg(rng, nb), pick_reg(rng, nb));
            nb += 1;
            match rng.below(7) {
                0 => Stmt::Neg(x),
                1 | 2 => Stmt::Add(x, y),
                3 | 4 => Stmt::Sub(x, y),
                _ => Stmt::Mul(x, y),
            }
        } else if r < 72 {
            let x = pick_reg(rng, nb);
            match rng.below(5) {
                0 => Stmt::AssertFirst(x),
                1 => Stmt::AssertTransition(x),
                2 => Stmt::AssertLast(x),
                _ => Stmt::Assert(x),
            }
        } else if nx == 0 || r < 82 {
            nx += 1;
            match rng.below(6) {
                0 | 1 => Stmt::XFromBase(pick_reg(rng, nb)),
                2 => Stmt::XConst(rand_ext_const(rng)),
                3 if perm_w > 0 => Stmt::XPerm(rng.usize(2), rng.usize(perm_w)),
                4 if n_chal > 0 => Stmt::XChal(rng.usize(n_chal)),
                5 if n_pv > 0 => Stmt::XPermVal(0),
                _ => Stmt::XFromBase(pick_reg(rng, nb)),
            }
        } else if r < 93 {
            let (x, y) = (pick_reg(rng, nx), pick_reg(rng, nx));
            nx += 1;
            match rng.below(8) {
                0 => Stmt::XNeg(x),
                1 | 2 => Stmt::XAdd(x, y),
                3 | 4 => Stmt::XSub(x, y),
                5 => Stmt::XMulBase(x, pick_reg(rng, nb)),
                _ => Stmt::XMul(x, y),
            }
        } else {
            let s = Stmt::AssertExt(pick_reg(rng, nx));
            if order == "base-then-ext" {
                late.push(s);
                continue;
            }
            s
        };
        stmts.push(s);
    }
    for k in 0..n_inter {
        let nf = 1 + rng.usize(2);
        let fields = (0..nf).map(|_| pick_reg(rng, nb)).collect();
        let count = pick_reg(rng, nb);
        let _ = k;
        stmts.push(Stmt::Interaction(fields, count));
    }
    stmts.extend(late);
    (ScriptAir { width, prep_width, n_pub, n_periodic, stmts }, order)
}

fn pick_reg(rng: &mut Rng, n: usize) -> usize {
    if rng.chance(1, 2) { n - 1 - rng.usize(n.min(3)) } else { rng.usize(n) }
}

// ------------------------------------------------------------------ running one case

struct Report {
    evaluations: u64,
    cases: u64,
    distinct: std::collections::HashSet<u64>,
    hist: BTreeMap<String, u64>,
    samples: Vec<Value>,
    violations: Vec<Value>,
}

fn bump(h: &mut BTreeMap<String, u64>, k: &str, n: u64) {
    *h.entry(k.to_string()).or_default() += n;
}

fn hash_str(s: &str) -> u64 {
    let mut h = 0xcbf29ce484222325u64;
    for b in s.bytes() {
        h = (h ^ b as u64).wrapping_mul(0x100000001b3);
    }
    h
}

fn bucket(n: usize) -> String {
    let b = match n {
        0 => "0",
        1..=4 => "1-4",
        5..=16 => "5-16",
        17..=64 => "17-64",
        65..=256 => "65-256",
        257..=1024 => "257-1024",
        _ => ">1024",
    };
    b.to_string()
}

fn columns<'a>(t: &'a [Vec<ExprId>; 10]) -> ColumnsTargets<'a> {
    ColumnsTargets {
        challenges: &t[CH],
        public_values: &t[PUBS],
        permutation_local_values: &t[PL],
        permutation_next_values: &t[PN],
        permutation_values: &t[PV],
        local_prep_values: &t[PREL],
        next_prep_values: &t[PREN],
        periodic_values: &t[PER],
        local_values: &t[LOC],
        next_values: &t[NXT],
    }
}

/// The loop of `eval_folded_circuit`, written out, to observe the id of every constraint:
/// constraints are compiled and folded in emission order (`ConstraintLayout`), both caches
/// shared over the whole loop.
fn direct_fold(
    b: &mut CircuitBuilder<EF>,
    sels: RowSelectorsTargets,
    cols: &ColumnsTargets<'_>,
    alpha: ExprId,
    base: &[SE],
    ext: &[SX],
    em: &[(bool, usize)],
) -> (Vec<u32>, u32) {
    let compiler = SymbolicCompiler::new(sels, cols);
    let mut ids = vec![];
    let mut acc = b.define_const(EF::ZERO);
    let mut bc = hashbrown::HashMap::new();
    let mut xc = hashbrown::HashMap::new();
    for (is_ext, k) in em {
        let id = if *is_ext {
            compiler.compile_ext(&ext[*k], b, &mut bc, &mut xc)
        } else {
            compiler.compile_base(&base[*k], b, &mut bc)
        };
        ids.push(id.0);
        acc = b.mul_add(acc, alpha, id);
    }
    (ids, acc.0)
}

/// What a case needs from its AIR.
trait AirOps {
    /// (main width, number of public values, number of periodic columns)
    fn dims(&self) -> (usize, usize, usize);
    fn symbolic(
        &self,
        layout: AirLayout,
        lookups: &[Lookup<F>],
        g: &LogUpGadget,
    ) -> ((Vec<SE>, Vec<SX>), p3_air::symbolic::ConstraintLayout);
    fn fold(
        &self,
        b: &mut CircuitBuilder<EF>,
        sels: &RecursiveLagrangeSelectors,
        alpha: &ExprId,
        meta: &LookupMetadata<'_, F>,
        cols: ColumnsTargets<'_>,
        g: &LogUpGadget,
    ) -> ExprId;
    /// `Some(accumulator)`: p3's verifier folder evaluated on this very AIR (+ lookups);
    /// `None`: the AIR only exists symbolically (kind `dag`).
    fn native(&self, f: VerifierConstraintFolderWithLookups<'_, MyConfig>, lookups: &[Lookup<F>], g: &LogUpGadget) -> Option<EF>;
}

impl AirOps for FixedAir {
    fn dims(&self) -> (usize, usize, usize) {
        (self.width, self.n_pub, self.n_periodic)
    }
    fn symbolic(&self, layout: AirLayout, lookups: &[Lookup<F>], g: &LogUpGadget) -> ((Vec<SE>, Vec<SX>), p3_air::symbolic::ConstraintLayout) {
        (get_symbolic_constraints::<F, EF, _, _>(self, layout, lookups, g), get_constraint_layout::<F, EF, _, _>(self, layout, lookups, g))
    }
    fn fold(&self, b: &mut CircuitBuilder<EF>, sels: &RecursiveLagrangeSelectors, alpha: &ExprId, meta: &LookupMetadata<'_, F>, cols: ColumnsTargets<'_>, g: &LogUpGadget) -> ExprId {
        RecursiveAir::<F, EF, LogUpGadget>::eval_folded_circuit(self, b, sels, alpha, meta, cols, g)
    }
    fn native(&self, _f: VerifierConstraintFolderWithLookups<'_, MyConfig>, _l: &[Lookup<F>], _g: &LogUpGadget) -> Option<EF> {
        None
    }
}

/// Any AIR that both the symbolic builder and p3's verifier folder can evaluate.
struct Native<A>(A);

impl<A> AirOps for Native<A>
where
    A: Air<InteractionSymbolicBuilder<F, EF>> + for<'a> Air<VerifierConstraintFolderWithLookups<'a, MyConfig>>,
{
    fn dims(&self) -> (usize, usize, usize) {
        (BaseAir::<F>::width(&self.0), BaseAir::<F>::num_public_values(&self.0), BaseAir::<F>::num_periodic_columns(&self.0))
    }
    fn symbolic(&self, layout: AirLayout, lookups: &[Lookup<F>], g: &LogUpGadget) -> ((Vec<SE>, Vec<SX>), p3_air::symbolic::ConstraintLayout) {
        (get_symbolic_constraints::<F, EF, _, _>(&self.0, layout, lookups, g), get_constraint_layout::<F, EF, _, _>(&self.0, layout, lookups, g))
    }
    fn fold(&self, b: &mut CircuitBuilder<EF>, sels: &RecursiveLagrangeSelectors, alpha: &ExprId, meta: &LookupMetadata<'_, F>, cols: ColumnsTargets<'_>, g: &LogUpGadget) -> ExprId {
        RecursiveAir::<F, EF, LogUpGadget>::eval_folded_circuit(&self.0, b, sels, alpha, meta, cols, g)
    }
    fn native(&self, mut f: VerifierConstraintFolderWithLookups<'_, MyConfig>, lookups: &[Lookup<F>], g: &LogUpGadget) -> Option<EF> {
        g.eval_air_and_lookups(&self.0, &mut f, lookups);
        Some(f.inner.accumulator)
    }
}

#[allow(clippy::too_many_arguments)]
fn run_case(
    id: &str,
    replay: Value,
    kind: &str,
    air: &dyn AirOps,
    lookups: &[Lookup<F>],
    g: &PreGen,
    t: &Targets,
    rng: &mut Rng,
    n_inputs: usize,
    cases: &mut impl Write,
    implo: &mut impl Write,
    rep: &mut Report,
) {
    let gadget = LogUpGadget::new();
    // the constraint vectors exactly as `eval_folded_circuit` obtains them
    let (layout, base, ext, em) = {
        let (w, np, nper) = air.dims();
        let layout = AirLayout {
            preprocessed_width: t.cats[PREL].len(),
            main_width: w,
            num_public_values: np,
            num_periodic_columns: nper,
            num_permutation_values: usize::from(!lookups.is_empty()),
            ..Default::default()
        };
        let r = catch_unwind(AssertUnwindSafe(|| air.symbolic(layout, lookups, &gadget)));
        let Ok(((base, ext), cl)) = r else {
            bump(&mut rep.hist, "skipped.symbolic-eval-panic", 1);
            return;
        };
        let mut em: Vec<(usize, bool, usize)> = cl.base_indices.iter().enumerate().map(|(k, g)| (*g, false, k)).collect();
        em.extend(cl.ext_indices.iter().enumerate().map(|(k, g)| (*g, true, k)));
        em.sort();
        (layout, base, ext, em.into_iter().map(|(_, x, k)| (x, k)).collect::<Vec<_>>())
    };
    let _ = layout;
    rep.cases += 1;
    // ---- case text
    let mut d = Dump::default();
    let broots: Vec<usize> = base.iter().map(|e| d.base(e, 1)).collect();
    let xroots: Vec<usize> = ext.iter().map(|e| d.ext(e, 1)).collect();
    let mut text = String::new();
    for p in &g.pre {
        text.push_str(&p.line());
        text.push('\n');
    }
    text.push_str(&format!("sel {} {} {}\nalpha {}\n", t.sel[0], t.sel[1], t.sel[2], t.alpha));
    for (c, name) in CAT_NAMES.iter().enumerate() {
        text.push_str(&format!("cat {name} {}\n", t.cats[c].iter().map(|x| x.to_string()).collect::<Vec<_>>().join(" ")));
    }
    // base nodes and extension nodes are separate index spaces; order within each is what matters
    for l in &d.blines {
        text.push_str(l);
        text.push('\n');
    }
    for l in &d.xlines {
        text.push_str(l);
        text.push('\n');
    }
    let em_str: Vec<String> =
        em.iter().map(|(x, k)| if *x { format!("x{}", xroots[*k]) } else { format!("b{}", broots[*k]) }).collect();
    text.push_str(&format!("em {}\nfold\n", em_str.join(" ")));
    if !em.is_empty() {
        // non-trivial: at least one constraint is folded
        rep.distinct.insert(hash_str(&text));
    }
    writeln!(cases, "case {id}").unwrap();
    writeln!(implo, "case {id}").unwrap();
    cases.write_all(text.as_bytes()).unwrap();
    // ---- histogram of the input
    bump(&mut rep.hist, &format!("kind.{kind}"), 1);
    bump(&mut rep.hist, &format!("base_nodes.{}", bucket(d.blines.len())), 1);
    bump(&mut rep.hist, &format!("ext_nodes.{}", bucket(d.xlines.len())), 1);
    bump(&mut rep.hist, &format!("depth.{}", bucket(d.max_depth)), 1);
    bump(&mut rep.hist, &format!("shared_hits.{}", bucket((d.bhits + d.xhits) as usize)), 1);
    bump(&mut rep.hist, &format!("constraints.base.{}", bucket(base.len())), 1);
    bump(&mut rep.hist, &format!("constraints.ext.{}", bucket(ext.len())), 1);
    bump(&mut rep.hist, &format!("lookups.{}", lookups.len()), 1);
    for (k, v) in &d.bkinds {
        bump(&mut rep.hist, &format!("node.{k}"), *v);
    }
    let first_base = em.iter().rposition(|e| !e.0);
    let first_ext = em.iter().position(|e| e.0);
    let interleaved = matches!((first_base, first_ext), (Some(b), Some(x)) if x < b);
    bump(&mut rep.hist, if interleaved { "emission.ext-before-base" } else { "emission.base-first" }, 1);
    // ---- implementation: pre-program on two builders
    let mut a = CircuitBuilder::<EF>::new();
    let mut b2 = CircuitBuilder::<EF>::new();
    for p in &g.pre {
        let r = p.apply(&mut a);
        p.apply(&mut b2);
        writeln!(implo, "r {}", r.0).unwrap();
    }
    let tids: [Vec<ExprId>; 10] = core::array::from_fn(|c| t.cats[c].iter().map(|x| ExprId(*x)).collect());
    let sels = RowSelectorsTargets { is_first_row: ExprId(t.sel[0]), is_last_row: ExprId(t.sel[1]), is_transition: ExprId(t.sel[2]) };
    let alpha = ExprId(t.alpha);
    let folded = catch_unwind(AssertUnwindSafe(|| {
        let rsels = RecursiveLagrangeSelectors { row_selectors: sels, inv_vanishing: ExprId(0) };
        let meta = LookupMetadata { contexts: lookups };
        let acc = air.fold(&mut a, &rsels, &alpha, &meta, columns(&tids), &gadget);
        let probe = a.public_input();
        (acc.0, probe.0)
    }));
    let direct = catch_unwind(AssertUnwindSafe(|| direct_fold(&mut b2, sels, &columns(&tids), alpha, &base, &ext, &em)));
    let (acc, probe) = match (folded, direct) {
        (Ok((acc, probe)), Ok((ids, acc2))) => {
            let s = ids.iter().map(|x| x.to_string()).collect::<Vec<_>>().join(" ");
            if acc2 == acc {
                writeln!(implo, "ids {s} | acc {acc} probe {probe}").unwrap();
            } else {
                writeln!(implo, "ids {s} | acc {acc} probe {probe} (direct loop acc {acc2})").unwrap();
            }
            (acc, probe)
        }
        (Err(_), Err(_)) => {
            writeln!(implo, "fold panic").unwrap();
            bump(&mut rep.hist, "fold.panic", 1);
            // native evaluation must panic as well (a row offset above 1 or an index past the slice)
            let zeros = vec![EF::ZERO; g.npub];
            let vals = pre_values(&g.pre, &g.ids, &zeros);
            let env = env_of(t, &vals);
            let mut ne = NativeEval::new(&env);
            let all_ok = base.iter().all(|e| ne.base(e).is_some()) && ext.iter().all(|e| ne.ext(e).is_some());
            if all_ok {
                rep.violations.push(json!({"property":"C13","kind":"compile-panics-where-native-evaluates",
                    "class":"compile-panic", "replay": replay}));
            }
            return;
        }
        (f, dct) => {
            writeln!(implo, "fold inconsistent eval_folded_circuit_ok={} direct_ok={}", f.is_ok(), dct.is_ok()).unwrap();
            return;
        }
    };
    bump(&mut rep.hist, "fold.ok", 1);
    let _ = probe;
    // ---- build once, run on every input vector
    let circuit = catch_unwind(AssertUnwindSafe(|| a.build()));
    let circuit = match circuit {
        Ok(Ok(c)) => Some(c),
        _ => None,
    };
    for k in 0..n_inputs {
        let inputs: Vec<EF> = (0..g.npub)
            .map(|i| {
                let style = if k == 1 { rng.below(3) } else { 3 };
                let x = match style {
                    0 => [0, 0, 0, 0],
                    1 => [1, 0, 0, 0],
                    _ => [rng.below(P), rng.below(P), rng.below(P), rng.below(P)],
                };
                if g.base_only[i] { ef([x[0], 0, 0, 0]) } else { ef(x) }
            })
            .collect();
        let line = format!("in {}", inputs.iter().map(|x| ef_str(*x)).collect::<Vec<_>>().join(" "));
        writeln!(cases, "{}", line.trim_end()).unwrap();
        rep.evaluations += 1;
        // implementation value
        let got: Result<EF, String> = match &circuit {
            None => Err("build-failed".into()),
            Some(c) => {
                let r = catch_unwind(AssertUnwindSafe(|| {
                    let mut runner = c.runner();
                    let mut pi = inputs.clone();
                    pi.push(EF::ZERO); // the probe input
                    runner.set_public_inputs(&pi).map_err(|e| format!("{e:?}"))?;
                    let traces = runner.run().map_err(|e| format!("{e:?}"))?;
                    let w = c.expr_to_widx.get(&ExprId(acc)).ok_or("acc-not-lowered".to_string())?;
                    traces.witness_trace.get_value(*w).copied().ok_or("acc-unset".to_string())
                }));
                match r {
                    Ok(x) => x,
                    Err(_) => Err("run-panic".into()),
                }
            }
        };
        match &got {
            Ok(v) => writeln!(implo, "val {}", ef_str(*v)).unwrap(),
            Err(e) => writeln!(implo, "val err {}", e.split_whitespace().next().unwrap_or("")).unwrap(),
        }
        // native value
        let vals = pre_values(&g.pre, &g.ids, &inputs);
        let env = env_of(t, &vals);
        let mut ne = NativeEval::new(&env);
        let bv: Option<Vec<EF>> = base.iter().map(|e| ne.base(e)).collect();
        let xv: Option<Vec<EF>> = ext.iter().map(|e| ne.ext(e)).collect();
        let small = base.iter().all(|e| ne.tree_size(e) <= 20_000);
        let native: Option<EF> = match (&bv, &xv) {
            (Some(bv), Some(xv)) => {
                let on_air = catch_unwind(AssertUnwindSafe(|| with_folder(&env, |f| air.native(f, lookups, &gadget)))).ok().flatten();
                match on_air {
                    Some(Some(acc)) => Some(acc),
                    Some(None) => with_folder(&env, |mut f| {
                        for (is_ext, k) in &em {
                            if *is_ext {
                                f.assert_zero_ext(xv[*k]);
                            } else if small {
                                // p3's own recursive resolution of the symbolic expression
                                f.assert_zero(base[*k].resolve(&f));
                            } else {
                                f.assert_zero(bv[*k]);
                            }
                        }
                        f.inner.accumulator
                    }),
                    None => None,
                }
            }
            _ => None,
        };
        match native {
            Some(v) => writeln!(implo, "nat {}", ef_str(v)).unwrap(),
            None => writeln!(implo, "nat none").unwrap(),
        }
        if let (Some(bv), Some(xv), Some(nat)) = (&bv, &xv, native) {
            // the independent evaluator and p3's folder must agree on the emission-order fold
            let mut mine = EF::ZERO;
            for (is_ext, k) in &em {
                mine = mine * env.alpha + if *is_ext { xv[*k] } else { bv[*k] };
            }
            if mine != nat {
                rep.violations.push(json!({"property":"C13","kind":"oracle-self-check-failed","class":"oracle-self-check",
                    "detail":{"memoised": ef_str(mine), "p3_folder": ef_str(nat)}, "replay": replay}));
            }
            let mut base_first = EF::ZERO;
            for v in bv.iter().chain(xv.iter()) {
                base_first = base_first * env.alpha + *v;
            }
            match &got {
                Ok(v) if *v == nat => bump(&mut rep.hist, "verdict.equal", 1),
                Ok(v) => {
                    let class = if interleaved && *v == base_first {
                        "fold-order:extension-constraint-emitted-before-base-constraint"
                    } else {
                        "wrong-folded-value"
                    };
                    bump(&mut rep.hist, &format!("verdict.{class}"), 1);
                    if rep.violations.iter().filter(|x| x["class"] == class).count() < 20
                        && !rep.violations.iter().any(|x| x["replay"] == replay)
                    {
                        rep.violations.push(json!({"property":"C13","kind":"folded-value-differs-from-native","class":class,
                            "detail":{"circuit": ef_str(*v), "native": ef_str(nat), "input_index": k,
                                      "emission": em_str, "base_constraints": base.len(), "ext_constraints": ext.len()},
                            "replay": replay}));
                    }
                }
                Err(e) => {
                    bump(&mut rep.hist, "verdict.circuit-did-not-run", 1);
                    rep.violations.push(json!({"property":"C13","kind":"circuit-did-not-run","class":"circuit-run-failed",
                        "detail":{"error": e}, "replay": replay}));
                }
            }
        } else {
            bump(&mut rep.hist, "verdict.native-undefined", 1);
        }
    }
    if rep.samples.len() < 3 {
        rep.samples.push(json!({"id": id, "kind": kind, "case": text.lines().take(60).collect::<Vec<_>>()}));
    }
}

fn dag_case(seed: u64, max_nodes: usize, id: &str, cases: &mut impl Write, implo: &mut impl Write, rep: &mut Report, n_inputs: usize) {
    let mut rng = Rng::new(seed);
    let dc = gen_dag(&mut rng, max_nodes);
    let plain = rng.chance(1, 2);
    let (g, t) = gen_targets(&mut rng, dc.widths, plain);
    bump(&mut rep.hist, &format!("dag.shape.{}", dc.shape), 1);
    let air = FixedAir { width: dc.widths[LOC], n_pub: dc.widths[PUBS], n_periodic: dc.widths[PER], base: dc.base, ext: dc.ext, em: dc.em };
    let replay = json!({"kind":"dag","case_seed":seed,"max_nodes":max_nodes});
    run_case(id, replay, "dag", &air, &[], &g, &t, &mut rng, n_inputs, cases, implo, rep);
}

fn air_case(seed: u64, max_stmts: usize, id: &str, cases: &mut impl Write, implo: &mut impl Write, rep: &mut Report, n_inputs: usize) {
    let mut rng = Rng::new(seed);
    let (sa, order) = gen_script(&mut rng, max_stmts);
    bump(&mut rep.hist, &format!("air.order.{order}"), 1);
    // `Lookups::from_air` evaluates the AIR without any permutation columns (a 0-row window);
    // interactions only involve base registers, so collect them from a copy of the script whose
    // permutation reads are replaced by constants.
    let skeleton = ScriptAir {
        width: sa.width,
        prep_width: sa.prep_width,
        n_pub: sa.n_pub,
        n_periodic: sa.n_periodic,
        stmts: sa
            .stmts
            .iter()
            .map(|s| match s {
                Stmt::XPerm(..) | Stmt::XChal(..) | Stmt::XPermVal(..) => Stmt::XConst([0, 0, 0, 0]),
                other => other.clone(),
            })
            .collect(),
    };
    let Ok(lookups) = catch_unwind(AssertUnwindSafe(|| Lookups::<F>::from_air::<EF, _>(&skeleton))) else {
        bump(&mut rep.hist, "skipped.lookups-from-air-panic", 1);
        return;
    };
    let lookups: Vec<Lookup<F>> = lookups.to_vec();
    let nl = lookups.len();
    let mut widths = [0usize; 10];
    widths[CH] = 2 * nl;
    widths[PUBS] = sa.n_pub;
    widths[PL] = if nl == 0 { 0 } else { nl + 1 };
    widths[PN] = widths[PL];
    widths[PV] = usize::from(nl > 0);
    widths[PREL] = sa.prep_width;
    widths[PREN] = sa.prep_width;
    widths[PER] = sa.n_periodic;
    widths[LOC] = sa.width;
    widths[NXT] = sa.width;
    let plain = rng.chance(2, 3);
    let (g, t) = gen_targets(&mut rng, widths, plain);
    let replay = json!({"kind":"air","case_seed":seed,"max_nodes":max_stmts});
    run_case(id, replay, "air", &Native(sa), &lookups, &g, &t, &mut rng, n_inputs, cases, implo, rep);
}

/// The repository's own table AIRs (and the Fibonacci test AIR) through the same path.
fn real_case(seed: u64, which: u64, id: &str, cases: &mut impl Write, implo: &mut impl Write, rep: &mut Report, n_inputs: usize) {
    use p3_circuit_prover::air::{AluAir, ConstAir, PublicAir};
    let mut rng = Rng::new(seed);
    let lanes = 1 + rng.usize(3);
    let replay = json!({"kind":"real","case_seed":seed,"which":which});
    macro_rules! go {
        ($name:expr, $air:expr) => {{
            let air = $air;
            bump(&mut rep.hist, &format!("real.{}", $name), 1);
            let Ok(lookups) = catch_unwind(AssertUnwindSafe(|| Lookups::<F>::from_air::<EF, _>(&air))) else {
                bump(&mut rep.hist, "skipped.lookups-from-air-panic", 1);
                return;
            };
            let lookups: Vec<Lookup<F>> = lookups.to_vec();
            let nl = lookups.len();
            let mut widths = [0usize; 10];
            widths[CH] = 2 * nl;
            widths[PUBS] = BaseAir::<F>::num_public_values(&air);
            widths[PL] = if nl == 0 { 0 } else { nl + 1 };
            widths[PN] = widths[PL];
            widths[PV] = usize::from(nl > 0);
            widths[PREL] = BaseAir::<F>::preprocessed_width(&air);
            widths[PREN] = widths[PREL];
            widths[PER] = BaseAir::<F>::num_periodic_columns(&air);
            widths[LOC] = BaseAir::<F>::width(&air);
            widths[NXT] = widths[LOC];
            let (g, t) = gen_targets(&mut rng, widths, true);
            run_case(id, replay, "real", &Native(air), &lookups, &g, &t, &mut rng, n_inputs, cases, implo, rep);
        }};
    }
    match which % 6 {
        0 => go!("alu.d1", AluAir::<F, 1>::new(8, lanes)),
        1 => go!("alu.d4", AluAir::<F, 4>::new_binomial(8, lanes, F::from_u64(11))),
        2 => go!("const.d1", ConstAir::<F, 1>::new(4)),
        3 => go!("const.d4", ConstAir::<F, 4>::new(4)),
        4 => go!("public.d4", PublicAir::<F, 4>::new(4, lanes)),
        _ => go!("fibonacci", p3_circuit::test_utils::FibonacciAir {}),
    }
}

/// Regression case of finding F-C13-1 (repaired): one extension constraint asserted before one
/// base constraint. Before the repair `eval_folded_circuit` and the native folder disagreed on it.
fn witness_ext_before_base(cases: &mut impl Write, implo: &mut impl Write, rep: &mut Report) {
    let sa = ScriptAir {
        width: 1,
        prep_width: 0,
        n_pub: 0,
        n_periodic: 0,
        stmts: vec![Stmt::Main(0, 0), Stmt::XFromBase(0), Stmt::XConst([1, 0, 0, 0]), Stmt::XAdd(1, 0), Stmt::AssertExt(2), Stmt::Assert(0)],
    };
    let mut rng = Rng::new(0);
    let mut widths = [0usize; 10];
    widths[LOC] = 1;
    widths[NXT] = 1;
    let (g, t) = gen_targets(&mut rng, widths, true);
    let replay = json!({"kind":"witness","name":"ext_before_base"});
    run_case("witness:ext_before_base", replay, "witness", &Native(sa), &[], &g, &t, &mut rng, 2, cases, implo, rep);
}

fn run_all(args: &crate::Args) {
    let seed = args.u64("seed", 1);
    let n_dag = args.u64("dags", 200);
    let n_air = args.u64("airs", 50);
    let max_nodes = args.u64("max-nodes", 40) as usize;
    let n_inputs = args.u64("inputs", 3) as usize;
    let out = args.str("out", "/tmp/p3r");
    std::fs::create_dir_all(&out).unwrap();
    let mut cases = std::io::BufWriter::new(std::fs::File::create(format!("{out}/c13.cases")).unwrap());
    let mut implo = std::io::BufWriter::new(std::fs::File::create(format!("{out}/c13.impl")).unwrap());
    let mut rep = Report {
        evaluations: 0,
        cases: 0,
        distinct: Default::default(),
        hist: BTreeMap::new(),
        samples: vec![],
        violations: vec![],
    };
    if let Some(dir) = args.opt("corpus") {
        let mut files: Vec<_> =
            std::fs::read_dir(&dir).map(|d| d.filter_map(|e| e.ok()).map(|e| e.path()).collect()).unwrap_or_default();
        files.sort();
        for f in files {
            let Ok(txt) = std::fs::read_to_string(&f) else { continue };
            let Ok(v) = serde_json::from_str::<Value>(&txt) else { continue };
            let v = if v.get("kind").is_some() { v } else { v["replay"].clone() };
            let name = f.file_name().unwrap().to_string_lossy().replace(' ', "_");
            let cs = v["case_seed"].as_u64().unwrap_or(0);
            let mn = v["max_nodes"].as_u64().unwrap_or(40) as usize;
            match v["kind"].as_str() {
                Some("witness") => witness_ext_before_base(&mut cases, &mut implo, &mut rep),
                Some("dag") => dag_case(cs, mn, &format!("corpus:{name}"), &mut cases, &mut implo, &mut rep, n_inputs),
                Some("air") => air_case(cs, mn, &format!("corpus:{name}"), &mut cases, &mut implo, &mut rep, n_inputs),
                Some("real") => real_case(cs, v["which"].as_u64().unwrap_or(0), &format!("corpus:{name}"), &mut cases, &mut implo, &mut rep, n_inputs),
                _ => {}
            }
        }
    }
    let mut rng = Rng::new(seed);
    for i in 0..n_dag {
        let cs = rng.next();
        dag_case(cs, max_nodes, &format!("dag:{seed}:{i}"), &mut cases, &mut implo, &mut rep, n_inputs);
    }
    for i in 0..n_air {
        let cs = rng.next();
        air_case(cs, max_nodes, &format!("air:{seed}:{i}"), &mut cases, &mut implo, &mut rep, n_inputs);
    }
    for i in 0..args.u64("reals", 12) {
        let cs = rng.next();
        real_case(cs, i, &format!("real:{seed}:{i}"), &mut cases, &mut implo, &mut rep, n_inputs);
    }
    cases.flush().unwrap();
    implo.flush().unwrap();
    let report = json!({
        "evaluations": rep.evaluations,
        "cases": rep.cases,
        "distinct": rep.distinct.len(),
        "hist": rep.hist,
        "samples": rep.samples,
        "violations": rep.violations,
    });
    std::fs::write(format!("{out}/c13.report.json"), serde_json::to_string_pretty(&report).unwrap()).unwrap();
    println!("c13: cases={} evaluations={} distinct={} violations={}", rep.cases, rep.evaluations, rep.distinct.len(), rep.violations.len());
}

pub fn main(args: &crate::Args) {
    // deep chains recurse in the dumper, the oracle, p3's `resolve` and `Arc` drops
    let a = crate::Args(args.0.clone());
    std::thread::Builder::new().stack_size(1 << 30).spawn(move || run_all(&a)).unwrap().join().unwrap();
}
