/-
Witnesses for `P3R.C04.accepted_sat_gen` (and `P3R.C10.honest_accepted_gen`) at `D = 2`.

Base field `K = ℤ/7`, extension ring `L = K[X]/(X² − 3)` (3 is a non-residue mod 7: `L = 𝔽₄₉`), `θ`
the root, multiplication kind `binomial 3`. The circuit, over `L`:

    s0 := 1 + θ                     (Const)
    s3 := 0                         (Const, the zero constant a Horner run starts from)
    s1 := s0 · s0                   (MUL;   cells [4, 2]: (1+θ)² = 1 + 2θ + 3)
    s2 := s0 + s1                   (ADD;   cells [5, 3])
    s4 := horner(acc = s3, b = s0, c = s1, a = s2) = s3·s0 + s1 − s2     (cells [6, 6] = −1 − θ)

* `accepted_sat_gen_nonvacuous` — the trace with these coefficient cells meets every hypothesis of
  `accepted_sat_gen` (roles, single creators, balanced 2-tuple bus, chained Horner step, vanishing
  coefficient-wise row constraints) and the theorem yields a satisfying assignment in `L`;
* `rows_ok`, `rows_tampered_rejected` — the row constraints vanish on the honest cells and do not
  after changing the θ-coefficient of the MUL row's `out` cell (`[4, 2] → [4, 3]`);
* `bool_higher_coeff_rejected` — BOOL_CHECK at `D = 2`: `a = [1, 0]` is accepted, `a = [1, 1]`
  (constant coefficient a bit, non-zero θ-coefficient) is rejected — the row the test
  `bool_check_extension_field_rejects_nonzero_higher_coefficients` forges;
* `sat_cvW`, `honest_rows_gen_nonvacuous` — `L` is a field (`g_irreducible`), `CoeffIndep` / `KindRoot`
  hold (`C11.coeffIndep_adjoinRoot_binomial`), and `C10.honest_rows_gen` gives the row constraints
  back from the relations in `L` (the completeness direction at `D = 2`).
-/
import Mathlib.Data.ZMod.Basic
import Mathlib.Algebra.Field.ZMod
import Mathlib.Tactic.NormNum.Prime
import Mathlib.Tactic.IntervalCases
import Mathlib.Algebra.Polynomial.SpecificDegree
import P3R.Props.C10Gen

namespace P3R.Witness.C04Gen
open P3R P3R.C04 P3R.C09 P3R.C11 Polynomial

abbrev K := ZMod 7

instance : Fact (Nat.Prime 7) := ⟨by norm_num⟩

noncomputable abbrev g : K[X] := X ^ 2 - C 3
abbrev L := AdjoinRoot g
noncomputable abbrev φ : K →+* L := AdjoinRoot.of g
noncomputable abbrev θ : L := AdjoinRoot.root g
def kd : ExtKind K := .binomial 3

noncomputable instance : DecidableEq L := Classical.decEq L

theorem kindRoot_ok : KindRoot φ 2 kd θ := kindRoot_adjoinRoot_binomial 2 3

/-- coefficient cells of the five slots -/
def cvW : Nat → List K := fun s => [[1, 1], [4, 2], [5, 3], [0, 0], [6, 6]].getD s []

noncomputable def ops : List (Op L) :=
  [.const 0 (ev φ θ 2 [1, 1]), .const 3 0, .alu .mul 0 0 none 1 none, .alu .add 0 1 none 2 none,
   .alu .horner 2 0 (some 1) 4 (some 3)]

def evs : List (Nat × Role) :=
  [(0, .creator), (3, .creator),
   (1, .creator), (0, .reader), (0, .reader),
   (2, .creator), (0, .reader), (1, .reader),
   (4, .creator), (2, .reader), (1, .reader), (0, .reader)]

def reads : List (Nat × Nat) := [(0, 4), (1, 2), (2, 1)]

def vs : List (List K) := (evs.map Prod.fst).map cvW

theorem slots_ok : evs.map Prod.fst = ops.flatMap opSlots := by
  simp [evs, ops, opSlots]

theorem creators_ok : ∀ s, nCreators evs s ≤ 1 := by
  intro s
  unfold nCreators evs
  simp only [List.countP_cons, List.countP_nil]
  rcases Nat.lt_or_ge s 5 with h | h
  · interval_cases s <;> simp
  · have : ∀ k, k < 5 → (k == s) = false := fun k hk => by simp; omega
    simp [this]

theorem noskip_ok : ∀ e ∈ evs, e.2 ≠ .skip := by
  intro e he
  simp [evs] at he
  rcases he with rfl | rfl | rfl | rfl | rfl | rfl | rfl | rfl | rfl | rfl | rfl | rfl <;> simp

theorem net_ok : ∀ s, netOf reads evs s = 0 := by
  intro s
  rw [netOf_formula]
  unfold nCreators nReaders readsOf evs reads
  simp only [List.countP_cons, List.countP_nil, List.lookup]
  rcases Nat.lt_or_ge s 5 with h | h
  · interval_cases s <;> simp
  · have e1 : ∀ k, k < 5 → (k == s) = false := fun k hk => by simp; omega
    have e2 : ∀ k, k < 5 → (s == k) = false := fun k hk => by simp; omega
    simp [e1, e2]

/-- the bus balances as a signed multiset of `(slot, v₀, v₁)` tuples -/
theorem bus_ok : ∀ s v, tupleNet (busOf reads
    (List.zipWith (fun (e : Nat × Role) v => (⟨e.1, e.2, v⟩ : Cell (List K))) evs vs)) s v = 0 := by
  unfold vs
  rw [C10.honestCellsGen_zip]
  exact C10.honest_bus_gen cvW reads evs net_ok

theorem chain_ok : hornerChained ops = true := by
  have hz : 3 ∈ zeroConsts ops := by
    unfold zeroConsts ops
    rw [List.mem_filterMap]
    exact ⟨.const 3 0, by simp, by simp⟩
  simp only [hornerChained, ops, hornerChainedFrom, Bool.and_true]
  exact List.contains_iff_mem.mpr hz

/-- the coefficient-wise lane constraints of the three ALU rows, by computation in `ℤ/7` -/
theorem mul_row : ∀ x ∈ laneEq 2 (1 : K) (extMul 2 kd [1, 1] [1, 1]) [4, 2], x = 0 := by decide
theorem add_row : ∀ x ∈ laneAdd 2 (1 : K) [1, 1] [4, 2] [5, 3], x = 0 := by decide
theorem horner_row :
    ∀ x ∈ hornerSingle 2 (1 : K) (extMul 2 kd (List.replicate 2 0) [1, 1]) [4, 2] [5, 3] [6, 6], x = 0 := by
  decide

theorem rows_ok : rowsOkGen φ θ 2 kd (1 : K) (fun _ => 0) ops vs none := by
  simp only [ops, vs, evs, cvW, rowsOkGen, opSlots, rowOkValsGen, nextPrevGen, prevAccV, List.take,
    List.drop, List.length, List.map, List.cons_append, List.nil_append, List.getD_cons_zero,
    List.getD_cons_succ]
  exact ⟨trivial, ev_replicate_zero φ θ 2 2, mul_row, add_row, horner_row, trivial⟩

/-- **Non-vacuity of `accepted_sat_gen` at `D = 2`.** -/
theorem accepted_sat_gen_nonvacuous :
    ∃ cv : Nat → List K, vs = (evs.map Prod.fst).map cv ∧
      Sat (fun s => ev φ θ 2 (cv s)) (fun _ => 0) ops :=
  accepted_sat_gen φ θ 2 kd (1 : K) (by norm_num) kindRoot_ok one_ne_zero (fun _ => 0) ops evs reads vs
    slots_ok (by simp [vs]) creators_ok noskip_ok bus_ok chain_ok rows_ok

/-- The theorem's conclusion read off: the MUL relation holds *in `L`* between the ring elements —
`(4 + 2θ) = (1 + θ)·(1 + θ)`, which uses `θ² = 3`. -/
theorem mul_relation_in_L : ev φ θ 2 [1, 1] * ev φ θ 2 [1, 1] = ev φ θ 2 ([4, 2] : List K) :=
  (laneMul_ring φ θ 2 kd kindRoot_ok (1 : K) one_ne_zero _ _ _ mul_row).symm

/-- A forged θ-coefficient of the MUL row's `out` cell is rejected by the row constraints. -/
theorem rows_tampered_rejected :
    ¬ ∀ x ∈ laneEq 2 (1 : K) (extMul 2 kd [1, 1] [1, 1]) [4, 3], x = 0 := by decide

/-- BOOL_CHECK at `D = 2`: a bit with a non-zero higher coefficient is rejected. -/
theorem bool_higher_coeff_rejected :
    (∀ x ∈ laneBool 2 (1 : K) [1, 0], x = 0) ∧ ¬ ∀ x ∈ laneBool 2 (1 : K) [1, 1], x = 0 := by decide

/-- `X² − 3` has no root in `ℤ/7`: `L` is the field `𝔽₄₉`. -/
theorem g_irreducible : Irreducible g := by
  have hm : g.Monic := monic_X_pow_sub_C 3 (by norm_num)
  have hd : g.natDegree = 2 := natDegree_X_pow_sub_C
  rw [hm.irreducible_iff_roots_eq_zero_of_degree_le_three (by omega) (by omega)]
  apply Multiset.eq_zero_of_forall_notMem
  intro x hx
  rw [mem_roots hm.ne_zero] at hx
  have : x ^ 2 - 3 = 0 := by simpa [IsRoot, g] using hx
  clear hx
  revert x
  decide

instance : Fact (Irreducible g) := ⟨g_irreducible⟩

theorem rows_ok' : rowsOkGen φ θ 2 kd (1 : K) (fun _ => 0) ops ((ops.flatMap opSlots).map cvW) none := by
  rw [← slots_ok]; exact rows_ok

/-- the assignment `w s = ev (cvW s)` itself satisfies the circuit (`rowsOk_sat_gen`) -/
theorem sat_cvW : Sat (fun s => ev φ θ 2 (cvW s)) (fun _ => 0) ops :=
  rowsOk_sat_gen φ θ 2 kd (1 : K) (by norm_num) kindRoot_ok one_ne_zero cvW (fun _ => 0)
    (zeroConsts ops)
    (zeroConsts_zero_gen (fun s => ev φ θ 2 (cvW s)) ops
      (rowsOk_const_gen φ θ 2 kd (1 : K) cvW (fun _ => 0) ops none rows_ok'))
    ops none (fun _ _ h => by cases h) (by simpa [hornerChained] using chain_ok) rows_ok'

theorem ops_wf : ∀ o ∈ ops, opWF o = true := by
  intro o ho
  simp only [ops, List.mem_cons, List.not_mem_nil, or_false] at ho
  rcases ho with rfl | rfl | rfl | rfl | rfl <;> rfl

/-- **Non-vacuity of the completeness direction at `D = 2`**: every hypothesis of
`C10.honest_rows_gen` holds for this extension (`CoeffIndep`: `C11.coeffIndep_adjoinRoot_binomial`;
no zero divisors: `L` is a field), and the theorem reproduces — from the relations in `L` alone —
the vanishing of the coefficient-wise row constraints that `rows_ok` checked by computation. -/
theorem honest_rows_gen_nonvacuous :
    rowsOkGen φ θ 2 kd (1 : K) (fun _ => 0) ops ((ops.flatMap opSlots).map cvW) none :=
  C10.honest_rows_gen φ θ 2 kd (1 : K) (coeffIndep_adjoinRoot_binomial 2 (by norm_num) 3) (by norm_num)
    kindRoot_ok one_ne_zero cvW (fun _ => 0) (zeroConsts ops)
    (zeroConsts_zero_gen (fun s => ev φ θ 2 (cvW s)) ops
      (rowsOk_const_gen φ θ 2 kd (1 : K) cvW (fun _ => 0) ops none rows_ok'))
    ops none (fun _ _ h => by cases h) sat_cvW ops_wf (by simpa [hornerChained] using chain_ok)

end P3R.Witness.C04Gen
