/-
C03 — mul+add fusion never drops a relation: the TOTAL theorem.

`P3R.Props.C03Fusion` proves that the certificate check `fusionCheck` is sound; this file proves
that the model's fusion pass (`fuse` / `fuseWithSites`, equal to the Rust `MulAddFusion::run`
line by line on every generated program) passes that check on EVERY input whose plain
`Add` / `Mul` ops carry no `intermediate_out` (`fuseInputOk`). Hence (`fuse_sound_total`): for
every such op list, every assignment satisfying the fused list can be repaired — on the fused
product slots only — into one satisfying the original list.

Structure of the proof:
* `cnt_*`           : the `bump` maps count (use counts = number of reading operand
                      occurrences; writer counts ≥ number of ops whose `out` is the slot);
* `DefsInv`         : a `Mul` entry of `defs` is the op at the recorded position;
* `CandOk`          : a candidate's mul / add are in `ops` at the recorded positions, its product
                      slot is read exactly once and written exactly once;
* `filterValid_sub`,
  `chosen_*`        : the fixpoint and the per-mul choice only drop candidates;
* `fuse_check_c1` … `fuse_check_c5` : the five conjuncts of the check.
The `filter_valid` fixpoint plays no role for C03 (it concerns evaluation order, C02).
-/
import P3R.Props.C03Fusion

namespace P3R.C03
open P3R

variable {K : Type}

/-! ### Counting with `bump` -/

def cnt (m : List (Nat × Nat)) (x : Nat) : Nat := (m.lookup x).getD 0

theorem cnt_bump (m : List (Nat × Nat)) (w x : Nat) :
    cnt (bump m w) x = cnt m x + (if x = w then 1 else 0) := by
  unfold bump cnt
  cases h : m.lookup w with
  | none =>
    by_cases hx : x = w
    · subst hx; simp [List.lookup, h]
    · have : (x == w) = false := by simpa using hx
      simp [List.lookup, this, hx]
  | some n =>
    by_cases hx : x = w
    · subst hx; simp [List.lookup, h]
    · have : (x == w) = false := by simpa using hx
      simp [List.lookup, this, hx]

theorem cnt_foldl_bump (l : List Nat) (m : List (Nat × Nat)) (x : Nat) :
    cnt (l.foldl bump m) x = cnt m x + l.count x := by
  induction l generalizing m with
  | nil => simp
  | cons a l ih =>
    simp only [List.foldl_cons, ih, cnt_bump, List.count_cons]
    by_cases h : x = a
    · subst h; simp; omega
    · have : (a == x) = false := by simpa using fun h' => h h'.symm
      simp [h, this]

/-- Sum of a per-element weight: one position. -/
theorem le_sum_of_getElem? {α} (g : α → Nat) (l : List α) (i : Nat) (x : α) (h : l[i]? = some x) :
    g x ≤ (l.map g).sum := by
  induction l generalizing i with
  | nil => simp at h
  | cons a l ih =>
    cases i with
    | zero => simp at h; subst h; simp
    | succ i => simp at h; have := ih i h; simp; omega

/-- Sum of a per-element weight: two distinct positions. -/
theorem two_le_sum {α} (g : α → Nat) (l : List α) (i j : Nat) (x y : α) (hij : i ≠ j)
    (hi : l[i]? = some x) (hj : l[j]? = some y) : g x + g y ≤ (l.map g).sum := by
  induction l generalizing i j with
  | nil => simp at hi
  | cons a l ih =>
    cases i with
    | zero =>
      cases j with
      | zero => exact absurd rfl hij
      | succ j =>
        simp at hi hj; subst hi
        have := le_sum_of_getElem? g l j y hj
        simp; omega
    | succ i =>
      cases j with
      | zero =>
        simp at hi hj; subst hj
        have := le_sum_of_getElem? g l i x hi
        simp; omega
      | succ j =>
        simp at hi hj
        have := ih i j (by omega) hi hj
        simp; omega

/-! ### Use counts -/

/-- Operand occurrences that `scan_use_counts` counts for an op. -/
def reads : Op K → List Nat
  | .alu k a b c _ io =>
    [a, b] ++ c.toList ++ (match k, io with
      | .horner, some acc => [acc]
      | _, _ => [])
  | .hint ins _ _ => ins
  | .npo ins _ _ _ => ins.flatten
  | _ => []

/-- The slot whose writer count an op bumps through its `out` (Const / Public / Alu). -/
def outSlot : Op K → Option Nat
  | .const out _ => some out
  | .pub out _ => some out
  | .alu _ _ _ _ out _ => some out
  | _ => none

theorem relSlots_sub (op : Op K) (x : Nat) (h : x ∈ op.relSlots) : x ∈ reads op ∨ outSlot op = some x := by
  cases op with
  | const out v => simp [Op.relSlots] at h; simp [outSlot, h]
  | pub out pos => simp [Op.relSlots] at h; simp [outSlot, h]
  | hint _ _ _ => simp [Op.relSlots] at h
  | npo _ _ _ _ => simp [Op.relSlots] at h
  | alu k a b c out io =>
    cases k <;> cases c <;> cases io <;> simp [Op.relSlots] at h <;> simp [reads, outSlot] <;> omega

theorem useStep_eq (m : List (Nat × Nat)) (op : Op K) :
    (match op with
      | .alu k a b c _ io =>
        let m := bump (bump m a) b
        let m := match c with
          | some c => bump m c
          | none => m
        match k, io with
        | .horner, some acc => bump m acc
        | _, _ => m
      | .hint ins _ _ => ins.foldl bump m
      | .npo ins _ _ _ => ins.flatten.foldl bump m
      | _ => m) = (reads op).foldl bump m := by
  cases op with
  | const _ _ => rfl
  | pub _ _ => rfl
  | hint _ _ _ => rfl
  | npo _ _ _ _ => rfl
  | alu k a b c out io =>
    cases k <;> cases c <;> cases io <;> simp [reads, List.foldl_append]

theorem scanUseCounts_eq (ops : Array (Op K)) :
    scanUseCounts ops = ops.toList.foldl (fun m op => (reads op).foldl bump m) [] := by
  unfold scanUseCounts
  rw [← Array.foldl_toList]
  congr 1
  funext m op
  exact useStep_eq m op

theorem cnt_scanUseCounts (ops : Array (Op K)) (x : Nat) :
    cnt (scanUseCounts ops) x = ((ops.toList.map fun op => (reads op).count x)).sum := by
  rw [scanUseCounts_eq]
  have : ∀ (l : List (Op K)) (m : List (Nat × Nat)),
      cnt (l.foldl (fun m op => (reads op).foldl bump m) m) x
        = cnt m x + (l.map fun op => (reads op).count x).sum := by
    intro l
    induction l with
    | nil => intro m; simp
    | cons op l ih =>
      intro m
      rw [List.foldl_cons, ih, cnt_foldl_bump]
      simp; omega
  rw [this]; simp [cnt]

/-! ### `scan_defs` -/

/-- One iteration of `scan_defs` (the body of the fold in `scanDefs`). -/
def defStep (f : Fusion K) (p : Op K × Nat) : Fusion K :=
  let idx := p.2
  match p.1 with
  | .const out v => { f with defs := (out, (idx, .const v)) :: f.defs, writers := bump f.writers out }
  | .alu .mul a b none out _ => (f.trackBackwards idx out b).insertDef out idx (.mul a b)
  | .alu .add _ b none out _ => (f.trackBackwards idx out b).insertDef out idx .other
  | .alu _ _ _ _ out _ => f.insertDef out idx .other
  | .pub out _ => f.insertDef out idx .other
  | .npo _ outs _ _ => outs.flatten.foldl (fun f w => f.insertDef w idx .other) f
  | .hint _ outs _ => outs.foldl (fun f w => f.insertDef w idx .other) f

theorem scanDefs_eq (f : Fusion K) (ops : Array (Op K)) :
    scanDefs f ops = (ops.toList.zipIdx).foldl defStep f := rfl

theorem insertDef_writers (f : Fusion K) (w idx : Nat) (d : OpDef K) :
    (f.insertDef w idx d).writers = bump f.writers w := by
  unfold Fusion.insertDef; dsimp only; split <;> rfl

theorem insertDef_useCounts (f : Fusion K) (w idx : Nat) (d : OpDef K) :
    (f.insertDef w idx d).useCounts = f.useCounts := by
  unfold Fusion.insertDef; dsimp only; split <;> rfl

theorem insertDef_defs (f : Fusion K) (w idx : Nat) (d : OpDef K) :
    (f.insertDef w idx d).defs = f.defs ∨ (f.insertDef w idx d).defs = (w, (idx, d)) :: f.defs := by
  unfold Fusion.insertDef; dsimp only; split
  · left; rfl
  · right; rfl

theorem trackBackwards_writers (f : Fusion K) (idx out computed x : Nat) :
    cnt f.writers x ≤ cnt (f.trackBackwards idx out computed).writers x := by
  unfold Fusion.trackBackwards; split
  · rw [insertDef_writers, cnt_bump]; dsimp only; omega
  · exact Nat.le_refl _

theorem trackBackwards_useCounts (f : Fusion K) (idx out computed : Nat) :
    (f.trackBackwards idx out computed).useCounts = f.useCounts := by
  unfold Fusion.trackBackwards; split
  · rw [insertDef_useCounts]
  · rfl

theorem trackBackwards_defs (f : Fusion K) (idx out computed : Nat) :
    (f.trackBackwards idx out computed).defs = f.defs ∨
    (f.trackBackwards idx out computed).defs = (computed, (idx, .other)) :: f.defs := by
  unfold Fusion.trackBackwards; split
  · exact insertDef_defs _ _ _ _
  · left; rfl

/-- Folding `insert_def … Other` over a list of outputs. -/
theorem foldInsert_props (l : List Nat) (idx : Nat) (f : Fusion K) :
    let f' := l.foldl (fun f w => f.insertDef w idx .other) f
    f'.useCounts = f.useCounts ∧ (∀ x, cnt f.writers x ≤ cnt f'.writers x) ∧
    (∀ w i a b, (w, (i, OpDef.mul a b)) ∈ f'.defs → (w, (i, OpDef.mul a b)) ∈ f.defs) := by
  induction l generalizing f with
  | nil => simp
  | cons a l ih =>
    obtain ⟨h1, h2, h3⟩ := ih (f.insertDef a idx .other)
    refine ⟨?_, ?_, ?_⟩
    · simp only [List.foldl_cons]; rw [h1, insertDef_useCounts]
    · intro x
      simp only [List.foldl_cons]
      refine Nat.le_trans ?_ (h2 x)
      rw [insertDef_writers, cnt_bump]; omega
    · intro w i a' b hm
      simp only [List.foldl_cons] at hm
      have := h3 w i a' b hm
      rcases insertDef_defs f a idx .other with h | h <;> rw [h] at this
      · exact this
      · simpa using this

/-- A `Mul` entry of `defs` is the op at the recorded position. -/
def DefsInv (l : List (Op K)) (f : Fusion K) : Prop :=
  ∀ w i a b, (w, (i, OpDef.mul a b)) ∈ f.defs → ∃ io, l[i]? = some (.alu .mul a b none w io)

/-- Weight of an op in the writer count of slot `x`. -/
def wOut (x : Nat) (op : Op K) : Nat := if outSlot op = some x then 1 else 0

theorem defStep_props (l : List (Op K)) (f : Fusion K) (p : Op K × Nat) (hp : l[p.2]? = some p.1)
    (hinv : DefsInv l f) :
    (defStep f p).useCounts = f.useCounts ∧
    (∀ x, cnt f.writers x + wOut x p.1 ≤ cnt (defStep f p).writers x) ∧
    DefsInv l (defStep f p) := by
  obtain ⟨op, idx⟩ := p
  dsimp only at hp
  -- the generic `insert_def out idx Other` step
  have other : ∀ (out : Nat) (g : Fusion K), g.useCounts = f.useCounts →
      (∀ x, cnt f.writers x ≤ cnt g.writers x) →
      (∀ w i a b, (w, (i, OpDef.mul a b)) ∈ g.defs → (w, (i, OpDef.mul a b)) ∈ f.defs) →
      (g.insertDef out idx .other).useCounts = f.useCounts ∧
      (∀ x, cnt f.writers x + (if out = x then 1 else 0) ≤ cnt (g.insertDef out idx .other).writers x) ∧
      DefsInv l (g.insertDef out idx .other) := by
    intro out g h1 h2 h3
    refine ⟨by rw [insertDef_useCounts, h1], ?_, ?_⟩
    · intro x
      rw [insertDef_writers, cnt_bump]
      have := h2 x
      by_cases hx : x = out
      · subst hx; simp; omega
      · have : ¬ out = x := fun h => hx h.symm
        simp [hx, this]; omega
    · intro w i a b hm
      rcases insertDef_defs g out idx .other with h | h <;> rw [h] at hm
      · exact hinv w i a b (h3 w i a b hm)
      · simp at hm; exact hinv w i a b (h3 w i a b hm)
  cases op with
  | const out v =>
    refine ⟨rfl, ?_, ?_⟩
    · intro x
      simp only [defStep, wOut, outSlot, cnt_bump]
      by_cases hx : x = out
      · subst hx; simp
      · have : ¬ out = x := fun h => hx h.symm
        simp [hx, this]
    · intro w i a b hm
      simp [defStep] at hm
      exact hinv w i a b hm
  | pub out pos =>
    simpa [defStep, wOut, outSlot] using other out f rfl (fun _ => Nat.le_refl _) (fun _ _ _ _ h => h)
  | hint ins outs kind =>
    obtain ⟨h1, h2, h3⟩ := foldInsert_props outs idx f
    refine ⟨h1, ?_, ?_⟩
    · intro x; simpa [defStep, wOut, outSlot] using h2 x
    · intro w i a b hm; exact hinv w i a b (h3 w i a b hm)
  | npo ins outs opId kind =>
    obtain ⟨h1, h2, h3⟩ := foldInsert_props outs.flatten idx f
    refine ⟨h1, ?_, ?_⟩
    · intro x; simpa [defStep, wOut, outSlot] using h2 x
    · intro w i a b hm; exact hinv w i a b (h3 w i a b hm)
  | alu k a b c out io =>
    have tb : ∀ w i a' b', (w, (i, OpDef.mul a' b')) ∈ (f.trackBackwards idx out b).defs →
        (w, (i, OpDef.mul a' b')) ∈ f.defs := by
      intro w i a' b' hm
      rcases trackBackwards_defs f idx out b with h | h <;> rw [h] at hm
      · exact hm
      · simpa using hm
    have viaTB := other out (f.trackBackwards idx out b) (trackBackwards_useCounts _ _ _ _)
      (fun x => trackBackwards_writers f idx out b x) tb
    have direct := other out f rfl (fun _ => Nat.le_refl _) (fun _ _ _ _ h => h)
    cases k with
    | add =>
      cases c with
      | none => simpa [defStep, wOut, outSlot] using viaTB
      | some cv => simpa [defStep, wOut, outSlot] using direct
    | boolCheck => simpa [defStep, wOut, outSlot] using direct
    | mulAdd => simpa [defStep, wOut, outSlot] using direct
    | horner => simpa [defStep, wOut, outSlot] using direct
    | mul =>
      cases c with
      | some cv => simpa [defStep, wOut, outSlot] using direct
      | none =>
        refine ⟨?_, ?_, ?_⟩
        · simp only [defStep]; rw [insertDef_useCounts, trackBackwards_useCounts]
        · intro x
          simp only [defStep, wOut, outSlot]
          rw [insertDef_writers, cnt_bump]
          have := trackBackwards_writers f idx out b x
          by_cases hx : x = out
          · subst hx; simp; omega
          · have : ¬ out = x := fun h => hx h.symm
            simp [hx, this]; omega
        · intro w i a' b' hm
          simp only [defStep] at hm
          rcases insertDef_defs (f.trackBackwards idx out b) out idx (.mul a b) with h | h <;> rw [h] at hm
          · exact hinv w i a' b' (tb w i a' b' hm)
          · simp only [List.mem_cons, Prod.mk.injEq, OpDef.mul.injEq] at hm
            rcases hm with ⟨rfl, rfl, rfl, rfl⟩ | hm
            · exact ⟨io, hp⟩
            · exact hinv w i a' b' (tb w i a' b' hm)

theorem foldDefStep_props (l : List (Op K)) (ps : List (Op K × Nat)) (f : Fusion K)
    (hps : ∀ p ∈ ps, l[p.2]? = some p.1) (hinv : DefsInv l f) :
    (ps.foldl defStep f).useCounts = f.useCounts ∧
    (∀ x, cnt f.writers x + (ps.map fun p => wOut x p.1).sum ≤ cnt (ps.foldl defStep f).writers x) ∧
    DefsInv l (ps.foldl defStep f) := by
  induction ps generalizing f with
  | nil => exact ⟨rfl, fun x => by simp, hinv⟩
  | cons p ps ih =>
    obtain ⟨h1, h2, h3⟩ := defStep_props l f p (hps p (by simp)) hinv
    obtain ⟨k1, k2, k3⟩ := ih (defStep f p) (fun q hq => hps q (by simp [hq])) h3
    refine ⟨by simp only [List.foldl_cons]; rw [k1, h1], ?_, by simpa using k3⟩
    intro x
    have a := h2 x
    have b := k2 x
    simp only [List.foldl_cons, List.map_cons, List.sum_cons]
    omega

theorem lookup_mem {β} (l : List (Nat × β)) (k : Nat) (v : β) (h : l.lookup k = some v) : (k, v) ∈ l := by
  induction l with
  | nil => simp at h
  | cons a l ih =>
    obtain ⟨k', v'⟩ := a
    by_cases hk : k = k'
    · subst hk; simp [List.lookup] at h; simp [h]
    · have : (k == k') = false := by simpa using hk
      simp [List.lookup, this] at h
      simp [ih h]

/-- What `MulAddFusion::with_inputs` establishes. -/
theorem new_props (ops : Array (Op K)) (inputs : List Nat) :
    (∀ x, (Fusion.new ops inputs).uses x = (ops.toList.map fun op => (reads op).count x).sum) ∧
    (∀ x, (ops.toList.map (wOut x)).sum ≤ cnt (Fusion.new ops inputs).writers x) ∧
    DefsInv ops.toList (Fusion.new ops inputs) := by
  unfold Fusion.new
  rw [scanDefs_eq]
  obtain ⟨h1, h2, h3⟩ := foldDefStep_props ops.toList ops.toList.zipIdx
    { useCounts := scanUseCounts ops, defs := [], backwards := [], inputs := inputs, writers := [] }
    (fun p hp => List.mem_zipIdx_iff_getElem?.mp hp) (by intro w i a b hm; simp at hm)
  refine ⟨?_, ?_, h3⟩
  · intro x
    unfold Fusion.uses
    rw [h1]
    exact cnt_scanUseCounts ops x
  · intro x
    have := h2 x
    have e : (ops.toList.zipIdx.map fun p => wOut x p.1) = ops.toList.map (wOut x) := by
      rw [show (fun p : Op K × Nat => wOut x p.1) = (wOut x) ∘ Prod.fst from rfl, ← List.map_map,
        List.zipIdx_map_fst]
    rw [e] at this
    simpa [cnt] using this

/-! ### Candidates -/

/-- What `try_fuse` returns, and why. -/
theorem tryFuse_some (f : Fusion K) (mr ad out ai : Nat) (c : Cand K) (h : f.tryFuse mr ad out ai = some c) :
    ∃ mi ma mb, f.defs.lookup mr = some (mi, .mul ma mb) ∧ f.uses mr = 1 ∧ cnt f.writers mr = 1 ∧
      c = { addIdx := ai, mulIdx := mi, op := .alu .mulAdd ma mb (some ad) out (some mr),
            addend := ad, out := out } := by
  unfold Fusion.tryFuse at h
  split at h
  · next mi ma mb hl =>
    split_ifs at h with h1 h2 h3 h4 h5
    simp only [Option.some.injEq] at h
    simp only [Bool.or_eq_true, decide_eq_true_eq, not_or, ne_eq, Decidable.not_not] at h1 h2
    exact ⟨mi, ma, mb, hl, h1.1, h2.1, h.symm⟩
  · simp at h

/-- The per-position candidate function of `identify_candidates`. -/
def candOf (f : Fusion K) (p : Op K × Nat) : Option (Cand K) :=
  match p.1 with
  | .alu .add a b none out _ =>
    if f.isConst out || f.isBackwards p.2 out then none
    else match f.tryFuse a b out p.2 with
      | some c => some c
      | none => f.tryFuse b a out p.2
  | _ => none

theorem candidates_eq (f : Fusion K) (ops : Array (Op K)) :
    f.candidates ops = (ops.toList.zipIdx).filterMap (candOf f) := rfl

/-- A candidate's mul and add are in `ops` at the recorded positions; its product slot is read
by exactly one operand occurrence and written by exactly one op. -/
structure CandOk (l : List (Op K)) (c : Cand K) : Prop where
  ex : ∃ ma mb m x y ioA ioM,
    c.op = .alu .mulAdd ma mb (some c.addend) c.out (some m) ∧
    l[c.mulIdx]? = some (.alu .mul ma mb none m ioM) ∧
    l[c.addIdx]? = some (.alu .add x y none c.out ioA) ∧
    ((x = m ∧ y = c.addend) ∨ (x = c.addend ∧ y = m)) ∧
    (l.map fun op => (reads op).count m).sum = 1 ∧
    (l.map (wOut m)).sum ≤ 1

theorem candOf_ok (ops : Array (Op K)) (inputs : List Nat) (p : Op K × Nat) (c : Cand K)
    (hp : ops.toList[p.2]? = some p.1) (h : candOf (Fusion.new ops inputs) p = some c) :
    c.addIdx = p.2 ∧ CandOk ops.toList c := by
  obtain ⟨huse, hwr, hdefs⟩ := new_props ops inputs
  obtain ⟨op, idx⟩ := p
  dsimp only at hp
  have key : ∀ a b out io mr ad, op = .alu .add a b none out io →
      (Fusion.new ops inputs).tryFuse mr ad out idx = some c →
      ((a = mr ∧ b = ad) ∨ (a = ad ∧ b = mr)) → c.addIdx = idx ∧ CandOk ops.toList c := by
    intro a b out io mr ad hop ht hor
    subst hop
    obtain ⟨mi, ma, mb, hl, hu, hw, rfl⟩ := tryFuse_some _ _ _ _ _ _ ht
    obtain ⟨ioM, hmul⟩ := hdefs mr mi ma mb (lookup_mem _ _ _ hl)
    refine ⟨rfl, ⟨ma, mb, mr, a, b, io, ioM, rfl, hmul, hp, hor, ?_, ?_⟩⟩
    · rw [← huse, hu]
    · have := hwr mr; omega
  cases op with
  | const _ _ => simp [candOf] at h
  | pub _ _ => simp [candOf] at h
  | hint _ _ _ => simp [candOf] at h
  | npo _ _ _ _ => simp [candOf] at h
  | alu k a b c out io =>
    cases k <;> cases c <;> try (simp [candOf] at h; done)
    simp only [candOf] at h
    split_ifs at h
    split at h
    · next c' ht =>
      simp only [Option.some.injEq] at h; subst h
      exact key a b out io a b rfl ht (Or.inl ⟨rfl, rfl⟩)
    · exact key a b out io b a rfl h (Or.inr ⟨rfl, rfl⟩)

theorem candidates_ok (ops : Array (Op K)) (inputs : List Nat) (c : Cand K)
    (h : c ∈ (Fusion.new ops inputs).candidates ops) :
    CandOk ops.toList c ∧
    ∃ op, ops.toList[c.addIdx]? = some op ∧ candOf (Fusion.new ops inputs) (op, c.addIdx) = some c := by
  rw [candidates_eq, List.mem_filterMap] at h
  obtain ⟨p, hp, hc⟩ := h
  have hp' := List.mem_zipIdx_iff_getElem?.mp hp
  obtain ⟨h1, h2⟩ := candOf_ok ops inputs p c hp' hc
  refine ⟨h2, p.1, ?_, ?_⟩
  · rw [h1]; exact hp'
  · rw [h1]; exact hc

/-! ### `filter_valid` and the per-mul choice only drop candidates -/

theorem filterValid_sub (f : Fusion K) (fuel : Nat) (v : List (Cand K)) :
    ∀ c ∈ f.filterValid fuel v, c ∈ v := by
  induction fuel generalizing v with
  | zero => intro c h; exact h
  | succ fuel ih =>
    intro c h
    unfold Fusion.filterValid at h
    dsimp only at h
    split_ifs at h
    · exact h
    · have := ih _ c h
      unfold Fusion.filterRound at this
      exact (List.mem_filter.mp this).1

/-- The candidates `apply` acts on: the first candidate per mul position. -/
def chosenOf (valid : List (Cand K)) : List (Cand K) :=
  valid.foldl (fun (acc : List (Cand K)) c =>
    if acc.any (fun d => d.mulIdx = c.mulIdx) then acc else acc ++ [c]) []

theorem chosen_fold_props (valid acc : List (Cand K)) :
    let r := valid.foldl (fun (acc : List (Cand K)) c =>
      if acc.any (fun d => d.mulIdx = c.mulIdx) then acc else acc ++ [c]) acc
    (∀ c ∈ r, c ∈ acc ∨ c ∈ valid) ∧
    ((∀ c ∈ acc, ∀ c' ∈ acc, c.mulIdx = c'.mulIdx → c = c') →
      ∀ c ∈ r, ∀ c' ∈ r, c.mulIdx = c'.mulIdx → c = c') := by
  induction valid generalizing acc with
  | nil => simp
  | cons v valid ih =>
    simp only [List.foldl_cons]
    by_cases hany : acc.any (fun d => d.mulIdx = v.mulIdx) = true
    · rw [if_pos hany]
      obtain ⟨h1, h2⟩ := ih acc
      refine ⟨fun c hc => ?_, h2⟩
      rcases h1 c hc with h | h
      · exact Or.inl h
      · exact Or.inr (by simp [h])
    · rw [if_neg hany]
      obtain ⟨h1, h2⟩ := ih (acc ++ [v])
      refine ⟨fun c hc => ?_, fun hinj => h2 ?_⟩
      · rcases h1 c hc with h | h
        · rcases List.mem_append.mp h with h | h
          · exact Or.inl h
          · simp at h; subst h; exact Or.inr (by simp)
        · exact Or.inr (by simp [h])
      · have hno : ∀ d ∈ acc, d.mulIdx ≠ v.mulIdx := by
          intro d hd he
          exact hany (List.any_eq_true.mpr ⟨d, hd, by simpa using he⟩)
        intro c hc c' hc' he
        rcases List.mem_append.mp hc with h | h <;> rcases List.mem_append.mp hc' with h' | h'
        · exact hinj c h c' h' he
        · simp at h'; subst h'; exact absurd he (hno c h)
        · simp at h; subst h; exact absurd he.symm (hno c' h')
        · simp at h h'; rw [h, h']

/-- What the main argument needs of the chosen candidates. -/
structure ChosenOk (l : List (Op K)) (ch : List (Cand K)) : Prop where
  ok : ∀ c ∈ ch, CandOk l c
  detAdd : ∀ c ∈ ch, ∀ c' ∈ ch, c.addIdx = c'.addIdx → c = c'
  detMul : ∀ c ∈ ch, ∀ c' ∈ ch, c.mulIdx = c'.mulIdx → c = c'

/-- The per-position function of `apply`. -/
def applyF (ch : List (Cand K)) (p : Op K × Nat) : Option (Op K) :=
  if ch.any (fun c => c.addIdx = p.2) then none
  else match ch.find? (fun c => c.mulIdx = p.2) with
    | some c => some c.op
    | none => some p.1

/-- The candidates the model's pass finally acts on. -/
def chosenFor (ops : Array (Op K)) (inputs : List Nat) : List (Cand K) :=
  chosenOf ((Fusion.new ops inputs).filterValid (((Fusion.new ops inputs).candidates ops).length + 1)
    ((Fusion.new ops inputs).candidates ops))

theorem fuseWithSites_eq (ops : Array (Op K)) (inputs : List Nat) :
    fuseWithSites ops inputs =
      (((ops.toList.zipIdx).filterMap (applyF (chosenFor ops inputs))).toArray,
       (chosenFor ops inputs).filterMap siteOfCand) := rfl

theorem chosenFor_ok (ops : Array (Op K)) (inputs : List Nat) :
    ChosenOk ops.toList (chosenFor ops inputs) := by
  have hsub : ∀ c ∈ chosenFor ops inputs, c ∈ (Fusion.new ops inputs).candidates ops := by
    intro c hc
    rcases (chosen_fold_props _ []).1 c hc with h | h
    · simp at h
    · exact filterValid_sub _ _ _ c h
  refine ⟨fun c hc => (candidates_ok ops inputs c (hsub c hc)).1, ?_, ?_⟩
  · intro c hc c' hc' he
    obtain ⟨_, op, h1, h2⟩ := candidates_ok ops inputs c (hsub c hc)
    obtain ⟨_, op', h1', h2'⟩ := candidates_ok ops inputs c' (hsub c' hc')
    rw [he] at h1 h2
    rw [h1] at h1'
    simp only [Option.some.injEq] at h1'; subst h1'
    rw [h2] at h2'
    exact Option.some.inj h2'
  · exact (chosen_fold_props _ []).2 (by simp)

/-! ### Separation: the product slot of a chosen candidate is private -/

theorem reads_add (x y o : Nat) (io : Option Nat) : reads (.alu .add x y none o io : Op K) = [x, y] := by
  cases io <;> rfl
theorem reads_mul (x y o : Nat) (io : Option Nat) : reads (.alu .mul x y none o io : Op K) = [x, y] := by
  cases io <;> rfl

theorem sum_sep {α} (g : α → Nat) (l : List α) (i j : Nat) (x y : α) (hij : i ≠ j)
    (hi : l[i]? = some x) (hj : l[j]? = some y) (hsum : (l.map g).sum ≤ 1) (hx : 1 ≤ g x) : g y = 0 := by
  have := two_le_sum g l i j x y hij hi hj
  omega

/-- An op at a position that is neither the candidate's add nor its mul does not mention the
candidate's product slot. -/
theorem sep_orig (l : List (Op K)) (c : Cand K) (hc : CandOk l c) (q : Nat) (op : Op K)
    (hq : l[q]? = some op) (hqa : q ≠ c.addIdx) (hqm : q ≠ c.mulIdx)
    (ma mb ad o m : Nat) (hop : c.op = .alu .mulAdd ma mb (some ad) o (some m)) :
    m ∉ op.relSlots := by
  obtain ⟨ma', mb', m', x, y, ioA, ioM, h_op, h_mul, h_add, h_or, h_r, h_w⟩ := hc.ex
  rw [hop] at h_op
  simp only [Op.alu.injEq, Option.some.injEq, true_and] at h_op
  obtain ⟨rfl, rfl, rfl, rfl, rfl⟩ := h_op
  intro hm
  rcases relSlots_sub op m hm with h | h
  · have h1 : 1 ≤ (reads (.alu .add x y none c.out ioA : Op K)).count m := by
      rw [reads_add]; rcases h_or with ⟨rfl, _⟩ | ⟨_, rfl⟩ <;> simp [List.count_cons]
    have := sum_sep (fun op => (reads op).count m) l c.addIdx q _ op (Ne.symm hqa) h_add hq (by omega) h1
    exact (List.count_eq_zero.mp this) h
  · have h1 : 1 ≤ wOut m (.alu .mul ma mb none m ioM : Op K) := by simp [wOut, outSlot]
    have := sum_sep (wOut m) l c.mulIdx q _ op (Ne.symm hqm) h_mul hq h_w h1
    simp [wOut, h] at this

/-- The fused row of a chosen candidate does not mention the product slot of any chosen
candidate (its own included). -/
theorem sep_fused (l : List (Op K)) (ch : List (Cand K)) (hch : ChosenOk l ch)
    (c : Cand K) (hc : c ∈ ch) (c' : Cand K) (hc' : c' ∈ ch)
    (ma mb ad o m : Nat) (hop : c.op = .alu .mulAdd ma mb (some ad) o (some m)) :
    m ∉ c'.op.relSlots := by
  obtain ⟨ma0, mb0, m0, x, y, ioA, ioM, h_op, h_mul, h_add, h_or, h_r, h_w⟩ := (hch.ok c hc).ex
  rw [hop] at h_op
  simp only [Op.alu.injEq, Option.some.injEq, true_and] at h_op
  obtain ⟨rfl, rfl, rfl, rfl, rfl⟩ := h_op
  obtain ⟨ma', mb', m', x', y', ioA', ioM', h_op', h_mul', h_add', h_or', h_r', h_w'⟩ := (hch.ok c' hc').ex
  have hadd1 : 1 ≤ (reads (.alu .add x y none c.out ioA : Op K)).count m := by
    rw [reads_add]; rcases h_or with ⟨rfl, _⟩ | ⟨_, rfl⟩ <;> simp [List.count_cons]
  have hmul1 : 1 ≤ wOut m (.alu .mul ma mb none m ioM : Op K) := by simp [wOut, outSlot]
  -- the mul of c' does not read m
  have hmulread : m ∉ reads (.alu .mul ma' mb' none m' ioM' : Op K) := by
    intro hin
    by_cases he : c.addIdx = c'.mulIdx
    · rw [he, h_mul'] at h_add; simp at h_add
    · have := sum_sep (fun op => (reads op).count m) l c.addIdx c'.mulIdx _ _ he h_add h_mul' (by omega) hadd1
      exact (List.count_eq_zero.mp this) hin
  rw [reads_mul] at hmulread
  -- the add of c' does not write m
  have haddwrite : c'.out ≠ m := by
    intro hin
    by_cases he : c.mulIdx = c'.addIdx
    · rw [he, h_add'] at h_mul; simp at h_mul
    · have := sum_sep (wOut m) l c.mulIdx c'.addIdx _ _ he h_mul h_add' h_w hmul1
      simp [wOut, outSlot, hin] at this
  -- the add of c' does not read m as its addend
  have haddend : c'.addend ≠ m := by
    intro hin
    by_cases he : c.addIdx = c'.addIdx
    · have := hch.detAdd c hc c' hc' he
      subst this
      have h2 : 2 ≤ (reads (.alu .add x y none c.out ioA : Op K)).count m := by
        rw [reads_add]; rcases h_or with ⟨rfl, rfl⟩ | ⟨rfl, rfl⟩ <;> simp [List.count_cons, hin]
      have := le_sum_of_getElem? (fun op => (reads op).count m) l c.addIdx _ h_add
      omega
    · have := sum_sep (fun op => (reads op).count m) l c.addIdx c'.addIdx _ _ he h_add h_add' (by omega) hadd1
      rw [reads_add] at this
      have hin' : m ∈ [x', y'] := by rcases h_or' with ⟨_, rfl⟩ | ⟨rfl, _⟩ <;> simp [hin]
      exact (List.count_eq_zero.mp this) hin'
  rw [h_op']
  simp only [Op.relSlots, Option.toList, List.mem_append, List.mem_cons, List.not_mem_nil, or_false, not_or]
  simp only [List.mem_cons, List.not_mem_nil, or_false, not_or] at hmulread
  exact ⟨⟨hmulread.1, hmulread.2, fun h => haddwrite h.symm⟩, fun h => haddend h.symm⟩

/-! ### The five conjuncts of the certificate check -/

theorem site_of_chosen (l : List (Op K)) (c : Cand K) (hc : CandOk l c) (s : FuseSite)
    (hs : siteOfCand c = some s) :
    c.op = .alu .mulAdd s.a s.b (some s.addend) s.out (some s.m) ∧ s.addend = c.addend ∧ s.out = c.out := by
  obtain ⟨ma, mb, m, x, y, ioA, ioM, h_op, _⟩ := hc.ex
  unfold siteOfCand at hs
  rw [h_op] at hs
  simp only [Option.some.injEq] at hs
  subst hs
  exact ⟨h_op, rfl, rfl⟩

theorem mem_sites {ch : List (Cand K)} {s : FuseSite} (h : s ∈ ch.filterMap siteOfCand) :
    ∃ c ∈ ch, siteOfCand c = some s := List.mem_filterMap.mp h

theorem find_chosen (l : List (Op K)) (ch : List (Cand K)) (hch : ChosenOk l ch) (c : Cand K) (hc : c ∈ ch) :
    ch.find? (fun d => d.mulIdx = c.mulIdx) = some c := by
  cases hf : ch.find? (fun d => decide (d.mulIdx = c.mulIdx)) with
  | none =>
    rw [List.find?_eq_none] at hf
    exact absurd (by simp) (hf c hc)
  | some d =>
    have h1 := List.find?_some hf
    have h2 := List.mem_of_find?_eq_some hf
    rw [hch.detMul d h2 c hc (by simpa using h1)]

section
variable [DecidableEq K]

/-- Generic form over any family of chosen candidates with the three invariants. -/
theorem gen_c4 (l : List (Op K)) (ch : List (Cand K)) (hch : ChosenOk l ch) :
    ((ch.filterMap siteOfCand).all fun s =>
      ((l.zipIdx).filterMap (applyF ch)).all fun op => !(op.relSlots.contains s.m)) = true := by
  simp only [List.all_eq_true, Bool.not_eq_true', List.contains_eq_mem, decide_eq_false_iff_not]
  intro s hs op hop
  obtain ⟨c, hc, hsc⟩ := mem_sites hs
  obtain ⟨hcop, _, _⟩ := site_of_chosen l c (hch.ok c hc) s hsc
  obtain ⟨p, hp, hpo⟩ := List.mem_filterMap.mp hop
  have hp' := List.mem_zipIdx_iff_getElem?.mp hp
  unfold applyF at hpo
  split_ifs at hpo with hany
  split at hpo
  · next c' hf =>
    simp only [Option.some.injEq] at hpo; subst hpo
    exact sep_fused l ch hch c hc c' (List.mem_of_find?_eq_some hf) _ _ _ _ _ hcop
  · next hf =>
    simp only [Option.some.injEq] at hpo; subst hpo
    rw [List.find?_eq_none] at hf
    have hqa : p.2 ≠ c.addIdx := by
      intro he
      exact hany (List.any_eq_true.mpr ⟨c, hc, by simpa using he.symm⟩)
    have hqm : p.2 ≠ c.mulIdx := by
      intro he
      exact hf c hc (by simpa using he.symm)
    exact sep_orig l c (hch.ok c hc) p.2 p.1 hp' hqa hqm _ _ _ _ _ hcop

theorem gen_c3 (l : List (Op K)) (ch : List (Cand K)) (hch : ChosenOk l ch) :
    ((ch.filterMap siteOfCand).all fun s =>
      s.m != s.a && s.m != s.b && s.m != s.addend && s.m != s.out) = true := by
  simp only [List.all_eq_true, Bool.and_eq_true, bne_iff_ne, ne_eq]
  intro s hs
  obtain ⟨c, hc, hsc⟩ := mem_sites hs
  obtain ⟨hcop, _, _⟩ := site_of_chosen l c (hch.ok c hc) s hsc
  have := sep_fused l ch hch c hc c hc _ _ _ _ _ hcop
  rw [hcop] at this
  simp only [Op.relSlots, Option.toList, List.mem_append, List.mem_cons, List.not_mem_nil, or_false,
    not_or] at this
  exact ⟨⟨⟨this.1.1, this.1.2.1⟩, this.2⟩, this.1.2.2⟩

theorem gen_c5 (l : List (Op K)) (ch : List (Cand K)) (hch : ChosenOk l ch) :
    ((ch.filterMap siteOfCand).all fun s =>
      (ch.filterMap siteOfCand).all fun t => s == t || s.m != t.m) = true := by
  simp only [List.all_eq_true, Bool.or_eq_true, beq_iff_eq, bne_iff_ne, ne_eq]
  intro s hs t ht
  by_cases hm : s.m = t.m
  · left
    obtain ⟨c, hc, hsc⟩ := mem_sites hs
    obtain ⟨c', hc', hsc'⟩ := mem_sites ht
    obtain ⟨hcop, _, _⟩ := site_of_chosen l c (hch.ok c hc) s hsc
    obtain ⟨hcop', _, _⟩ := site_of_chosen l c' (hch.ok c' hc') t hsc'
    obtain ⟨ma, mb, m, x, y, ioA, ioM, h_op, h_mul, _, _, _, h_w⟩ := (hch.ok c hc).ex
    obtain ⟨ma', mb', m', x', y', ioA', ioM', h_op', h_mul', _, _, _, _⟩ := (hch.ok c' hc').ex
    rw [hcop] at h_op; rw [hcop'] at h_op'
    simp only [Op.alu.injEq, Option.some.injEq, true_and] at h_op h_op'
    have e1 : s.m = m := h_op.2.2.2.2
    have e2 : t.m = m' := h_op'.2.2.2.2
    have hmm : m' = m := by rw [← e1, ← e2, hm]
    have hidx : c.mulIdx = c'.mulIdx := by
      by_contra hne
      have := two_le_sum (wOut m) l c.mulIdx c'.mulIdx _ _ hne h_mul h_mul'
      simp [wOut, outSlot, hmm] at this
      omega
    have := hch.detMul c hc c' hc' hidx
    subst this
    rw [hsc] at hsc'
    exact Option.some.inj hsc'
  · right; exact hm

theorem gen_c2 (l : List (Op K)) (ch : List (Cand K)) (hch : ChosenOk l ch) :
    ((ch.filterMap siteOfCand).all fun s =>
      ((l.zipIdx).filterMap (applyF ch)).contains (s.fused : Op K)) = true := by
  simp only [List.all_eq_true, List.contains_eq_mem, decide_eq_true_eq]
  intro s hs
  obtain ⟨c, hc, hsc⟩ := mem_sites hs
  obtain ⟨hcop, _, _⟩ := site_of_chosen l c (hch.ok c hc) s hsc
  obtain ⟨ma, mb, m, x, y, ioA, ioM, _, h_mul, _, _, _, _⟩ := (hch.ok c hc).ex
  refine List.mem_filterMap.mpr ⟨(_, c.mulIdx), List.mem_zipIdx_iff_getElem?.mpr h_mul, ?_⟩
  unfold applyF
  have hany : ¬ ch.any (fun c' => decide (c'.addIdx = c.mulIdx)) = true := by
    intro h
    obtain ⟨c', hc', he⟩ := List.any_eq_true.mp h
    obtain ⟨_, _, _, x', y', ioA', _, _, _, h_add', _⟩ := (hch.ok c' hc').ex
    simp only [decide_eq_true_eq] at he
    rw [he, h_mul] at h_add'
    simp at h_add'
  dsimp only
  rw [if_neg hany, find_chosen l ch hch c hc]
  simp [FuseSite.fused, hcop]

theorem gen_c1 (l : List (Op K)) (ch : List (Cand K)) (hch : ChosenOk l ch)
    (hshape : l.all fusableShape = true) :
    (l.all fun op => ((l.zipIdx).filterMap (applyF ch)).contains op ||
      (ch.filterMap siteOfCand).any fun s => op == s.mulOp || op == s.addOp1 || op == s.addOp2) = true := by
  simp only [List.all_eq_true, Bool.or_eq_true, List.contains_eq_mem, decide_eq_true_eq,
    List.any_eq_true, beq_iff_eq]
  intro op hop
  obtain ⟨q, hq⟩ := List.mem_iff_getElem?.mp hop
  have hsh := (List.all_eq_true.mp hshape) op hop
  by_cases hany : ch.any (fun c => decide (c.addIdx = q)) = true
  · -- the add of a site
    right
    obtain ⟨c, hc, he⟩ := List.any_eq_true.mp hany
    simp only [decide_eq_true_eq] at he
    obtain ⟨ma, mb, m, x, y, ioA, ioM, h_op, _, h_add, h_or, _, _⟩ := (hch.ok c hc).ex
    rw [he, hq] at h_add
    simp only [Option.some.injEq] at h_add; subst h_add
    have hio : ioA = none := by cases ioA <;> simp_all [fusableShape]
    subst hio
    have hs : siteOfCand c = some ⟨ma, mb, c.addend, c.out, m⟩ := by unfold siteOfCand; rw [h_op]
    refine ⟨_, List.mem_filterMap.mpr ⟨c, hc, hs⟩, ?_⟩
    rcases h_or with ⟨rfl, rfl⟩ | ⟨rfl, rfl⟩
    · left; right; rfl
    · right; rfl
  · cases hf : ch.find? (fun c => decide (c.mulIdx = q)) with
    | some c =>
      -- the mul of a site
      right
      have hc := List.mem_of_find?_eq_some hf
      have he := List.find?_some hf
      simp only [decide_eq_true_eq] at he
      obtain ⟨ma, mb, m, x, y, ioA, ioM, h_op, h_mul, _, _, _, _⟩ := (hch.ok c hc).ex
      rw [he, hq] at h_mul
      simp only [Option.some.injEq] at h_mul; subst h_mul
      have hio : ioM = none := by cases ioM <;> simp_all [fusableShape]
      subst hio
      have hs : siteOfCand c = some ⟨ma, mb, c.addend, c.out, m⟩ := by unfold siteOfCand; rw [h_op]
      exact ⟨_, List.mem_filterMap.mpr ⟨c, hc, hs⟩, Or.inl (Or.inl rfl)⟩
    | none =>
      left
      refine List.mem_filterMap.mpr ⟨(op, q), List.mem_zipIdx_iff_getElem?.mpr hq, ?_⟩
      unfold applyF
      dsimp only
      rw [if_neg hany, hf]

end

/-! ### The model's pass -/

theorem fuse_eq_fst (ops : Array (Op K)) (inputs : List Nat) :
    fuse ops inputs = (fuseWithSites ops inputs).1 := rfl

section
variable [DecidableEq K]

/-- (1) every original op survives or is the mul / add of a fused site. The only conjunct that
needs the shape hypothesis. -/
theorem fuse_check_c1 (ops : Array (Op K)) (inputs : List Nat) (h : fuseInputOk ops inputs = true) :
    (ops.toList.all fun op => (fuseWithSites ops inputs).1.toList.contains op ||
      (fuseWithSites ops inputs).2.any fun s => op == s.mulOp || op == s.addOp1 || op == s.addOp2) = true := by
  rw [fuseWithSites_eq]
  exact gen_c1 ops.toList _ (chosenFor_ok ops inputs) h

/-- (2) every site's fused row is in the result (unconditional). -/
theorem fuse_check_c2 (ops : Array (Op K)) (inputs : List Nat) :
    ((fuseWithSites ops inputs).2.all fun s =>
      (fuseWithSites ops inputs).1.toList.contains (s.fused : Op K)) = true := by
  rw [fuseWithSites_eq]
  exact gen_c2 ops.toList _ (chosenFor_ok ops inputs)

/-- (3) a product slot differs from its site's operands, addend and output (unconditional). -/
theorem fuse_check_c3 (ops : Array (Op K)) (inputs : List Nat) :
    ((fuseWithSites ops inputs).2.all fun s =>
      s.m != s.a && s.m != s.b && s.m != s.addend && s.m != s.out) = true := by
  rw [fuseWithSites_eq]
  exact gen_c3 ops.toList _ (chosenFor_ok ops inputs)

/-- (4) no relation of the result mentions a product slot (unconditional): the use count 1 and
the writer count 1 that `try_fuse` demands really mean "read by the add only, written by the
mul only". -/
theorem fuse_check_c4 (ops : Array (Op K)) (inputs : List Nat) :
    ((fuseWithSites ops inputs).2.all fun s =>
      (fuseWithSites ops inputs).1.toList.all fun op => !(op.relSlots.contains s.m)) = true := by
  rw [fuseWithSites_eq]
  exact gen_c4 ops.toList _ (chosenFor_ok ops inputs)

/-- (5) distinct sites have distinct product slots (unconditional). -/
theorem fuse_check_c5 (ops : Array (Op K)) (inputs : List Nat) :
    ((fuseWithSites ops inputs).2.all fun s =>
      (fuseWithSites ops inputs).2.all fun t => s == t || s.m != t.m) = true := by
  rw [fuseWithSites_eq]
  exact gen_c5 ops.toList _ (chosenFor_ok ops inputs)

/-- **C03 / fusion, total.** The model's fusion pass passes its certificate check on every
input whose plain `Add` / `Mul` ops carry no `intermediate_out`. -/
theorem fuse_passes_check (ops : Array (Op K)) (inputs : List Nat) (h : fuseInputOk ops inputs = true) :
    let r := fuseWithSites ops inputs
    fusionCheck ops.toList r.1.toList r.2 = true := by
  intro r
  unfold fusionCheck
  simp only [Bool.and_eq_true]
  exact ⟨⟨⟨⟨fuse_check_c1 ops inputs h, fuse_check_c2 ops inputs⟩, fuse_check_c3 ops inputs⟩,
    fuse_check_c4 ops inputs⟩, fuse_check_c5 ops inputs⟩

end

/-- **C03 / fusion, total.** For every well-shaped op list and every assignment `w` that
satisfies the fused list, there is an assignment that satisfies the original list and agrees
with `w` off the fused product slots. No hypothesis on `w`, on the order of the ops, on
aliasing or on the number of writers of a slot: the pass protects itself. -/
theorem fuse_sound_total {K : Type} [CommRing K] [DecidableEq K] (ops : Array (Op K)) (inputs : List Nat)
    (h : fuseInputOk ops inputs = true) (w pub : Nat → K) (hsat : Sat w pub (fuse ops inputs).toList) :
    ∃ w' : Nat → K, (∀ x, (∀ s ∈ (fuseWithSites ops inputs).2, s.m ≠ x) → w' x = w x) ∧
      Sat w' pub ops.toList :=
  fusion_check_sound ops.toList (fuseWithSites ops inputs).1.toList (fuseWithSites ops inputs).2
    (fuse_passes_check ops inputs h) w pub (by rw [← fuse_eq_fst]; exact hsat)

/-- The same for the whole optimiser entry point after de-duplication: the op list `optimize`
returns implies (up to the product slots) the de-duplicated list it was computed from. -/
theorem optimize_fusion_sound {K : Type} [CommRing K] [DecidableEq K] (ops : Array (Op K)) (privRows : List Nat)
    (h : fuseInputOk (dedup ops).1 (privRows.map (resolve (dedup ops).2)) = true) (w pub : Nat → K)
    (hsat : Sat w pub (optimize ops privRows).1.toList) :
    ∃ w' : Nat → K,
      (∀ x, (∀ s ∈ (fuseWithSites (dedup ops).1 (privRows.map (resolve (dedup ops).2))).2, s.m ≠ x) → w' x = w x) ∧
      Sat w' pub (dedup ops).1.toList :=
  fuse_sound_total (dedup ops).1 _ h w pub hsat

/-! ### The hypothesis survives de-duplication -/

theorem fusableShape_rewrite (rw : Rewrite) (op : Op K) :
    fusableShape (op.rewrite rw) = fusableShape op := by
  cases op with
  | alu k a b c out io => cases k <;> cases c <;> cases io <;> rfl
  | _ => rfl

theorem dedup_step_shape (s : DedupState K) (op : Op K)
    (hs : ∀ e ∈ s.out.toList, fusableShape e = true) (hop : fusableShape op = true) :
    ∀ e ∈ (s.step op).out.toList, fusableShape e = true := by
  have h' : fusableShape (op.rewrite s.rw) = true := by rw [fusableShape_rewrite]; exact hop
  have push : ∀ e ∈ (s.out.push (op.rewrite s.rw)).toList, fusableShape e = true := by
    intro e he
    simp only [Array.toList_push, List.mem_append, List.mem_cons, List.not_mem_nil, or_false] at he
    rcases he with he | rfl
    · exact hs e he
    · exact h'
  unfold DedupState.step
  dsimp only
  split
  · split
    · split
      · exact hs
      · exact hs
    · exact push
  · exact push

/-- `fuseInputOk` of the lowering's output carries over to the input of the fusion pass
(the output of `Deduplicator::run`). -/
theorem dedup_preserves_shape (ops : Array (Op K)) (inputs inputs' : List Nat)
    (h : fuseInputOk ops inputs = true) : fuseInputOk (dedup ops).1 inputs' = true := by
  unfold fuseInputOk at *
  rw [List.all_eq_true] at *
  have : ∀ (l : List (Op K)) (s : DedupState K), (∀ e ∈ l, fusableShape e = true) →
      (∀ e ∈ s.out.toList, fusableShape e = true) →
      ∀ e ∈ (l.foldl DedupState.step s).out.toList, fusableShape e = true := by
    intro l
    induction l with
    | nil => intro s _ hs; exact hs
    | cons a l ih =>
      intro s hl hs
      exact ih (s.step a) (fun e he => hl e (by simp [he])) (dedup_step_shape s a hs (hl a (by simp)))
  intro e he
  unfold dedup at he
  rw [← Array.foldl_toList] at he
  simp only [Array.toList_map, List.mem_map] at he
  obtain ⟨e0, he0, rfl⟩ := he
  rw [fusableShape_rewrite]
  exact this ops.toList _ h (by simp) e0 he0

end P3R.C03
