//! C08: in-circuit MMCS opening verification vs native `p3_merkle_tree` verification.
//!
//! For every generated batch (dimension vector, cap height, arity, leaf kind, hiding) the real
//! native MMCS commits and opens; the real `verify_batch_circuit*` gadget is built once and run
//! on the honest opening and on every kind of single-element alteration. The native verdict and
//! the runner outcome are the implementation oracle (`native ok <=> circuit ok`). The same cases
//! go to the Lean driver (`p3r_driver_c08`), which recomputes both verdicts and the ordered
//! sequence of permutation inputs on both sides from the models in `P3R/Model/Mmcs*.lean`.
//!
//! The permutation is a parameter on both sides: `toy` (a cheap explicit map, also defined in
//! the Lean driver) or `table` (the real Poseidon2, with every input/output pair recorded and
//! handed to the driver).

use std::collections::{BTreeMap, HashSet};
use std::io::Write;
use std::panic::{AssertUnwindSafe, catch_unwind};
use std::sync::atomic::{AtomicBool, Ordering};
use std::sync::{Arc, Mutex};

use p3_circuit::ops::{Poseidon2Config, generate_poseidon2_trace, generate_recompose_trace, perm_private_data};
use p3_circuit::{Circuit, CircuitBuilder, NonPrimitiveOpId};
use p3_commit::{BatchOpeningRef, ExtensionMmcs, Mmcs};
use p3_field::extension::BinomialExtensionField;
use p3_field::{BasedVectorSpace, PrimeCharacteristicRing, PrimeField64};
use p3_koala_bear::{KoalaBear, default_koalabear_poseidon2_16, default_koalabear_poseidon2_32};
use p3_matrix::Dimensions;
use p3_matrix::dense::RowMajorMatrix;
use p3_merkle_tree::{MerkleCap, MerkleTreeError, MerkleTreeHidingMmcs, MerkleTreeMmcs};
use p3_poseidon2_circuit_air::{KoalaBearD4Width16, KoalaBearD4Width32};
use p3_recursion::Target;
use p3_recursion::pcs::{
    verify_batch_circuit, verify_batch_circuit_arity4, verify_batch_circuit_from_extension_opened,
    verify_batch_circuit_from_extension_opened_arity4,
};
use p3_symmetric::{CryptographicPermutation, PaddingFreeSponge, Permutation, TruncatedPermutation};
use rand::SeedableRng;
use rand::rngs::SmallRng;
use serde_json::{Value, json};

use crate::rng::Rng;

/// AIR-level malicious prover against the arity-2 gadget (real `prove_all_tables` / `verify_all_tables`).
#[path = "c08_forge.rs"]
mod forge;

type F = KoalaBear;
type CF = BinomialExtensionField<F, 4>;
const P: u64 = 2130706433;
const D: usize = 4;
const DIG: usize = 8;
const SALT: usize = 4;

// ------------------------------------------------------------------ permutation (a parameter)

type Log = Arc<Mutex<Vec<(Vec<u64>, Vec<u64>)>>>;

#[derive(Clone)]
pub struct LogPerm<const W: usize> {
    real: Option<Arc<dyn Fn([F; W]) -> [F; W] + Send + Sync>>,
    log: Log,
    on: Arc<AtomicBool>,
}

/// The `toy` permutation: three rounds of (add round constant, cube, sum-and-scale mix).
/// Defined identically in `lean/MainC08.lean` (`toyPerm`).
pub fn toy<const W: usize>(mut x: [F; W]) -> [F; W] {
    for r in 0..3 {
        for (i, xi) in x.iter_mut().enumerate() {
            let t = *xi + F::from_u64((r * W + i + 1) as u64);
            *xi = t * t * t;
        }
        let s: F = x.iter().copied().sum();
        for (i, xi) in x.iter_mut().enumerate() {
            *xi = s + *xi * F::from_u64((i + 2) as u64);
        }
    }
    x
}

impl<const W: usize> Permutation<[F; W]> for LogPerm<W> {
    fn permute(&self, x: [F; W]) -> [F; W] {
        let y = match &self.real {
            Some(f) => f(x),
            None => toy(x),
        };
        if self.on.load(Ordering::Relaxed) {
            self.log.lock().unwrap().push((
                x.iter().map(|v| v.as_canonical_u64()).collect(),
                y.iter().map(|v| v.as_canonical_u64()).collect(),
            ));
        }
        y
    }
}
impl<const W: usize> CryptographicPermutation<[F; W]> for LogPerm<W> {}

type Hash<const W: usize, const R: usize> = PaddingFreeSponge<LogPerm<W>, W, R, DIG>;
type Comp<const N: usize, const W: usize> = TruncatedPermutation<LogPerm<W>, N, DIG, W>;
type Plain<const N: usize, const W: usize, const R: usize> = MerkleTreeMmcs<F, F, Hash<W, R>, Comp<N, W>, N, DIG>;
type Hiding<const N: usize, const W: usize, const R: usize> =
    MerkleTreeHidingMmcs<F, F, Hash<W, R>, Comp<N, W>, SmallRng, N, DIG, SALT>;

// ------------------------------------------------------------------ uniform opening

#[derive(Clone, Debug)]
pub struct Opening {
    pub index: usize,
    /// per matrix, flattened to base-field coefficients (extension leaves: `width * D` entries)
    pub rows: Vec<Vec<F>>,
    /// per matrix salt (empty vector list when the MMCS is not hiding)
    pub salts: Vec<Vec<F>>,
    pub siblings: Vec<[F; DIG]>,
    pub cap: Vec<[F; DIG]>,
}

pub struct NativeSide {
    pub cap: Vec<[F; DIG]>,
    pub open: Box<dyn Fn(usize) -> Opening>,
    /// `dims` in the outer view (extension width, unsalted), as a caller of the real MMCS gives them
    pub verify: Box<dyn Fn(&[Dimensions], &Opening) -> Result<(), MerkleTreeError>>,
}

fn to_ext_rows(rows: &[Vec<F>]) -> Vec<Vec<CF>> {
    rows.iter()
        .map(|r| r.chunks(D).map(|c| CF::from_basis_coefficients_slice(c).unwrap()).collect())
        .collect()
}
fn flat_ext(rows: Vec<Vec<CF>>) -> Vec<Vec<F>> {
    rows.into_iter()
        .map(|r| r.iter().flat_map(|e| e.as_basis_coefficients_slice().to_vec()).collect())
        .collect()
}

fn native_plain<const N: usize, const W: usize, const R: usize>(
    perm: LogPerm<W>, cap_height: usize, ext: bool, mats: Vec<(usize, usize, Vec<F>)>,
) -> NativeSide {
    let inner: Plain<N, W, R> = MerkleTreeMmcs::new(PaddingFreeSponge::new(perm.clone()), TruncatedPermutation::new(perm), cap_height);
    if !ext {
        let ms: Vec<RowMajorMatrix<F>> = mats.into_iter().map(|(_, w, v)| RowMajorMatrix::new(v, w)).collect();
        let (commit, pd) = inner.commit(ms);
        let cap: Vec<[F; DIG]> = commit.roots().to_vec();
        let m2 = inner.clone();
        let cap2 = cap.clone();
        NativeSide {
            cap,
            open: Box::new(move |i| {
                let (rows, sib) = inner.open_batch(i, &pd).unpack();
                Opening { index: i, rows, salts: vec![], siblings: sib, cap: cap2.clone() }
            }),
            verify: Box::new(move |dims, o| {
                let c: MerkleCap<F, [F; DIG]> = MerkleCap::new(o.cap.clone());
                m2.verify_batch(&c, dims, o.index, BatchOpeningRef::new(&o.rows, &o.siblings))
            }),
        }
    } else {
        let em: ExtensionMmcs<F, CF, Plain<N, W, R>> = ExtensionMmcs::new(inner);
        let ms: Vec<RowMajorMatrix<CF>> = mats
            .into_iter()
            .map(|(_, w, v)| RowMajorMatrix::new(v.chunks(D).map(|c| CF::from_basis_coefficients_slice(c).unwrap()).collect(), w))
            .collect();
        let (commit, pd) = em.commit(ms);
        let cap: Vec<[F; DIG]> = commit.roots().to_vec();
        let m2 = em.clone();
        let cap2 = cap.clone();
        NativeSide {
            cap,
            open: Box::new(move |i| {
                let (rows, sib) = em.open_batch(i, &pd).unpack();
                Opening { index: i, rows: flat_ext(rows), salts: vec![], siblings: sib, cap: cap2.clone() }
            }),
            verify: Box::new(move |dims, o| {
                let c: MerkleCap<F, [F; DIG]> = MerkleCap::new(o.cap.clone());
                let rows = to_ext_rows(&o.rows);
                m2.verify_batch(&c, dims, o.index, BatchOpeningRef::new(&rows, &o.siblings))
            }),
        }
    }
}

fn native_hiding<const N: usize, const W: usize, const R: usize>(
    perm: LogPerm<W>, cap_height: usize, ext: bool, mats: Vec<(usize, usize, Vec<F>)>, salt_seed: u64,
) -> NativeSide {
    let mk = || -> Hiding<N, W, R> {
        MerkleTreeHidingMmcs::new(PaddingFreeSponge::new(perm.clone()), TruncatedPermutation::new(perm.clone()), cap_height, SmallRng::seed_from_u64(salt_seed))
    };
    if !ext {
        let hm = mk();
        let ms: Vec<RowMajorMatrix<F>> = mats.into_iter().map(|(_, w, v)| RowMajorMatrix::new(v, w)).collect();
        let (commit, pd) = hm.commit(ms);
        let cap: Vec<[F; DIG]> = commit.roots().to_vec();
        let m2 = mk();
        let cap2 = cap.clone();
        NativeSide {
            cap,
            open: Box::new(move |i| {
                let (rows, (salts, sib)) = hm.open_batch(i, &pd).unpack();
                Opening { index: i, rows, salts, siblings: sib, cap: cap2.clone() }
            }),
            verify: Box::new(move |dims, o| {
                let c: MerkleCap<F, [F; DIG]> = MerkleCap::new(o.cap.clone());
                let proof = (o.salts.clone(), o.siblings.clone());
                m2.verify_batch(&c, dims, o.index, BatchOpeningRef::new(&o.rows, &proof))
            }),
        }
    } else {
        let em: ExtensionMmcs<F, CF, Hiding<N, W, R>> = ExtensionMmcs::new(mk());
        let ms: Vec<RowMajorMatrix<CF>> = mats
            .into_iter()
            .map(|(_, w, v)| RowMajorMatrix::new(v.chunks(D).map(|c| CF::from_basis_coefficients_slice(c).unwrap()).collect(), w))
            .collect();
        let (commit, pd) = em.commit(ms);
        let cap: Vec<[F; DIG]> = commit.roots().to_vec();
        let m2: ExtensionMmcs<F, CF, Hiding<N, W, R>> = ExtensionMmcs::new(mk());
        let cap2 = cap.clone();
        NativeSide {
            cap,
            open: Box::new(move |i| {
                let (rows, (salts, sib)) = em.open_batch(i, &pd).unpack();
                Opening { index: i, rows: flat_ext(rows), salts, siblings: sib, cap: cap2.clone() }
            }),
            verify: Box::new(move |dims, o| {
                let c: MerkleCap<F, [F; DIG]> = MerkleCap::new(o.cap.clone());
                let rows = to_ext_rows(&o.rows);
                let proof = (o.salts.clone(), o.siblings.clone());
                m2.verify_batch(&c, dims, o.index, BatchOpeningRef::new(&rows, &proof))
            }),
        }
    }
}

// ------------------------------------------------------------------ circuit side

pub struct CircuitSide {
    circuit: Circuit<CF>,
    op_ids: Vec<NonPrimitiveOpId>,
    cfg: Poseidon2Config,
    arity: usize,
    ext: bool,
    nbits: usize,
}

fn pack8(d: &[F; DIG]) -> Vec<CF> {
    d.chunks(D).map(|c| CF::from_basis_coefficients_slice(c).unwrap()).collect()
}

#[allow(clippy::too_many_arguments)]
fn build_circuit(
    arity: usize, ext: bool, hiding: bool, dims: &[Dimensions], row_lens: &[usize], salt_lens: &[usize],
    nbits: usize, cap_len: usize, p16: &LogPerm<16>, p32: &LogPerm<32>,
) -> Result<CircuitSide, String> {
    let mut b = CircuitBuilder::<CF>::new();
    let cfg = if arity == 2 { Poseidon2Config::KOALA_BEAR_D4_W16 } else { Poseidon2Config::KOALA_BEAR_D4_W32 };
    if arity == 2 {
        b.enable_poseidon2_perm::<KoalaBearD4Width16, _>(generate_poseidon2_trace::<CF, KoalaBearD4Width16>, p16.clone());
    } else {
        b.enable_poseidon2_perm_width_32::<KoalaBearD4Width32, _>(generate_poseidon2_trace::<CF, KoalaBearD4Width32>, p32.clone());
    }
    b.enable_recompose::<F>(generate_recompose_trace::<F, CF>);
    // row_lens are in base coefficients; extension leaves take one target per D coefficients
    let rows: Vec<Vec<Target>> = row_lens
        .iter()
        .map(|&n| (0..if ext { n / D } else { n }).map(|_| b.public_input()).collect())
        .collect();
    let salts: Vec<Vec<Target>> = salt_lens.iter().map(|&n| (0..n).map(|_| b.public_input()).collect()).collect();
    let bits: Vec<Target> = (0..nbits).map(|_| b.public_input()).collect();
    let per_entry = if arity == 2 { cfg.rate_ext() } else { cfg.capacity_ext() };
    let cap: Vec<Vec<Target>> = (0..cap_len).map(|_| (0..per_entry).map(|_| b.public_input()).collect()).collect();
    let salts_opt = if hiding { Some(salts.as_slice()) } else { None };
    let r = match (arity, ext) {
        (2, false) => verify_batch_circuit::<F, CF>(&mut b, cfg, &cap, dims, &bits, &rows, salts_opt),
        (2, true) => verify_batch_circuit_from_extension_opened::<F, CF>(&mut b, cfg, &cap, dims, &bits, &rows, salts_opt),
        (4, false) => verify_batch_circuit_arity4::<F, CF>(&mut b, cfg, &cap, dims, &bits, &rows),
        _ => verify_batch_circuit_from_extension_opened_arity4::<F, CF>(&mut b, cfg, &cap, dims, &bits, &rows),
    };
    let op_ids = r.map_err(|e| format!("build-err {}", variant(&format!("{e:?}"))))?;
    let circuit = b.build().map_err(|e| format!("build-err {}", variant(&format!("{e:?}"))))?;
    Ok(CircuitSide { circuit, op_ids, cfg, arity, ext, nbits })
}

fn variant(dbg: &str) -> String {
    dbg.chars().take_while(|c| c.is_alphanumeric()).collect()
}

impl CircuitSide {
    fn expected_siblings(&self) -> usize {
        self.op_ids.len()
    }
    fn run(&self, o: &Opening) -> String {
        self.run_with(o, None)
    }
    /// Id of the first row of the Merkle path. Both gadgets emit the path rows (one compression row per level,
    /// each optionally followed / preceded by an injection row) contiguously, so path row `j` (in native
    /// compression-call order) has id `base + j`; `run_group` cross-checks this against the returned op ids.
    fn path_base(&self) -> Option<u32> {
        self.op_ids.first().map(|i| i.0)
    }
    /// Distinct op ids the gadget hands out for sibling payloads, relative to `path_base`.
    fn sibling_row_offsets(&self) -> Vec<usize> {
        let Some(b) = self.path_base() else { return vec![] };
        let mut v: Vec<usize> = vec![];
        for id in &self.op_ids {
            let off = (id.0 - b) as usize;
            if v.last() != Some(&off) {
                v.push(off);
            }
        }
        v
    }
    /// Run on opening `o`; `pay = (j, limbs)` replaces the private payload of path row `j` (a sibling row: the
    /// honest payload is not set; any other row, e.g. an injection row the gadget hands out no id for: the
    /// payload is set in addition). This is the prover's freedom: `set_private_data` takes any op id and any limbs.
    fn run_with(&self, o: &Opening, pay: Option<&(usize, Vec<CF>)>) -> String {
        let mut runner = self.circuit.runner();
        let base = self.path_base().unwrap_or(0);
        let pay_id = pay.map(|(j, _)| NonPrimitiveOpId(base + *j as u32));
        let mut pay_used = false;
        let mut pubs: Vec<CF> = vec![];
        for r in &o.rows {
            if self.ext {
                pubs.extend(r.chunks(D).map(|c| CF::from_basis_coefficients_slice(c).unwrap()));
            } else {
                pubs.extend(r.iter().map(|&v| CF::from(v)));
            }
        }
        for s in &o.salts {
            pubs.extend(s.iter().map(|&v| CF::from(v)));
        }
        pubs.extend((0..self.nbits).map(|k| CF::from_bool((o.index >> k) & 1 == 1)));
        for e in &o.cap {
            pubs.extend(pack8(e));
        }
        if let Err(e) = runner.set_public_inputs(&pubs) {
            return format!("setup-err {}", variant(&format!("{e:?}")));
        }
        if self.arity == 2 {
            for (&id, s) in self.op_ids.iter().zip(&o.siblings) {
                let limbs = if Some(id) == pay_id {
                    pay_used = true;
                    pay.unwrap().1.clone()
                } else {
                    pack8(s)
                };
                if let Err(e) = runner.set_private_data(id, perm_private_data(self.cfg, limbs)) {
                    return format!("setup-err {}", variant(&format!("{e:?}")));
                }
            }
        } else {
            let (mut pi, mut oi) = (0usize, 0usize);
            while oi < self.op_ids.len() {
                let id = self.op_ids[oi];
                let mut flat: Vec<CF> = vec![];
                let mut n = 0;
                while oi < self.op_ids.len() && self.op_ids[oi] == id {
                    // a missing sibling is simply not supplied (the model does the same)
                    if let Some(s) = o.siblings.get(pi) {
                        flat.extend(pack8(s));
                    }
                    pi += 1;
                    oi += 1;
                    n += 1;
                }
                for _ in n..3 {
                    flat.extend(vec![CF::ZERO; self.cfg.capacity_ext()]);
                }
                if Some(id) == pay_id {
                    pay_used = true;
                    flat = pay.unwrap().1.clone();
                }
                if let Err(e) = runner.set_private_data(id, perm_private_data(self.cfg, flat)) {
                    return format!("setup-err {}", variant(&format!("{e:?}")));
                }
            }
        }
        if let (Some((_, limbs)), Some(id), false) = (pay, pay_id, pay_used) {
            if let Err(e) = runner.set_private_data(id, perm_private_data(self.cfg, limbs.clone())) {
                return format!("setup-err {}", variant(&format!("{e:?}")));
            }
        }
        match runner.run() {
            Ok(_) => "ok".into(),
            Err(_) => "reject".into(),
        }
    }
}

// ------------------------------------------------------------------ path replay (cheating committer)

/// One `compress` call of the native `verify_batch` walk, in call order.
#[derive(Clone, Debug)]
pub struct CompCall {
    /// `true`: the level's N-to-1 (or bridge 2-to-1) compression; `false`: injection of a shorter matrix
    sib_level: bool,
    step: usize,
    /// chunk of the running digest
    pos: usize,
    /// the `N` input digests the native verifier uses
    inputs: Vec<[F; DIG]>,
}

impl CompCall {
    /// Chunks whose content the native verifier fixes itself (not the running digest, not a proof sibling):
    /// the default-digest pads of a bridge level (`step < N`), and on an injection the digest of the opened
    /// rows (chunk 1) and the pads behind it.
    fn free_chunks(&self) -> Vec<usize> {
        if self.sib_level { (self.step..self.inputs.len()).collect() } else { (1..self.inputs.len()).collect() }
    }
    fn row_kind(&self) -> &'static str {
        if !self.sib_level {
            "injection-row"
        } else if self.step < self.inputs.len() {
            "bridge-row"
        } else {
            "full-row"
        }
    }
}

const fn padded_len(raw: usize, n: usize) -> usize {
    if raw <= 1 {
        raw
    } else if raw >= n {
        raw.div_ceil(n) * n
    } else {
        n
    }
}

/// `MerkleTreeMmcs::verify_batch` (p3-merkle-tree 0.6.3, `mmcs/batch.rs`) as a path *replay*: the same walk
/// (real `proof_arity_schedule`, real `PaddingFreeSponge` / `TruncatedPermutation` over the group's
/// permutation), returning every compression call, the digest reached and the cap index, with the inputs in
/// `ov[(call, chunk)]` replaced. With `ov` empty the digest is what the native verifier compares with the
/// cap (self-checked by the caller against the honest commitment); with pads / injected digests replaced it
/// is the commitment a cheating committer would publish for this path.
#[allow(clippy::too_many_arguments)]
fn replay_path<const N: usize, const W: usize, const R: usize>(
    perm: &LogPerm<W>, cap_height: usize, dims: &[Dimensions], mut index: usize, streams: &[Vec<F>],
    siblings: &[[F; DIG]], ov: &BTreeMap<(usize, usize), [F; DIG]>,
) -> Option<(Vec<CompCall>, [F; DIG], usize)> {
    use p3_symmetric::{CryptographicHasher, PseudoCompressionFunction};
    let hash: Hash<W, R> = PaddingFreeSponge::new(perm.clone());
    let comp: Comp<N, W> = TruncatedPermutation::new(perm.clone());
    let mmcs: Plain<N, W, R> = MerkleTreeMmcs::new(hash.clone(), comp.clone(), cap_height);
    let schedule = mmcs.proof_arity_schedule(dims).ok()?;
    if siblings.len() != schedule.iter().map(|s| s - 1).sum::<usize>() || streams.len() != dims.len() {
        return None;
    }
    let max_height = dims.iter().map(|d| d.height).max()?;
    if index >= max_height {
        return None;
    }
    let mut order: Vec<usize> = (0..dims.len()).collect();
    order.sort_by_key(|&i| std::cmp::Reverse(dims[i].height)); // stable, as `sorted_by_key`
    let mut rest = order.as_slice();
    let leaf_npt = max_height.next_power_of_two();
    let n_leaf = rest.iter().take_while(|&&i| dims[i].height.next_power_of_two() == leaf_npt).count();
    let mut digest: [F; DIG] = hash.hash_iter_slices(rest[..n_leaf].iter().map(|&i| streams[i].as_slice()));
    rest = &rest[n_leaf..];
    let mut curr = padded_len(max_height, N);
    let zero = [F::ZERO; DIG];
    let mut calls: Vec<CompCall> = vec![];
    let mut pp = 0usize;
    let apply = |calls: &mut Vec<CompCall>, sib_level: bool, step: usize, pos: usize, inputs: [[F; DIG]; N]| -> [F; DIG] {
        let j = calls.len();
        calls.push(CompCall { sib_level, step, pos, inputs: inputs.to_vec() });
        let used: [[F; DIG]; N] = core::array::from_fn(|k| ov.get(&(j, k)).copied().unwrap_or(inputs[k]));
        comp.compress(used)
    };
    for &step in &schedule {
        let sibs = &siblings[pp..pp + step - 1];
        pp += step - 1;
        let pos = index % step;
        let mut si = 0;
        let inputs: [[F; DIG]; N] = core::array::from_fn(|k| {
            if k < step {
                if k == pos {
                    digest
                } else {
                    si += 1;
                    sibs[si - 1]
                }
            } else {
                zero
            }
        });
        digest = apply(&mut calls, true, step, pos, inputs);
        index /= step;
        let logical_next = curr / step;
        curr = padded_len(logical_next, N);
        let next_npt = logical_next.next_power_of_two();
        if let Some(&first) = rest.first() {
            let h = dims[first].height;
            if h.next_power_of_two() == next_npt {
                let n_inj = rest.iter().take_while(|&&i| dims[i].height == h).count();
                let inj: [F; DIG] = hash.hash_iter_slices(rest[..n_inj].iter().map(|&i| streams[i].as_slice()));
                rest = &rest[n_inj..];
                let inputs: [[F; DIG]; N] = core::array::from_fn(|k| if k == 0 { digest } else if k == 1 { inj } else { zero });
                digest = apply(&mut calls, false, step, 0, inputs);
            }
        }
    }
    Some((calls, digest, index))
}

/// The digest a `pay` case puts into chunk `k` of path row `j` (non-zero, distinct per row / chunk / word).
fn pay_digest(j: usize, k: usize) -> [F; DIG] {
    core::array::from_fn(|w| F::from_u64(0xC08C00 + 977 * j as u64 + 131 * k as u64 + w as u64 + 1))
}

// ------------------------------------------------------------------ generator

#[derive(Clone, Debug)]
struct Shape {
    arity: usize,
    ext: bool,
    hiding: bool,
    cap_height: usize,
    real_perm: bool,
    /// (height, width) in the outer view (extension width for `ext`)
    mats: Vec<(usize, usize)>,
}

fn log2_ceil(n: usize) -> usize {
    if n <= 1 { 0 } else { (usize::BITS - (n - 1).leading_zeros()) as usize }
}

fn gen_shape(r: &mut Rng, max_log: usize, nshape: usize) -> Shape {
    let arity = if r.chance(2, 5) { 4 } else { 2 };
    let ext = r.chance(1, 3);
    let hiding = arity == 2 && r.chance(1, 4);
    let cap_height = r.usize(4);
    let real_perm = nshape % 16 == 7;
    let l = r.usize(max_log + 1);
    let max_h = if l == 0 {
        1
    } else if r.chance(1, 3) {
        // non power of two in (2^(l-1), 2^l)
        let lo = (1usize << (l - 1)) + 1;
        let hi = 1usize << l;
        if hi - lo >= 1 { r.range(lo, hi - 1).max(lo) } else { hi }
    } else {
        1 << l
    };
    let nm = if r.chance(1, 4) { 1 } else { r.range(1, 6) };
    let widths = [1usize, 2, 3, 5, 7, 8, 9, 12, 15, 16, 17, 23, 24, 25, 31, 33, 40];
    let mut mats = vec![];
    let equal = r.chance(1, 4);
    for m in 0..nm {
        let h = if m == 0 || equal {
            max_h
        } else {
            let k = r.usize(log2_ceil(max_h) + 1);
            ((max_h - 1) >> k) + 1
        };
        let mut w = if r.chance(2, 3) { *r.pick(&widths) } else { r.range(1, 40) };
        if ext {
            w = 1 + (w - 1) % 10; // extension width 1..10 = 4..40 base coefficients
        }
        mats.push((h, w));
    }
    // the tallest matrix need not be first
    if mats.len() > 1 && r.chance(1, 2) {
        let j = r.usize(mats.len());
        mats.swap(0, j);
    }
    Shape { arity, ext, hiding, cap_height, real_perm, mats }
}

fn nums(v: &[F]) -> String {
    v.iter().map(|x| x.as_canonical_u64().to_string()).collect::<Vec<_>>().join(" ")
}

fn fnv_trace(log: &[(Vec<u64>, Vec<u64>)]) -> (usize, u64) {
    let mut h = 0xcbf29ce484222325u64;
    for (i, _) in log {
        for &x in i {
            h = (h ^ x).wrapping_mul(0x100000001b3);
        }
    }
    (log.len(), h)
}

fn native_verdict(r: &Result<(), MerkleTreeError>) -> String {
    match r {
        Ok(()) => "ok".into(),
        Err(e) => variant(&format!("{e:?}")),
    }
}

pub struct Ctx {
    cases: std::io::BufWriter<std::fs::File>,
    implo: std::io::BufWriter<std::fs::File>,
    hist: BTreeMap<String, u64>,
    violations: Vec<Value>,
    samples: Vec<Value>,
    distinct: HashSet<u64>,
    evaluations: usize,
    log16: Log,
    log32: Log,
    on: Arc<AtomicBool>,
    /// which build-time checks the gadget under test is declared to have (`hwc`, 0/1 each); passed
    /// through to the driver, and `c` = 1 adds the cap-taller-than-index regression case
    checks: String,
}

fn bump(h: &mut BTreeMap<String, u64>, k: &str) {
    *h.entry(k.to_string()).or_default() += 1;
}

/// Explicit description of a group: enough to rebuild it (`replay`) without the generator.
fn shape_json(s: &Shape, data_seed: u64) -> Value {
    json!({"arity": s.arity, "ext": s.ext, "hiding": s.hiding, "cap_height": s.cap_height, "real_perm": s.real_perm,
           "mats": s.mats.iter().map(|(h, w)| json!([h, w])).collect::<Vec<_>>(), "data_seed": data_seed})
}

fn shape_from_json(v: &Value) -> Option<(Shape, u64)> {
    Some((
        Shape {
            arity: v["arity"].as_u64()? as usize,
            ext: v["ext"].as_bool()?,
            hiding: v["hiding"].as_bool()?,
            cap_height: v["cap_height"].as_u64()? as usize,
            real_perm: v["real_perm"].as_bool().unwrap_or(false),
            mats: v["mats"].as_array()?.iter().map(|m| Some((m[0].as_u64()? as usize, m[1].as_u64()? as usize))).collect::<Option<Vec<_>>>()?,
        },
        v["data_seed"].as_u64()?,
    ))
}

#[derive(Clone, Debug)]
enum Alt {
    Honest,
    Leaf(usize, usize),
    Salt(usize, usize),
    Sib(usize, usize),
    Bit(usize),
    Cap(usize, usize),
    /// move the last element of matrix a's row to the front of matrix b's row (same height, adjacent)
    ShiftRow(usize, usize),
    /// claim height `h` for matrix m (same power-of-two bucket)
    ClaimHeight(usize, usize),
    /// commitment with `2^(nbits+1)` cap entries (the honest cap repeated): taller than the index
    CapOversize,
    /// adversarial private data / cheating committer: `Pay(mode, j, mask)` acts on path row `j` (native
    /// compression-call order) and the chunks in `mask` that the native verifier fills itself (bridge pads,
    /// injected digest and the pads behind it), each replaced by `pay_digest(j, k)`.
    /// mode 0: honest commitment, the row's private payload carries the replaced chunks (`mask = 0`: the honest
    ///         payload followed by one surplus digest);
    /// mode 1: the commitment replayed with the replaced chunks (what a cheating committer publishes for this
    ///         path) + that payload;  mode 2: that commitment + the honest payload.
    Pay(u8, usize, u8),
}

impl Alt {
    fn tag(&self) -> String {
        match self {
            Alt::Honest => "honest".into(),
            Alt::Leaf(m, j) => format!("leaf:{m}:{j}"),
            Alt::Salt(m, j) => format!("salt:{m}:{j}"),
            Alt::Sib(s, w) => format!("sib:{s}:{w}"),
            Alt::Bit(k) => format!("bit:{k}"),
            Alt::Cap(e, w) => format!("cap:{e}:{w}"),
            Alt::ShiftRow(a, b) => format!("shiftrow:{a}:{b}"),
            Alt::ClaimHeight(m, h) => format!("claimheight:{m}:{h}"),
            Alt::CapOversize => "capoversize".into(),
            Alt::Pay(m, j, k) => format!("pay:{m}:{j}:{k}"),
        }
    }
    fn kind(&self) -> &'static str {
        match self {
            Alt::Honest => "honest",
            Alt::Leaf(..) => "leaf",
            Alt::Salt(..) => "salt",
            Alt::Sib(..) => "sibling",
            Alt::Bit(..) => "index-bit",
            Alt::Cap(..) => "cap",
            Alt::ShiftRow(..) => "shift-row-boundary",
            Alt::ClaimHeight(..) => "claimed-height",
            Alt::CapOversize => "cap-oversize",
            Alt::Pay(0, ..) => "adversarial-payload",
            Alt::Pay(1, ..) => "forged-commitment-adversarial-payload",
            Alt::Pay(..) => "forged-commitment-honest-payload",
        }
    }
    fn parse(s: &str) -> Option<Alt> {
        let t: Vec<&str> = s.split(':').collect();
        let n = |i: usize| t.get(i).and_then(|x| x.parse::<usize>().ok());
        Some(match t[0] {
            "honest" => Alt::Honest,
            "leaf" => Alt::Leaf(n(1)?, n(2)?),
            "salt" => Alt::Salt(n(1)?, n(2)?),
            "sib" => Alt::Sib(n(1)?, n(2)?),
            "bit" => Alt::Bit(n(1)?),
            "cap" => Alt::Cap(n(1)?, n(2)?),
            "shiftrow" => Alt::ShiftRow(n(1)?, n(2)?),
            "claimheight" => Alt::ClaimHeight(n(1)?, n(2)?),
            "capoversize" => Alt::CapOversize,
            "pay" => Alt::Pay(n(1)? as u8, n(2)?, n(3)? as u8),
            _ => return None,
        })
    }
}

/// One group: commit natively, build the gadget, run honest + altered openings at `indices`.
/// `only` restricts to given (index, alteration) pairs (replay).
#[allow(clippy::too_many_arguments)]
fn run_group(cx: &mut Ctx, gid: &str, s: &Shape, data_seed: u64, n_indices: usize, all_positions: bool, only: Option<Vec<(usize, Alt)>>) {
    let checks = cx.checks.clone();
    let capbits_case = checks.as_bytes().get(2) == Some(&b'1');
    let mut r = Rng::new(data_seed);
    let (arity, ext, hiding) = (s.arity, s.ext, s.hiding);
    let mk16 = |real: bool| LogPerm::<16> {
        real: real.then(|| {
            let p = default_koalabear_poseidon2_16();
            Arc::new(move |x: [F; 16]| p.permute(x)) as Arc<dyn Fn([F; 16]) -> [F; 16] + Send + Sync>
        }),
        log: cx.log16.clone(),
        on: cx.on.clone(),
    };
    let mk32 = |real: bool| LogPerm::<32> {
        real: real.then(|| {
            let p = default_koalabear_poseidon2_32();
            Arc::new(move |x: [F; 32]| p.permute(x)) as Arc<dyn Fn([F; 32]) -> [F; 32] + Send + Sync>
        }),
        log: cx.log32.clone(),
        on: cx.on.clone(),
    };
    let (p16, p32) = (mk16(s.real_perm), mk32(s.real_perm));
    let e = if ext { D } else { 1 };
    let mats: Vec<(usize, usize, Vec<F>)> = s
        .mats
        .iter()
        .map(|&(h, w)| (h, w, (0..h * w * e).map(|_| F::from_u64(r.below(P))).collect()))
        .collect();
    let dims: Vec<Dimensions> = s.mats.iter().map(|&(h, w)| Dimensions { height: h, width: w }).collect();
    let max_h = s.mats.iter().map(|m| m.0).max().unwrap();
    let nbits = log2_ceil(max_h);
    cx.on.store(false, Ordering::Relaxed);
    let salt_seed = r.next();
    let native = catch_unwind(AssertUnwindSafe(|| match (arity, hiding) {
        (2, false) => native_plain::<2, 16, 8>(p16.clone(), s.cap_height, ext, mats.clone()),
        (2, true) => native_hiding::<2, 16, 8>(p16.clone(), s.cap_height, ext, mats.clone(), salt_seed),
        _ => native_plain::<4, 32, 24>(p32.clone(), s.cap_height, ext, mats.clone()),
    }));
    let Ok(native) = native else {
        bump(&mut cx.hist, "group.native-commit-panic");
        return;
    };
    let cap_len = native.cap.len();
    let (wd, rate) = if arity == 2 { (16, 8) } else { (32, 24) };
    let honest0 = (native.open)(0);
    let row_lens: Vec<usize> = honest0.rows.iter().map(Vec::len).collect();
    let salt_lens: Vec<usize> = honest0.salts.iter().map(Vec::len).collect();

    // group header for the driver (inner view: base coefficients + salt per matrix)
    let header = |dims: &[Dimensions], row_lens: &[usize]| -> Vec<String> {
        let mut v = vec![format!(
            "grp {gid} p {P} arity {arity} width {wd} rate {rate} dig {DIG} caph {} perm {} nbits {nbits} checks {checks}",
            s.cap_height,
            if s.real_perm { "table" } else { "toy" }
        )];
        for (m, d) in dims.iter().enumerate() {
            // inner claimed width = outer width * D (ext) + SALT (hiding); the opened stream length is given per case
            let iw = d.width * e + if hiding { SALT } else { 0 };
            let _ = row_lens;
            v.push(format!("mat {} {} {}", m, d.height, iw));
        }
        v
    };
    let base_circuit = catch_unwind(AssertUnwindSafe(|| build_circuit(arity, ext, hiding, &dims, &row_lens, &salt_lens, nbits, cap_len, &p16, &p32)));
    let base_circuit: Result<CircuitSide, String> = match base_circuit {
        Ok(x) => x,
        Err(_) => Err("panic".into()),
    };
    bump(&mut cx.hist, &format!("group.arity{arity}.{}{}", if ext { "ext" } else { "base" }, if hiding { ".hiding" } else { "" }));
    bump(&mut cx.hist, &format!("group.caph{}.roots{}", s.cap_height, cap_len));
    bump(&mut cx.hist, &format!("group.maxlog{}{}", nbits, if max_h.is_power_of_two() { "" } else { ".npo2" }));
    bump(&mut cx.hist, &format!("group.mats{}", s.mats.len()));
    bump(&mut cx.hist, if s.mats.iter().all(|m| m.0 == max_h) { "group.heights-equal" } else { "group.heights-mixed" });
    bump(&mut cx.hist, if s.real_perm { "group.perm-table" } else { "group.perm-toy" });
    for m in &s.mats {
        let bw = m.1 * e + if hiding { SALT } else { 0 };
        bump(&mut cx.hist, if bw % rate == 0 { "matrix.width-aligned" } else { "matrix.width-unaligned" });
    }
    let mut text = format!("{:?}", s);
    text.push_str(&data_seed.to_string());
    let mut gh = 0xcbf29ce484222325u64;
    for b in text.bytes() {
        gh = (gh ^ b as u64).wrapping_mul(0x100000001b3);
    }

    let mut emitted_header: Option<Vec<String>> = None;
    let mut tab_seen: HashSet<Vec<u64>> = HashSet::new();

    // index choice
    let mut indices: Vec<usize> = vec![0, max_h - 1];
    for _ in 0..n_indices.saturating_sub(2) {
        indices.push(r.usize(max_h));
    }
    if all_positions && max_h <= 64 {
        indices = (0..max_h).collect();
    }
    indices.sort_unstable();
    indices.dedup();
    indices.truncate(n_indices.max(1).max(if all_positions && max_h <= 64 { max_h } else { 0 }));

    // path replay of an opening of this group (native walk with replaced chunks)
    let empty_ov: BTreeMap<(usize, usize), [F; DIG]> = BTreeMap::new();
    let replay = |o: &Opening, dims: &[Dimensions], ov: &BTreeMap<(usize, usize), [F; DIG]>| {
        let streams: Vec<Vec<F>> = o
            .rows
            .iter()
            .enumerate()
            .map(|(m, row)| {
                let mut v = row.clone();
                if let Some(sl) = o.salts.get(m) {
                    v.extend(sl.iter().copied());
                }
                v
            })
            .collect();
        catch_unwind(AssertUnwindSafe(|| {
            if arity == 2 {
                replay_path::<2, 16, 8>(&p16, s.cap_height, dims, o.index, &streams, &o.siblings, ov)
            } else {
                replay_path::<4, 32, 24>(&p32, s.cap_height, dims, o.index, &streams, &o.siblings, ov)
            }
        }))
        .ok()
        .flatten()
    };

    let plan: Vec<(usize, Alt)> = if let Some(o) = only {
        o
    } else {
        let mut plan = vec![];
        for (ii, &idx) in indices.iter().enumerate() {
            plan.push((idx, Alt::Honest));
            let o = (native.open)(idx);
            for (m, row) in o.rows.iter().enumerate() {
                let mut js: Vec<usize> = if all_positions { (0..row.len()).collect() } else { vec![0, row.len() - 1, r.usize(row.len()), r.usize(row.len())] };
                js.sort_unstable();
                js.dedup();
                for j in js {
                    plan.push((idx, Alt::Leaf(m, j)));
                }
            }
            for (m, sl) in o.salts.iter().enumerate() {
                let mut js = if all_positions { (0..sl.len()).collect() } else { vec![0, sl.len() - 1] };
                js.dedup();
                for j in js {
                    plan.push((idx, Alt::Salt(m, j)));
                }
            }
            for sidx in 0..o.siblings.len() {
                let ws: Vec<usize> = if all_positions { (0..DIG).collect() } else { vec![r.usize(DIG)] };
                for w in ws {
                    plan.push((idx, Alt::Sib(sidx, w)));
                }
            }
            for k in 0..nbits {
                plan.push((idx, Alt::Bit(k)));
            }
            for en in 0..cap_len {
                let ws: Vec<usize> = if all_positions { (0..DIG).collect() } else { vec![r.usize(DIG)] };
                for w in ws {
                    plan.push((idx, Alt::Cap(en, w)));
                }
            }
            if ii == 0 && arity == 2 && capbits_case {
                plan.push((idx, Alt::CapOversize));
            }
            // adversarial private data / cheating committer, on every path row that has chunks the native
            // verifier fills itself (and the surplus-limb payload on sibling rows)
            if let Some((calls, _, _)) = replay(&o, &dims, &empty_ov) {
                for (j, cc) in calls.iter().enumerate() {
                    let free = cc.free_chunks();
                    let mut masks: Vec<u8> = vec![];
                    if !free.is_empty() {
                        masks.push(free.iter().map(|k| 1u8 << k).sum());
                        if free.len() > 1 {
                            if all_positions {
                                masks.extend(free.iter().map(|k| 1u8 << k));
                            } else {
                                masks.push(1u8 << free[r.usize(free.len())]);
                            }
                        }
                    }
                    for &m in &masks {
                        plan.push((idx, Alt::Pay(1, j, m)));
                        plan.push((idx, Alt::Pay(0, j, m)));
                    }
                    if let Some(&full) = masks.first() {
                        plan.push((idx, Alt::Pay(2, j, full)));
                    }
                    if cc.sib_level && (j == 0 || all_positions) {
                        plan.push((idx, Alt::Pay(0, j, 0)));
                    }
                }
            }
            if ii == 0 && !hiding && !ext {
                // shape alterations (native shape checks vs gadget build-time checks)
                for a in 0..s.mats.len() {
                    for b in (a + 1)..s.mats.len() {
                        if s.mats[a].0 == s.mats[b].0 && s.mats[a].1 >= 2 && !(a + 1..b).any(|c| s.mats[c].0 == s.mats[a].0) {
                            plan.push((idx, Alt::ShiftRow(a, b)));
                        }
                    }
                }
                for (m, &(h, _)) in s.mats.iter().enumerate() {
                    if h >= 3 && h.is_power_of_two() {
                        plan.push((idx, Alt::ClaimHeight(m, h - 1)));
                    } else if h >= 3 {
                        plan.push((idx, Alt::ClaimHeight(m, h.next_power_of_two())));
                    }
                }
            }
        }
        plan
    };

    for (idx, alt) in plan {
        if idx >= max_h {
            continue;
        }
        let mut o = (native.open)(idx);
        let mut dims_c = dims.clone();
        let mut rebuilt: Option<Result<CircuitSide, String>> = None;
        let one = F::ONE;
        // `pay` cases: (path row, payload in base coefficients), and the row kind for the class
        let mut pay_base: Option<(usize, Vec<F>)> = None;
        let mut pay_row: Option<&'static str> = None;
        match &alt {
            Alt::Honest => {}
            Alt::Leaf(m, j) => match o.rows.get_mut(*m).and_then(|r| r.get_mut(*j)) { Some(x) => *x += one, None => continue },
            Alt::Salt(m, j) => match o.salts.get_mut(*m).and_then(|r| r.get_mut(*j)) { Some(x) => *x += one, None => continue },
            Alt::Sib(si, w) => match o.siblings.get_mut(*si).and_then(|r| r.get_mut(*w)) { Some(x) => *x += one, None => continue },
            Alt::Bit(k) => {
                if *k >= nbits { continue }
                o.index ^= 1 << k
            }
            Alt::Cap(en, w) => match o.cap.get_mut(*en).and_then(|r| r.get_mut(*w)) { Some(x) => *x += one, None => continue },
            Alt::ShiftRow(a, b) => {
                if *a >= o.rows.len() || *b >= o.rows.len() || o.rows[*a].len() < 2 { continue }
                let x = o.rows[*a].pop().unwrap();
                o.rows[*b].insert(0, x);
                let rl: Vec<usize> = o.rows.iter().map(Vec::len).collect();
                rebuilt = Some(match catch_unwind(AssertUnwindSafe(|| build_circuit(arity, ext, hiding, &dims_c, &rl, &salt_lens, nbits, cap_len, &p16, &p32))) {
                    Ok(x) => x,
                    Err(_) => Err("panic".into()),
                });
            }
            Alt::CapOversize => {
                if !capbits_case || arity != 2 {
                    // only meaningful for a gadget declared to have the cap-bits check (otherwise C15's F9p)
                    bump(&mut cx.hist, "case.cap-oversize-skipped");
                    continue;
                }
                let target = 1usize << (nbits + 1);
                let honest = o.cap.clone();
                while o.cap.len() < target {
                    o.cap.extend(honest.iter().copied());
                }
                let cl = o.cap.len();
                rebuilt = Some(match catch_unwind(AssertUnwindSafe(|| build_circuit(arity, ext, hiding, &dims_c, &row_lens, &salt_lens, nbits, cl, &p16, &p32))) {
                    Ok(x) => x,
                    Err(_) => Err("panic".into()),
                });
            }
            Alt::Pay(mode, j, mask) => {
                let (mode, j, mask) = (*mode, *j, *mask);
                let Ok(c) = &base_circuit else { continue };
                if c.expected_siblings() != o.siblings.len() {
                    // the gadget's path differs from the native one (F-C08-1): no honest opening to start from
                    bump(&mut cx.hist, "pay.skipped-path-length-mismatch");
                    continue;
                }
                let Some((calls, root, cap_idx)) = replay(&o, &dims_c, &empty_ov) else {
                    bump(&mut cx.hist, "pay.replay-unavailable");
                    continue;
                };
                if o.cap.get(cap_idx) != Some(&root) {
                    // the replay is the harness's own copy of the native walk: must reproduce the honest commitment
                    bump(&mut cx.hist, "violation.harness-replay-selfcheck-failed");
                    if cx.violations.iter().filter(|v| v["class"] == "harness-replay-selfcheck-failed").count() < 3 {
                        cx.violations.push(json!({"property": "C08", "kind": alt.kind(), "class": "harness-replay-selfcheck-failed",
                            "detail": {"native": "-", "circuit": "-", "case": format!("{gid}/{idx}/{}", alt.tag()), "num_roots": cap_len, "nbits": nbits},
                            "replay": {"shape": shape_json(s, data_seed), "cases": [[idx, alt.tag()]]}}));
                    }
                    continue;
                }
                let sib_rows: Vec<usize> = calls.iter().enumerate().filter(|(_, c)| c.sib_level).map(|(i, _)| i).collect();
                if c.sibling_row_offsets() != sib_rows {
                    bump(&mut cx.hist, "pay.skipped-rowmap-mismatch");
                    continue;
                }
                let Some(cc) = calls.get(j) else { continue };
                let free = cc.free_chunks();
                let chunks: Vec<usize> = (0..8).filter(|k| (mask >> k) & 1 == 1).collect();
                if chunks.iter().any(|k| !free.contains(k)) || (mask == 0 && (mode != 0 || !cc.sib_level)) {
                    continue;
                }
                let ov: BTreeMap<(usize, usize), [F; DIG]> = chunks.iter().map(|&k| ((j, k), pay_digest(j, k))).collect();
                if mode != 0 {
                    let Some((_, forged, _)) = replay(&o, &dims_c, &ov) else { continue };
                    if forged == root { continue }
                    o.cap[cap_idx] = forged;
                }
                if mode != 2 {
                    // the executor fills the chunks other than the running one in ascending order
                    let mut limbs: Vec<F> = vec![];
                    for k in 0..cc.inputs.len() {
                        if k != cc.pos {
                            limbs.extend(ov.get(&(j, k)).copied().unwrap_or(cc.inputs[k]));
                        }
                    }
                    if mask == 0 {
                        limbs.extend(pay_digest(j, 7));
                    }
                    pay_base = Some((j, limbs));
                }
                pay_row = Some(cc.row_kind());
                bump(&mut cx.hist, &format!("pay.arity{arity}.{}.{}", cc.row_kind(), if mask == 0 { "surplus-limbs" } else { "native-fixed-chunks" }));
            }
            Alt::ClaimHeight(m, h) => {
                if *m >= dims_c.len() { continue }
                dims_c[*m].height = *h;
                rebuilt = Some(match catch_unwind(AssertUnwindSafe(|| build_circuit(arity, ext, hiding, &dims_c, &row_lens, &salt_lens, nbits, cap_len, &p16, &p32))) {
                    Ok(x) => x,
                    Err(_) => Err("panic".into()),
                });
            }
        }
        let shape_case = rebuilt.is_some();
        let cs: &Result<CircuitSide, String> = rebuilt.as_ref().unwrap_or(&base_circuit);

        // native
        cx.log16.lock().unwrap().clear();
        cx.log32.lock().unwrap().clear();
        cx.on.store(true, Ordering::Relaxed);
        let nres = catch_unwind(AssertUnwindSafe(|| (native.verify)(&dims_c, &o)));
        cx.on.store(false, Ordering::Relaxed);
        let nlog: Vec<(Vec<u64>, Vec<u64>)> = if arity == 2 { std::mem::take(&mut *cx.log16.lock().unwrap()) } else { std::mem::take(&mut *cx.log32.lock().unwrap()) };
        let nv = match &nres {
            Ok(x) => native_verdict(x),
            Err(_) => "panic".into(),
        };
        // circuit
        cx.on.store(true, Ordering::Relaxed);
        let cv = match cs {
            Ok(c) => {
                let pay: Option<(usize, Vec<CF>)> = pay_base
                    .as_ref()
                    .map(|(j, b)| (*j, b.chunks(D).map(|c| CF::from_basis_coefficients_slice(c).unwrap()).collect()));
                catch_unwind(AssertUnwindSafe(|| c.run_with(&o, pay.as_ref()))).unwrap_or_else(|_| "panic".into())
            }
            Err(e) => e.clone(),
        };
        cx.on.store(false, Ordering::Relaxed);
        let clog: Vec<(Vec<u64>, Vec<u64>)> = if arity == 2 { std::mem::take(&mut *cx.log16.lock().unwrap()) } else { std::mem::take(&mut *cx.log32.lock().unwrap()) };
        cx.evaluations += 1;
        if std::env::var("P3R_C08_DEBUG").is_ok() {
            for (i, o) in &clog { eprintln!("cperm {:?} -> {:?}", i, &o[..4]); }
            for (i, o) in &nlog { eprintln!("nperm {:?} -> {:?}", i, &o[..4]); }
        }
        let (nn, nh) = fnv_trace(&nlog);
        let (cn, ch) = fnv_trace(&clog);
        let cid = format!("{gid}/{idx}/{}", alt.tag());

        // driver input. Shape cases carry their own header (dims differ), others share the group's.
        let hdr = header(&dims_c, &row_lens);
        if shape_case || emitted_header.as_ref() != Some(&hdr) {
            for l in &hdr {
                writeln!(cx.cases, "{l}").unwrap();
            }
            tab_seen.clear();
            emitted_header = if shape_case { None } else { Some(hdr) };
        }
        if s.real_perm {
            for (i, out) in nlog.iter().chain(clog.iter()) {
                if tab_seen.insert(i.clone()) {
                    writeln!(cx.cases, "tab {} | {}", i.iter().map(|x| x.to_string()).collect::<Vec<_>>().join(" "), out.iter().map(|x| x.to_string()).collect::<Vec<_>>().join(" ")).unwrap();
                }
            }
        }
        writeln!(cx.cases, "case {cid} idx {}", o.index).unwrap();
        for (m, row) in o.rows.iter().enumerate() {
            let mut stream = row.clone();
            if let Some(sl) = o.salts.get(m) {
                stream.extend(sl.iter().copied());
            }
            writeln!(cx.cases, "row {m} {}", nums(&stream)).unwrap();
        }
        for sb in &o.siblings {
            writeln!(cx.cases, "sib {}", nums(sb)).unwrap();
        }
        for ce in &o.cap {
            writeln!(cx.cases, "cap {}", nums(ce)).unwrap();
        }
        if let Some((j, b)) = &pay_base {
            writeln!(cx.cases, "pay {j} {}", nums(b)).unwrap();
        }
        writeln!(cx.cases, "go").unwrap();
        // implementation answer in the driver's output format; the circuit trace is only defined when it ran
        let cvc = cv.split(' ').next().unwrap().to_string();
        let ctr = if cvc == "ok" || cvc == "reject" { format!("{cn} {ch}") } else { "0 0".into() };
        let _ = (nn, nh);
        writeln!(cx.implo, "res {cid} native {nv} circuit {cvc} ctrace {ctr}").unwrap();

        bump(&mut cx.hist, &format!("case.{}", alt.kind()));
        bump(&mut cx.hist, &format!("verdict.native-{}.circuit-{}", nv, cvc));
        cx.distinct.insert(gh ^ (idx as u64).wrapping_mul(0x9E3779B97F4A7C15) ^ {
            let mut h = 0xcbf29ce484222325u64;
            for b in alt.tag().bytes() {
                h = (h ^ b as u64).wrapping_mul(0x100000001b3);
            }
            h
        });
        if cx.samples.len() < 4 && matches!(alt, Alt::Honest | Alt::Sib(..)) && cx.evaluations % 97 == 1 {
            cx.samples.push(json!({"case": cid, "shape": shape_json(s, data_seed), "native": nv, "circuit": cv}));
        }
        // implementation oracle
        let n_ok = nv == "ok";
        let c_ok = cvc == "ok";
        // A commitment with more cap entries than the index can address has no native meaning (the
        // native cap height is configuration): the gadget must fail safely, i.e. not panic and not accept
        // what native rejects; "native ok, gadget refuses to build" is the expected outcome.
        let fails_safely = matches!(alt, Alt::CapOversize) && cvc != "panic" && nv != "panic" && !(c_ok && !n_ok);
        if !fails_safely && (n_ok != c_ok || cvc == "panic" || nv == "panic" || cvc == "setup-err") {
            // the class names the direction, the native verdict and the situation (arity, cap,
            // alteration kind), so that a different failure of the same property is a different class
            // `pay` cases also name the kind of path row acted on
            let kind_s = match pay_row {
                Some(rk) => format!("{}:arity{arity}:{rk}", alt.kind()),
                None => alt.kind().to_string(),
            };
            let sit = match pay_row {
                Some(rk) => format!("arity{arity}:{}:{}:{rk}", if cap_len > 1 { "cap" } else { "root" }, alt.kind()),
                None => format!("arity{arity}:{}:{}", if cap_len > 1 { "cap" } else { "root" }, alt.kind()),
            };
            let class = if cvc == "panic" {
                format!("circuit-panics:native-{nv}:{sit}")
            } else if nv == "panic" {
                format!("native-panics:{sit}")
            } else if cvc == "setup-err" {
                format!("circuit-setup-error:native-{nv}:{sit}")
            } else if c_ok {
                format!("circuit-accepts-native-rejects:{nv}:{kind_s}")
            } else if cs.as_ref().map(|c| c.expected_siblings() != o.siblings.len()).unwrap_or(false) {
                // the gadget's path has a different number of sibling slots than the native proof
                format!("circuit-rejects-native-accepts:proof-length-mismatch:arity{arity}:{}", if cap_len > 1 { "cap" } else { "root" })
            } else {
                format!("circuit-rejects-native-accepts:{cvc}:{sit}")
            };
            bump(&mut cx.hist, &format!("violation.{class}"));
            if cx.violations.iter().filter(|v| v["class"] == class.as_str()).count() < 3 {
                cx.violations.push(json!({"property": "C08", "kind": alt.kind(), "class": class,
                    "detail": {"native": nv, "circuit": cv, "case": cid, "num_roots": cap_len, "nbits": nbits},
                    "replay": {"shape": shape_json(s, data_seed), "cases": [[idx, alt.tag()]]}}));
            }
        }
    }
}

pub fn main(args: &crate::Args) {
    let seed = args.u64("seed", 1);
    let ngroups = args.u64("groups", 50) as usize;
    let max_log = args.u64("max-log", 6) as usize;
    let n_indices = args.u64("indices", 4) as usize;
    let all_positions = args.u64("all-positions", 0) == 1;
    let out = args.str("out", "/tmp/p3r");
    std::fs::create_dir_all(&out).unwrap();
    let mut cx = Ctx {
        cases: std::io::BufWriter::new(std::fs::File::create(format!("{out}/mmcs.cases")).unwrap()),
        implo: std::io::BufWriter::new(std::fs::File::create(format!("{out}/mmcs.impl")).unwrap()),
        hist: BTreeMap::new(),
        violations: vec![],
        samples: vec![],
        distinct: HashSet::new(),
        evaluations: 0,
        log16: Arc::new(Mutex::new(vec![])),
        log32: Arc::new(Mutex::new(vec![])),
        on: Arc::new(AtomicBool::new(false)),
        checks: {
            let c = args.str("gadget-checks", "000");
            assert!(c.len() == 3 && c.bytes().all(|b| b == b'0' || b == b'1'), "--gadget-checks takes three 0/1 digits");
            c
        },
    };
    // corpus / replay first: {"shape":{...},"cases":[[index,"alt"],...]} (or wrapped in "replay")
    if let Some(dir) = args.opt("corpus") {
        let mut files: Vec<_> = std::fs::read_dir(&dir).map(|d| d.filter_map(|e| e.ok()).map(|e| e.path()).collect()).unwrap_or_default();
        files.sort();
        for f in files {
            let Ok(txt) = std::fs::read_to_string(&f) else { continue };
            let Ok(v) = serde_json::from_str::<Value>(&txt) else { continue };
            let v = if v.get("shape").is_some() { v } else { v["replay"].clone() };
            let Some((shape, ds)) = shape_from_json(&v["shape"]) else { continue };
            let only: Option<Vec<(usize, Alt)>> = v["cases"].as_array().map(|a| {
                a.iter().filter_map(|c| Some((c[0].as_u64()? as usize, Alt::parse(c[1].as_str()?)?))).collect()
            });
            let gid = format!("corpus:{}", f.file_stem().unwrap().to_string_lossy());
            bump(&mut cx.hist, "corpus.files");
            run_group(&mut cx, &gid, &shape, ds, n_indices, false, only);
        }
    }
    let mut rng = Rng::new(seed);
    for g in 0..ngroups {
        let mut r = rng.fork();
        let shape = gen_shape(&mut r, max_log, g);
        let ds = r.next();
        run_group(&mut cx, &format!("g{seed}.{g}"), &shape, ds, n_indices, all_positions, None);
    }
    cx.cases.flush().unwrap();
    cx.implo.flush().unwrap();
    // malicious-prover experiment (no model counterpart: implementation oracle only). `--forge N` generated
    // groups; corpus / replay files with a "forge" or "forge_acc" key are replayed first.
    let nforge = args.u64("forge", 0) as usize;
    let mut fixed: Vec<Value> = vec![];
    if let Some(dir) = args.opt("corpus") {
        let mut files: Vec<_> = std::fs::read_dir(&dir).map(|d| d.filter_map(|e| e.ok()).map(|e| e.path()).collect()).unwrap_or_default();
        files.sort();
        for f in files {
            let Ok(txt) = std::fs::read_to_string(&f) else { continue };
            let Ok(v) = serde_json::from_str::<Value>(&txt) else { continue };
            let v = if v.get("forge").is_some() || v.get("forge_acc").is_some() { v } else { v["replay"].clone() };
            if v.get("forge").is_some() || v.get("forge_acc").is_some() {
                fixed.push(v);
            }
        }
    }
    let mut forge_eval = 0usize;
    let mut forge_records: Vec<Value> = vec![];
    if nforge > 0 || !fixed.is_empty() {
        let fx = forge::run(seed, nforge, &fixed);
        forge_eval = fx.evaluations;
        for (k, v) in fx.hist {
            *cx.hist.entry(k).or_default() += v;
        }
        cx.violations.extend(fx.violations);
        forge_records = fx.records;
    }
    let report = json!({"evaluations": cx.evaluations, "distinct": cx.distinct.len(), "hist": cx.hist,
        "samples": cx.samples, "violations": cx.violations, "seed": seed,
        "forge_evaluations": forge_eval, "forge_records": forge_records});
    std::fs::write(format!("{out}/mmcs.report.json"), serde_json::to_string_pretty(&report).unwrap()).unwrap();
    println!("mmcs: evaluations={} forge_evaluations={} violations={}", cx.evaluations, forge_eval, cx.violations.len());
}
