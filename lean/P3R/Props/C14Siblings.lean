/-
C14 (sibling counts) — a FRI proof whose commit-phase steps do not carry `2^log_arity − 1` sibling
values is refused when the verifier circuit is built.

Until /repo fc0321f `CommitPhaseProofStepTargets::new` sized the sibling-coefficient targets with
`(2^log_arity − 1)·D` while `get_private_values` packed `sibling_values.len()·D` values, so
`packed = allocated` needed the hypothesis "well-formed sibling counts" (`PcsShape.wf`) and a
malformed proof was stopped by the runner (`PrivateInputLengthMismatch`). Now both traversals read
`sibling_values.len()` (`P3R.C14.packing_aligned_*` hold for *every* shape) and the malformed count
is refused by `verify_fri_circuit` itself, before any constraint is emitted, with checked
arithmetic. `P3R.Packing.friSibCheck` (`Model/Packing.lean`) transcribes that loop.

* `malformed_siblings_rejected` — FULL STRENGTH, every shape, every `D ≥ 1`: a shape that is not
  `wf` makes `friSibCheck` return an error (`InvalidProofShape`; no circuit exists). This replaces
  the former witness `P3R.Witness.C14.wf_needed` ("alignment is false without `wf`").
* `friSibCheck_ok_wf` — the same, read forwards: a build that gets past the check has well-formed
  sibling counts; `friSibCheck_ok_coeffs` is the `D`-independent form used by `no_dead_input_*_built`
  (allocated coefficient count = consumed coefficient count, also for `D = 0`).
* `friSibCheck_ok_schedule` — … and every query follows the schedule of the first one, every
  log-arity is in `1 … 63`.
* `friSibCheck_ok_of_wf` — completeness (the check is not vacuous / does not over-reject): a
  well-formed shape whose queries share one schedule with log-arities in `1 … 63` and coefficient
  counts that fit a `usize` passes.
* `friSibCheck_large_arity_err` — a schedule entry `≥ 64` (where the old code overflowed
  `1usize << log_arity`) is an error whatever the sibling count, for every `D`.

Tied to the Rust by the `sibcheck` correspondence (real `RecursivePcs::verify_circuit` /
`verify_fri_circuit` on generated per-query (log-arity, sibling count) tables; see
`design_notes/C14.md`).
-/
import P3R.Lemmas.Packing

namespace P3R.C14
open P3R.Packing

theorem expectedCoeffs_some {D la n : Nat} (h : expectedCoeffs D la = some n) :
    n = (2 ^ la - 1) * D ∧ la < usizeBits ∧ (2 ^ la - 1) * D < 2 ^ usizeBits := by
  unfold expectedCoeffs at h
  by_cases h1 : la < usizeBits
  · simp only [h1, if_true] at h
    by_cases h2 : (2 ^ la - 1) * D < 2 ^ usizeBits
    · simp only [h2, if_true, Option.some.injEq] at h
      exact ⟨h.symm, h1, h2⟩
    · simp [h2] at h
  · simp [h1] at h

theorem expectedCoeffs_of_fits {D la : Nat} (h1 : la < usizeBits)
    (h2 : (2 ^ la - 1) * D < 2 ^ usizeBits) : expectedCoeffs D la = some ((2 ^ la - 1) * D) := by
  simp [expectedCoeffs, h1, h2]

/-- What one step must satisfy for the loop to go on. -/
def StepOk (D la : Nat) (st : StepShape) : Prop :=
  st.logArity = la ∧ st.siblings * D = (2 ^ la - 1) * D ∧ la < usizeBits ∧
    (2 ^ la - 1) * D < 2 ^ usizeBits

/-- The schedule and the steps of a query agree entry by entry (in particular in length). -/
def StepsOk (D : Nat) : List Nat → List StepShape → Prop
  | [], [] => True
  | la :: las, st :: sts => StepOk D la st ∧ StepsOk D las sts
  | _, _ => False

theorem StepsOk.length_eq {D : Nat} : ∀ {las : List Nat} {sts : List StepShape},
    StepsOk D las sts → las.length = sts.length
  | [], [], _ => rfl
  | _ :: _, _ :: _, h => by simp [StepsOk.length_eq h.2]
  | [], _ :: _, h => h.elim
  | _ :: _, [], h => h.elim

theorem StepsOk.mem_right {D : Nat} : ∀ {las : List Nat} {sts : List StepShape},
    StepsOk D las sts → ∀ st ∈ sts, ∃ la ∈ las, StepOk D la st
  | [], [], _ => fun _ h => by cases h
  | la :: las, s :: sts, h => fun st hst => by
    rcases List.mem_cons.mp hst with rfl | hst'
    · exact ⟨la, List.mem_cons_self .., h.1⟩
    · obtain ⟨a, ha, hr⟩ := StepsOk.mem_right h.2 st hst'
      exact ⟨a, List.mem_cons_of_mem _ ha, hr⟩
  | [], _ :: _, h => h.elim
  | _ :: _, [], h => h.elim

theorem stepsCheck_ok (D q : Nat) :
    ∀ (las : List Nat) (sts : List StepShape) (k : Nat), las.length = sts.length →
      stepsCheck D q k las sts = .ok () → StepsOk D las sts := by
  intro las
  induction las with
  | nil =>
    intro sts k hl _
    cases sts with
    | nil => trivial
    | cons s sts => simp at hl
  | cons la las ih =>
    intro sts k hl h
    cases sts with
    | nil => simp at hl
    | cons s sts =>
      simp only [stepsCheck] at h
      by_cases ha : s.logArity = la
      · by_cases hc : expectedCoeffs D la = some (s.siblings * D)
        · simp only [ha, hc, ne_eq, not_true_eq_false, if_false] at h
          obtain ⟨e1, e2, e3⟩ := expectedCoeffs_some hc
          refine ⟨⟨ha, e1, e2, e3⟩, ih sts (k + 1) ?_ h⟩
          simpa using hl
        · simp [ha, hc] at h
      · simp [ha] at h

theorem stepsCheck_of_ok (D q : Nat) :
    ∀ (las : List Nat) (sts : List StepShape) (k : Nat), StepsOk D las sts →
      stepsCheck D q k las sts = .ok () := by
  intro las
  induction las with
  | nil =>
    intro sts k h
    cases sts with
    | nil => simp [stepsCheck]
    | cons s sts => exact h.elim
  | cons la las ih =>
    intro sts k h
    cases sts with
    | nil => exact h.elim
    | cons s sts =>
      obtain ⟨⟨e0, e1, e2, e3⟩, hr⟩ := h
      simp only [stepsCheck, e0, ne_eq, not_true_eq_false, if_false]
      rw [expectedCoeffs_of_fits e2 e3, e1]
      simpa using ih sts (k + 1) hr

/-- A query that passes: as many steps as the schedule has phases, each step as the schedule says. -/
def QueryOk (D : Nat) (sched : List Nat) (qs : QueryShape) : Prop :=
  StepsOk D sched qs.steps

theorem queryCheck_ok_iff (D : Nat) (sched : List Nat) (q : Nat) (qs : QueryShape) :
    queryCheck D sched q qs = .ok () ↔ QueryOk D sched qs := by
  unfold queryCheck QueryOk
  constructor
  · intro h
    by_cases hl : qs.steps.length = sched.length
    · simp only [hl, ne_eq, not_true_eq_false, if_false] at h
      exact stepsCheck_ok D q sched qs.steps 0 hl.symm h
    · simp [hl] at h
  · intro h
    have hl : qs.steps.length = sched.length := h.length_eq.symm
    simp only [hl, ne_eq, not_true_eq_false, if_false]
    exact stepsCheck_of_ok D q sched qs.steps 0 h

theorem queriesCheck_ok_iff (D : Nat) (sched : List Nat) :
    ∀ (l : List QueryShape) (q : Nat),
      queriesCheck D sched q l = .ok () ↔ ∀ qs ∈ l, QueryOk D sched qs := by
  intro l
  induction l with
  | nil => intro q; simp [queriesCheck]
  | cons a l ih =>
    intro q
    simp only [queriesCheck, List.mem_cons, forall_eq_or_imp]
    cases hq : queryCheck D sched q a with
    | error e =>
      simp only [reduceCtorEq, false_iff, not_and]
      intro ha
      rw [(queryCheck_ok_iff D sched q a).mpr ha] at hq
      cases hq
    | ok u =>
      cases u
      simp only [ih (q + 1)]
      exact ⟨fun h => ⟨(queryCheck_ok_iff D sched q a).mp hq, h⟩, fun h => h.2⟩

theorem zeroPos_none_iff : ∀ (l : List Nat) (k : Nat), zeroPos k l = none ↔ ∀ la ∈ l, 1 ≤ la := by
  intro l
  induction l with
  | nil => intro k; simp [zeroPos]
  | cons a l ih =>
    intro k
    by_cases ha : a = 0
    · simp [zeroPos, ha]
    · simp only [zeroPos, ha, if_false, ih (k + 1), List.mem_cons, forall_eq_or_imp]
      constructor
      · intro h; exact ⟨by omega, h⟩
      · intro h; exact h.2

/-- **Characterisation of an accepted build** (as far as the per-query folding data go). -/
theorem friSibCheck_ok_iff (D : Nat) (f : FriShape) :
    friSibCheck D f = .ok () ↔
      (∀ la ∈ f.schedule, 1 ≤ la) ∧ ∀ qs ∈ f.queries, QueryOk D f.schedule qs := by
  unfold friSibCheck
  cases hz : zeroPos 0 f.schedule with
  | some k =>
    simp only [reduceCtorEq, false_iff, not_and]
    intro h
    rw [(zeroPos_none_iff f.schedule 0).mpr h] at hz
    cases hz
  | none =>
    simp only [queriesCheck_ok_iff]
    exact ⟨fun h => ⟨(zeroPos_none_iff f.schedule 0).mp hz, h⟩, fun h => h.2⟩

/-- An accepted build allocates, for every step, exactly the `(2^log_arity − 1)·D` coefficient
    targets the fold consumes (no hypothesis on `D`). -/
theorem friSibCheck_ok_coeffs (D : Nat) (f : FriShape) (h : friSibCheck D f = .ok ()) :
    ∀ q ∈ f.queries, ∀ st ∈ q.steps, st.siblings * D = (2 ^ st.logArity - 1) * D := by
  intro q hq st hst
  obtain ⟨la, _, h0, h1, _⟩ := StepsOk.mem_right (((friSibCheck_ok_iff D f).mp h).2 q hq) st hst
  rw [h0]; exact h1

/-- **An accepted build has well-formed sibling counts.** -/
theorem friSibCheck_ok_wf (D : Nat) (hD : 0 < D) (f : FriShape) (h : friSibCheck D f = .ok ()) :
    f.wf = true := by
  simp only [FriShape.wf, QueryShape.wf, StepShape.wf, List.all_eq_true, beq_iff_eq]
  intro q hq st hst
  exact Nat.eq_of_mul_eq_mul_right hD (friSibCheck_ok_coeffs D f h q hq st hst)

/-- **A malformed sibling count is rejected with an error when the verifier circuit is built** —
    every FRI shape, every `D ≥ 1`. -/
theorem malformed_siblings_rejected (D : Nat) (hD : 0 < D) (f : FriShape) (h : f.wf = false) :
    ∃ e, friSibCheck D f = .error e := by
  cases hc : friSibCheck D f with
  | error e => exact ⟨e, rfl⟩
  | ok u =>
    cases u
    rw [friSibCheck_ok_wf D hD f hc] at h
    cases h

theorem stepsOk_map {D : Nat} : ∀ {las : List Nat} {sts : List StepShape},
    StepsOk D las sts → las = sts.map StepShape.logArity
  | [], [], _ => rfl
  | _ :: _, _ :: _, h => by simp only [List.map_cons, h.1.1, ← stepsOk_map h.2]
  | [], _ :: _, h => h.elim
  | _ :: _, [], h => h.elim

theorem stepsOk_of_map {D : Nat} : ∀ (sts : List StepShape),
    (∀ st ∈ sts, StepOk D st.logArity st) → StepsOk D (sts.map StepShape.logArity) sts
  | [], _ => trivial
  | s :: sts, h => ⟨h s (List.mem_cons_self ..), stepsOk_of_map sts (fun st hst => h st (List.mem_cons_of_mem _ hst))⟩

/-- An accepted build: every query follows the schedule of the first, log-arities in `1 … 63`. -/
theorem friSibCheck_ok_schedule (D : Nat) (f : FriShape) (h : friSibCheck D f = .ok ()) :
    (∀ q ∈ f.queries, q.steps.map StepShape.logArity = f.schedule) ∧
    ∀ q ∈ f.queries, ∀ st ∈ q.steps, 1 ≤ st.logArity ∧ st.logArity < usizeBits := by
  obtain ⟨hz, hq⟩ := (friSibCheck_ok_iff D f).mp h
  refine ⟨fun q hqm => ?_, fun q hqm st hst => ?_⟩
  · exact (stepsOk_map (hq q hqm)).symm
  · obtain ⟨la, hla, h0, _, h2, _⟩ := StepsOk.mem_right (hq q hqm) st hst
    rw [h0]; exact ⟨hz la hla, h2⟩

/-- **Completeness**: a well-formed shape whose queries share one schedule, with log-arities in
    `1 … 63` and coefficient counts that fit a `usize`, passes the check. -/
theorem friSibCheck_ok_of_wf (D : Nat) (f : FriShape) (hwf : f.wf = true)
    (hs : ∀ q ∈ f.queries, q.steps.map StepShape.logArity = f.schedule)
    (hr : ∀ la ∈ f.schedule, 1 ≤ la ∧ la < usizeBits ∧ (2 ^ la - 1) * D < 2 ^ usizeBits) :
    friSibCheck D f = .ok () := by
  refine (friSibCheck_ok_iff D f).mpr ⟨fun la hla => (hr la hla).1, fun q hq => ?_⟩
  have hw : ∀ st ∈ q.steps, st.siblings = 2 ^ st.logArity - 1 := by
    have : ∀ q ∈ f.queries, ∀ st ∈ q.steps, st.siblings = 2 ^ st.logArity - 1 := by
      simpa [FriShape.wf, QueryShape.wf, StepShape.wf] using hwf
    exact this q hq
  have hsq := hs q hq
  unfold QueryOk
  rw [← hsq]
  have hr' : ∀ st ∈ q.steps, st.logArity < usizeBits ∧ (2 ^ st.logArity - 1) * D < 2 ^ usizeBits := by
    intro st hst
    have : st.logArity ∈ f.schedule := by rw [← hsq]; exact List.mem_map_of_mem hst
    exact (hr _ this).2
  refine stepsOk_of_map q.steps (fun st hst => ⟨rfl, ?_, (hr' st hst).1, (hr' st hst).2⟩)
  rw [hw st hst]

/-- A log-arity of 64 or more (where `1usize << log_arity` overflowed before the repair) in the
    first step of the first query is an error, whatever the sibling count, for every `D`. -/
theorem friSibCheck_large_arity_err (D : Nat) (st : StepShape) (sts : List StepShape)
    (inp : List BatchOpeningShape) (qs : List QueryShape) (c : List Nat) (cp fp : Nat)
    (h : usizeBits ≤ st.logArity) :
    ∃ e, friSibCheck D ⟨c, cp, ⟨inp, st :: sts⟩ :: qs, fp⟩ = .error e := by
  cases hc : friSibCheck D ⟨c, cp, ⟨inp, st :: sts⟩ :: qs, fp⟩ with
  | error e => exact ⟨e, rfl⟩
  | ok u =>
    cases u
    have := (friSibCheck_ok_schedule D _ hc).2 ⟨inp, st :: sts⟩ (List.mem_cons_self ..) st
      (List.mem_cons_self ..)
    omega

/-- Non-vacuity: two queries, arity-2 then arity-8 rounds, `D = 4`: accepted. -/
example : friSibCheck 4 ⟨[1, 1], 2,
    [⟨[⟨[3, 2], []⟩], [⟨1, 1, []⟩, ⟨3, 7, []⟩]⟩, ⟨[⟨[3, 2], []⟩], [⟨1, 1, []⟩, ⟨3, 7, []⟩]⟩], 4⟩ = .ok () := by
  rfl

/-- … and with one sibling too many in the second query's second step: refused there. -/
example : friSibCheck 4 ⟨[1, 1], 2,
    [⟨[⟨[3, 2], []⟩], [⟨1, 1, []⟩, ⟨3, 7, []⟩]⟩, ⟨[⟨[3, 2], []⟩], [⟨1, 1, []⟩, ⟨3, 8, []⟩]⟩], 4⟩
      = .error (.siblings 1 1) := by
  rfl

end P3R.C14

#print axioms P3R.C14.friSibCheck_ok_iff
#print axioms P3R.C14.friSibCheck_ok_coeffs
#print axioms P3R.C14.friSibCheck_ok_wf
#print axioms P3R.C14.malformed_siblings_rejected
#print axioms P3R.C14.friSibCheck_ok_schedule
#print axioms P3R.C14.friSibCheck_ok_of_wf
#print axioms P3R.C14.friSibCheck_large_arity_err
