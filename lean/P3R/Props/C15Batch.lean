/-
C15, batch path — theorems about the guarded-step model `P3R.Shape.verifyBatch` /
`verifyP3Batch` (`Model/BatchShape.lean`) of `verify_batch_circuit` /
`verify_p3_batch_proof_circuit`, for EVERY batch shape vector, EVERY environment (any number of
instances, any AIR facts, any FRI parameters, any word size) — same strength as the uni path
(`Props/C15.lean`).

FULL STATEMENTS (the property as worded) are FALSE of the batch builders too; the negations are
proved on concrete shape vectors in `Witness/C15Batch.lean`, each the shape of a case the harness
replays on the real builders:

    no_panic           : ∀ e s, verifyBatch e s ≠ .panic
    malformed_rejected : ∀ e s, s ≠ honest → verifyBatch e s = .err

What is proved here (`hall` = every step of `batchChecks` holds, which both entry points give):

* `batch_ok_counts` — accepted ⇒ at least one instance, and opened-value instances, public-value
  vectors, `degree_bits`, `lookup_terminals`, common-data lookups, preprocessed metadata all have
  exactly one entry per AIR; every `matrix_to_instance` entry is in range; no ZK parts.
* `batch_ok_instance` — accepted ⇒ for every instance `i`: preprocessed local / next openings
  have the width the common data declares, trace openings have the AIR's width (next row only
  when the AIR opens it), the lookup terminal is present iff the AIR declares interactions, the
  quotient opening is exactly `2^logQd` chunks of `dim` coefficients, the flattened permutation
  openings (local and next) have exactly `aux_width * dim` entries, `degree_bits + logQd` is below
  the word size and at most the field's bit width.
* `batch_ok_lookup_commit` — accepted ⇒ a permutation commitment is present iff some instance has
  lookups.
* `batch_ok_prep` — accepted ⇒ matrix `j` of the preprocessed commitment belongs to an in-range
  instance whose metadata is present, names matrix `j`, has non-zero width and the instance's
  `degree_bits` (so the degree of every instance with preprocessed columns is pinned).
* `batch_ok_fri_validated` — accepted ⇒ the FRI layer is validated (`FriValidated`, as for the uni
  path) and every query opens exactly one batch per commitment round of `batchRounds`.
* `batch_ok_zips` — accepted ⇒ both sides of every zip named in `batchZips` have equal length
  (no zip of the batch builder can truncate silently on an accepted shape).
* `batch_no_panic_partial`, `batchPanicGuards_necessary`, `batchPanicGuards_iff`, `batch_no_panic`,
  `batchChecks_partial_steps` — no panic under the decidable guard hypothesis `BatchPanicGuards`,
  which is *exactly*: the AIR evaluations go through, the shift by the AIR's own `log_qd` is in
  range, every `degree_bits` entry and `degree_bits + logQd` is at most the two-adicity, the
  schedule sum fits a word. (Before the repairs ca07f07 / fc0321f / 069da9d / c030fca it also
  contained the shifts by `degree_bits`, the `log_arity` shift / product / allocation bounds, caps
  non-empty powers of two, `log_max_height ≤ two-adicity`: those are errors now, for every shape —
  `batch_degree_out_of_range_err`, and the FRI theorems of `Props/C15.lean`, which are about the
  same step lists.) Each remaining one is shown necessary by a witness in `Witness/C15Batch.lean`.
* `batch_malformed_rejected_partial` — under the guards, a shape violating any validated
  component is rejected with an error.
* `p3_ok_verifyBatch`, `p3_ok_meta` — `verify_p3_batch_proof_circuit`: accepted ⇒ the table
  metadata passed `BatchStarkProof::validate`, the extension degree is the verifier's, the
  non-primitive manifest matches the plug-ins, and everything above holds.
* `p3_no_panic_partial` — no panic under `P3PanicGuards` (additionally: the circuit-table AIRs can
  be rebuilt from the metadata).
* `batch_terminals_mismatch_err`, `batch_instances_mismatch_err`, `p3_instances_mismatch_err` —
  F9j / F9k / F9l repaired (fix C15-2): a `lookup_terminals` list or an instance list of the wrong
  length is an error for every shape, before any partial step of `verify_batch_circuit` /
  before `allocate`.
* `honest_batch_shapes_ok` — non-vacuity: the honest shapes of the five batch bases of the
  correspondence satisfy the guards and are accepted.

NOT implied (and false, see the witnesses): the number of queries, the cap sizes (F9f, F9g — as in
the uni path), and `degree_bits[i]` of an instance without preprocessed metadata — that one is the
prover's declared trace height, which the native verifier accepts as well
(`Witness.C15Batch.free_degree_accepted`; not a finding).
-/
import P3R.Props.C15
import P3R.Model.BatchShape

namespace P3R.C15Batch
open P3R.Shape P3R.C15

/-! ## Membership of the parts in the whole -/

theorem mem_prefix {e : BatchEnv} {s : BatchShape} {c : Check} (h : c ∈ batchPrefix e s) :
    c ∈ batchChecks e s := by
  simp only [batchChecks, List.mem_append]; exact Or.inl (Or.inl h)

theorem mem_fri {e : BatchEnv} {s : BatchShape} {c : Check}
    (h : c ∈ friVerifyChecks e.base s.fri (batchRounds e s)) : c ∈ batchChecks e s := by
  simp only [batchChecks, List.mem_append]; exact Or.inl (Or.inr h)

theorem mem_post {e : BatchEnv} {s : BatchShape} {c : Check} (h : c ∈ batchPost e s) :
    c ∈ batchChecks e s := by
  simp only [batchChecks, List.mem_append]; exact Or.inr h

theorem mem_count {e : BatchEnv} {s : BatchShape} {c : Check} (h : c ∈ batchCountChecks e s) :
    c ∈ batchChecks e s := by
  apply mem_prefix; simp only [batchPrefix, List.mem_append]; simp [h]

theorem mem_inst {e : BatchEnv} {s : BatchShape} {c : Check} {i : Nat} (hi : i < e.airs.length)
    (h : c ∈ instChecks e s i) : c ∈ batchChecks e s := by
  apply mem_prefix; simp only [batchPrefix, List.mem_append, List.mem_flatMap, List.mem_range]
  exact Or.inl (Or.inl (Or.inl (Or.inl (Or.inl (Or.inl (Or.inl (Or.inl (Or.inr ⟨i, hi, h⟩))))))))

theorem mem_degreeRange {e : BatchEnv} {s : BatchShape} {c : Check} (h : c ∈ degreeRangeChecks e s) :
    c ∈ batchChecks e s := by
  apply mem_prefix; simp only [batchPrefix, List.mem_append]; simp [h]

theorem mem_lookupCommit {e : BatchEnv} {s : BatchShape} :
    must (s.isLookup == s.lookups.any (· != 0)) ∈ batchChecks e s := by
  apply mem_prefix; simp [batchPrefix]

theorem mem_domain {e : BatchEnv} {s : BatchShape} {c : Check} (h : c ∈ domainChecks e s) :
    c ∈ batchChecks e s := by
  apply mem_prefix; simp only [batchPrefix, List.mem_append]; simp [h]

theorem mem_qdomain {e : BatchEnv} {s : BatchShape} {c : Check} (h : c ∈ quotientDomainChecks e s) :
    c ∈ batchChecks e s := by
  apply mem_prefix; simp only [batchPrefix, List.mem_append]; simp [h]

theorem mem_prepRound {e : BatchEnv} {s : BatchShape} {c : Check} (h : c ∈ prepRoundChecks s) :
    c ∈ batchChecks e s := by
  apply mem_prefix; simp only [batchPrefix, List.mem_append]; simp [h]

theorem mem_permRound {e : BatchEnv} {s : BatchShape} {c : Check} (h : c ∈ permRoundChecks e s) :
    c ∈ batchChecks e s := by
  apply mem_prefix; simp only [batchPrefix, List.mem_append]; simp [h]

theorem mem_verifyBatch {e : BatchEnv} {s : BatchShape} {c : Check} (h : c ∈ batchChecks e s) :
    c ∈ verifyBatchChecks e s := by
  simp only [verifyBatchChecks, List.mem_append]; exact Or.inr h

theorem mem_verifyP3 {p : P3Env} {e : BatchEnv} {m : MetaShape} {s : BatchShape} {c : Check}
    (h : c ∈ batchChecks e s) : c ∈ verifyP3BatchChecks p e m s := by
  simp only [verifyP3BatchChecks, List.mem_append]; exact Or.inr h

/-- Every step of the common part holds. -/
def AllHold (e : BatchEnv) (s : BatchShape) : Prop := ∀ c ∈ batchChecks e s, c.holds = true

theorem allHold_of_verifyBatch {e : BatchEnv} {s : BatchShape} (h : verifyBatch e s = .ok) :
    AllHold e s := fun c hc => (run_ok_iff _).mp h c (mem_verifyBatch hc)

theorem allHold_of_verifyP3 {p : P3Env} {e : BatchEnv} {m : MetaShape} {s : BatchShape}
    (h : verifyP3Batch p e m s = .ok) : AllHold e s :=
  fun c hc => (run_ok_iff _).mp h c (mem_verifyP3 hc)

private theorem must_true {e : BatchEnv} {s : BatchShape} (hall : AllHold e s) {b : Bool}
    (h : must b ∈ batchChecks e s) : b = true := by
  have := hall _ h; simpa [must] using this

/-! ## Counts -/

structure CountsValidated (e : BatchEnv) (s : BatchShape) : Prop where
  nonempty : e.airs.length ≠ 0
  instances : s.instances.length = e.airs.length
  publicValues : s.publicValues = e.airs.length
  degreeBits : s.degreeBits.length = e.airs.length
  terminals : s.terminals.length = e.airs.length
  lookups : s.lookups.length = e.airs.length
  prepInstances : ∀ g, s.prep = some g → g.instances.length = e.airs.length
  matrixToInstance : ∀ g, s.prep = some g → ∀ k ∈ g.matrixToInstance, k < e.airs.length
  noRandom : (∀ inst ∈ s.instances, inst.random = none) ∧ s.randomCap = none

theorem batch_ok_counts (e : BatchEnv) (s : BatchShape) (hall : AllHold e s) :
    CountsValidated e s := by
  have h1 := must_true hall (mem_count (by simp [batchCountChecks]) :
    must (e.airs.length != 0) ∈ batchChecks e s)
  have h2 := must_true hall (mem_count (by simp [batchCountChecks]) :
    must (e.airs.length == s.instances.length && e.airs.length == s.publicValues
          && e.airs.length == s.degreeBits.length && e.airs.length == s.terminals.length)
      ∈ batchChecks e s)
  have h3 := must_true hall (mem_count (by simp [batchCountChecks]) :
    must (s.lookups.length == e.airs.length) ∈ batchChecks e s)
  have h4 := must_true hall (mem_count (by simp [batchCountChecks]) :
    must (s.instances.all (·.random.isNone) && s.randomCap.isNone) ∈ batchChecks e s)
  simp only [Bool.and_eq_true, beq_iff_eq, bne_iff_ne, ne_eq] at h1 h2 h3
  obtain ⟨⟨⟨ha, hb⟩, hc⟩, hd⟩ := h2
  refine ⟨h1, ha.symm, hb.symm, hc.symm, hd.symm, h3, ?_, ?_, ?_⟩
  · intro g hg
    have := must_true hall (mem_count (by simp [batchCountChecks, hg]) :
      must (g.instances.length == e.airs.length) ∈ batchChecks e s)
    simpa using this
  · intro g hg k hk
    have := must_true hall (mem_count (by simp [batchCountChecks, hg]) :
      must (g.matrixToInstance.all (· < e.airs.length)) ∈ batchChecks e s)
    have := (List.all_eq_true.mp this) k hk
    simpa using this
  · simp only [Bool.and_eq_true, List.all_eq_true, Option.isNone_iff_eq_none] at h4
    exact h4

/-! ## Per-instance validation -/

structure InstValidated (e : BatchEnv) (s : BatchShape) (i : Nat) : Prop where
  prepLocal : (s.inst i).prepLocal.getD 0 = s.preW i
  prepNext : (s.inst i).prepNext.getD 0 = s.preW i
  traceLocal : (s.inst i).traceLocal = (e.air i).width
  traceNext : (s.inst i).traceNext = if (e.air i).opensNext then (e.air i).width else 0
  /-- the AIR's symbolic evaluations went through, and the terminal is present iff it declares
  interactions -/
  terminal : (e.air i).declares = some (s.terminals.getD i false)
  logQd : (e.air i).logQd = some (e.lq i)
  chunks : (s.inst i).quotientChunks = List.replicate (2 ^ e.lq i) e.base.dim
  permLocal : (s.inst i).permLocal = s.auxWidth i * e.base.dim
  permNext : (s.inst i).permNext = s.auxWidth i * e.base.dim
  /-- fix ca07f07: the instance's quotient domain fits a machine word and the field's bit width -/
  degree : s.db i + e.lq i < e.base.wordBits ∧ s.db i + e.lq i ≤ e.base.valBits

private theorem all_beq_replicate (l : List Nat) (d : Nat) (h : l.all (· == d) = true) :
    l = List.replicate l.length d := by
  induction l with
  | nil => simp
  | cons a l ih =>
    simp only [List.all_cons, Bool.and_eq_true, beq_iff_eq] at h
    simp only [List.length_cons, List.replicate_succ, List.cons.injEq]
    exact ⟨h.1, ih h.2⟩

theorem batch_ok_instance (e : BatchEnv) (s : BatchShape) (hall : AllHold e s)
    (i : Nat) (hi : i < e.airs.length) : InstValidated e s i := by
  have mem : ∀ c, c ∈ instChecks e s i → c ∈ batchChecks e s := fun c hc => mem_inst hi hc
  have h1 := must_true hall (mem _ (by simp [instChecks]) :
    must ((s.inst i).prepLocal.getD 0 == s.preW i && (s.inst i).prepNext.getD 0 == s.preW i)
      ∈ batchChecks e s)
  have h2 := must_true hall (mem _ (by simp [instChecks]) :
    must ((s.inst i).traceLocal == (e.air i).width
          && (s.inst i).traceNext == (if (e.air i).opensNext then (e.air i).width else 0))
      ∈ batchChecks e s)
  have h3 := hall _ (mem (partialStep (e.air i).declares.isSome) (by simp [instChecks]))
  have h4 := must_true hall (mem _ (by simp [instChecks]) :
    must (s.terminals.getD i false == (e.air i).declares.getD false) ∈ batchChecks e s)
  have h5 := hall _ (mem (partialStep (e.air i).logQd.isSome) (by simp [instChecks]))
  have h6 := must_true hall (mem _ (by simp [instChecks]) :
    must ((s.inst i).quotientChunks.length == 2 ^ e.lq i) ∈ batchChecks e s)
  have h7 := must_true hall (mem _ (by simp [instChecks]) :
    must ((s.inst i).quotientChunks.all (· == e.base.dim)) ∈ batchChecks e s)
  have mp : ∀ c, c ∈ batchPost e s → c ∈ batchChecks e s := fun c hc => mem_post hc
  have h8 := must_true hall (mp _ (by
    simp only [batchPost, List.mem_flatMap, List.mem_range]
    exact ⟨i, hi, by simp⟩) :
    must ((s.inst i).permLocal == s.auxWidth i * e.base.dim) ∈ batchChecks e s)
  have h9 := must_true hall (mp _ (by
    simp only [batchPost, List.mem_flatMap, List.mem_range]
    exact ⟨i, hi, by simp⟩) :
    must ((s.inst i).permNext == s.auxWidth i * e.base.dim) ∈ batchChecks e s)
  have h10 := must_true hall (mem_degreeRange (by
    simp only [degreeRangeChecks, List.mem_map, List.mem_range]
    exact ⟨i, hi, rfl⟩) :
    must (decide (s.db i + e.lq i < e.base.wordBits) && decide (s.db i + e.lq i ≤ e.base.valBits))
      ∈ batchChecks e s)
  simp only [Bool.and_eq_true, beq_iff_eq] at h1 h2 h4 h6 h8 h9
  simp only [partialStep] at h3 h5
  refine ⟨h1.1, h1.2, h2.1, h2.2, ?_, ?_, ?_, h8, h9, by simpa using h10⟩
  · cases hd : (e.air i).declares with
    | none => simp [hd] at h3
    | some b => simp [hd] at h4; simp [h4]
  · cases hq : (e.air i).logQd with
    | none => simp [hq] at h5
    | some q => simp [BatchEnv.lq, hq]
  · have := all_beq_replicate _ _ h7
    rw [h6] at this; exact this

/-! ## Lookup commitment -/

theorem batch_ok_lookup_commit (e : BatchEnv) (s : BatchShape) (hall : AllHold e s) :
    s.permCap.isSome = true ↔ ∃ l ∈ s.lookups, l ≠ 0 := by
  have h := must_true hall (mem_lookupCommit (e := e) (s := s))
  simp only [beq_iff_eq, BatchShape.isLookup] at h
  rw [h]; simp

/-! ## Preprocessed round -/

theorem batch_ok_prep (e : BatchEnv) (s : BatchShape) (hall : AllHold e s)
    (g : PrepShape) (hg : s.prep = some g) (j : Nat) (hj : j < g.matrixToInstance.length) :
    let k := g.matrixToInstance.getD j 0
    k < e.airs.length ∧
    ∃ m, g.instances.getD k none = some m ∧ m.matrixIndex = j ∧ m.degreeBits = s.db k ∧
      m.width ≠ 0 ∧ (s.inst k).prepLocal = some m.width ∧ (s.inst k).prepNext = some m.width := by
  intro k
  have hk : k < e.airs.length := by
    apply (batch_ok_counts e s hall).matrixToInstance g hg
    show g.matrixToInstance.getD j 0 ∈ g.matrixToInstance
    have : g.matrixToInstance.getD j 0 = g.matrixToInstance[j] := by
      simp [List.getD_eq_getElem?_getD, hj]
    rw [this]; exact List.getElem_mem hj
  have mem : ∀ c, c ∈ [ must (s.preW k != 0), must (s.inst k).prepLocal.isSome,
        must (s.inst k).prepNext.isSome, must (g.instances.getD k none).isSome,
        must (((g.instances.getD k none).getD default).matrixIndex == j
              && ((g.instances.getD k none).getD default).degreeBits == s.db k) ] →
      c ∈ batchChecks e s := by
    intro c hc
    apply mem_prepRound
    simp only [prepRoundChecks, hg, List.mem_flatMap, List.mem_range]
    exact ⟨j, hj, hc⟩
  have h1 := must_true hall (mem _ (by simp) : must (s.preW k != 0) ∈ batchChecks e s)
  have h2 := must_true hall (mem _ (by simp) : must (s.inst k).prepLocal.isSome ∈ batchChecks e s)
  have h3 := must_true hall (mem _ (by simp) : must (s.inst k).prepNext.isSome ∈ batchChecks e s)
  have h4 := must_true hall (mem _ (by simp) :
    must (g.instances.getD k none).isSome ∈ batchChecks e s)
  have h5 := must_true hall (mem _ (by simp) :
    must (((g.instances.getD k none).getD default).matrixIndex == j
          && ((g.instances.getD k none).getD default).degreeBits == s.db k) ∈ batchChecks e s)
  have hv := batch_ok_instance e s hall k hk
  refine ⟨hk, ?_⟩
  have hw0 : s.preW k = match g.instances.getD k none with | some m => m.width | none => 0 := by
    simp only [BatchShape.preW, hg]; rfl
  generalize g.instances.getD k none = om at h4 h5 hw0 ⊢
  cases om with
  | none => simp at h4
  | some m =>
    have hw : s.preW k = m.width := hw0
    simp only [Option.getD_some, Bool.and_eq_true, beq_iff_eq] at h5
    refine ⟨m, rfl, h5.1, h5.2, ?_, ?_, ?_⟩
    · simpa [hw] using h1
    · have := hv.prepLocal
      cases hl : (s.inst k).prepLocal with
      | none => simp [hl] at h2
      | some w => simp [hl, hw] at this; simp [this]
    · have := hv.prepNext
      cases hl : (s.inst k).prepNext with
      | none => simp [hl] at h3
      | some w => simp [hl, hw] at this; simp [this]

/-! ## FRI layer -/

theorem batch_ok_fri_validated (e : BatchEnv) (s : BatchShape) (hall : AllHold e s) :
    FriValidated e.base s.fri ∧
    (∀ q ∈ s.fri.queries, q.inputProof.length = (batchRounds e s).length) := by
  have key : ∀ b : Bool, must b ∈ friVerifyChecks e.base s.fri (batchRounds e s) → b = true :=
    fun b hb => must_true hall (mem_fri hb)
  have g1 := key _ (by simp [friVerifyChecks] :
    must (s.fri.commitCaps.length == s.fri.powWitnesses) ∈ friVerifyChecks e.base s.fri (batchRounds e s))
  have g2 := key _ (by simp [friVerifyChecks] :
    must (s.fri.logArities.length == s.fri.commitCaps.length) ∈ friVerifyChecks e.base s.fri (batchRounds e s))
  have g2' := key _ (by simp [friVerifyChecks] :
    must (s.fri.logArities.all (· != 0)) ∈ friVerifyChecks e.base s.fri (batchRounds e s))
  have g3 := key _ (by simp [friVerifyChecks] :
    must (s.fri.queries.length != 0) ∈ friVerifyChecks e.base s.fri (batchRounds e s))
  have g5 := key _ (by simp [friVerifyChecks] :
    must (isPow2 s.fri.finalPolyLen && log2 s.fri.finalPolyLen == e.base.logFinalPolyLen)
      ∈ friVerifyChecks e.base s.fri (batchRounds e s))
  have g6 := key _ (by simp [friVerifyChecks] :
    must (decide (logMaxHeight e.base s.fri ≤ e.base.valBits)) ∈ friVerifyChecks e.base s.fri (batchRounds e s))
  have g7 := key _ (by simp [friVerifyChecks] :
    must (decide (logMaxHeight e.base s.fri ≤ e.base.twoAdicity)) ∈ friVerifyChecks e.base s.fri (batchRounds e s))
  have g5' : s.fri.finalPolyLen = 2 ^ e.base.logFinalPolyLen := by
    simp only [isPow2, Bool.and_eq_true, bne_iff_ne, ne_eq, beq_iff_eq] at g5
    rw [← g5.2, g5.1.2]
  have qmem : ∀ q ∈ s.fri.queries, ∀ c ∈ queryScheduleChecks e.base s.fri.logArities q,
      c ∈ friVerifyChecks e.base s.fri (batchRounds e s) := by
    intro q hq c hc
    simp only [friVerifyChecks, List.mem_append, List.mem_flatMap]
    exact Or.inl (Or.inl (Or.inr ⟨q, hq, hc⟩))
  refine ⟨⟨by simpa using g1, by simpa using g2, ?_, ?_, ?_, ?_, g5', by simpa using g6,
    by simpa using g7⟩, ?_⟩
  · intro la hla
    have := (List.all_eq_true.mp g2') la hla
    simp only [bne_iff_ne, ne_eq] at this
    omega
  · intro hn; simp [hn] at g3
  · intro q hq
    have := key (q.steps == s.fri.logArities) (qmem q hq _ (by simp [queryScheduleChecks]))
    simpa using this
  · intro q hq i hi
    have := key (siblingOk e.base (s.fri.logArities.getD i 0) (q.siblings.getD i 0)) (qmem q hq _ (by
      simp only [queryScheduleChecks, List.mem_cons, List.mem_map, List.mem_range]
      exact Or.inr ⟨i, hi, rfl⟩))
    simp only [siblingOk, Bool.and_eq_true, decide_eq_true_eq, beq_iff_eq] at this
    exact ⟨this.1, this.2.2⟩
  · intro q hq
    have := key ((batchRounds e s).length == q.inputProof.length) (by
      simp only [friVerifyChecks, openInputChecks, List.mem_append, List.mem_flatMap]
      refine Or.inr ⟨q, hq, Or.inl (Or.inl (Or.inl (Or.inr ?_)))⟩
      simp)
    simp only [beq_iff_eq] at this
    exact this.symm

/-! ## No zip truncates on an accepted shape -/

theorem batch_ok_zips (e : BatchEnv) (s : BatchShape) (hall : AllHold e s) :
    ∀ z ∈ batchZips e s, z.2.1 = z.2.2 := by
  have hc := batch_ok_counts e s hall
  have hf := (batch_ok_fri_validated e s hall).1
  intro z hz
  simp only [batchZips, List.mem_append, List.mem_cons, List.mem_map, List.mem_range,
    List.not_mem_nil, or_false] at hz
  have e1 := hc.instances; have e2 := hc.publicValues; have e3 := hc.degreeBits
  have e4 := hc.terminals; have e5 := hc.lookups; have e6 := hf.powEq
  rcases hz with (hz | ⟨i, hi, rfl⟩) | hz
  · rcases hz with rfl | rfl | rfl | rfl | rfl | rfl | rfl | rfl | rfl | rfl | rfl | rfl | rfl <;>
      simp only <;> omega
  · have := (batch_ok_instance e s hall i hi).chunks
    simp only [this, List.length_replicate]
  · cases hg : s.prep with
    | none => simp [hg] at hz
    | some g =>
      simp only [hg, List.mem_cons, List.not_mem_nil, or_false] at hz
      subst hz
      exact hc.prepInstances g hg

/-! ## No panic under the guards -/

/-- Every unchecked partial step of `allocate` + `verify_batch_circuit` goes through. -/
def BatchPanicGuards (e : BatchEnv) (s : BatchShape) : Bool :=
  (verifyBatchChecks e s).all fun c => c.kind != .panic || c.holds

theorem batch_no_panic_partial (e : BatchEnv) (s : BatchShape) (h : BatchPanicGuards e s = true) :
    verifyBatch e s ≠ .panic := by
  apply run_no_panic
  intro c hc hk
  have := (List.all_eq_true.mp h) c hc
  simpa [hk] using this

/-- What `BatchPanicGuards` contains: the AIR evaluations go through (F9m when they do not), the
shift by the AIR's own `log_qd` is in range, every `degree_bits` entry and every `degree_bits +
log_qd` is at most the two-adicity (rest of F9a), and the unchecked sum of the schedule fits a
word. Since ca07f07 / fc0321f / 069da9d / c030fca the shifts by `degree_bits`, everything about
`log_arity`, the caps and `log_max_height ≤ two-adicity` are no longer among them;
`batchPanicGuards_iff` shows that nothing else is. -/
theorem batchPanicGuards_necessary (e : BatchEnv) (s : BatchShape) (h : BatchPanicGuards e s = true) :
    (∀ i < e.airs.length, ((e.air i).declares.isSome ∧ (e.air i).logQd.isSome ∧ e.lq i < e.base.wordBits) ∧
      s.db i + e.lq i ≤ e.base.twoAdicity) ∧
    (∀ db ∈ s.degreeBits, db ≤ e.base.twoAdicity) ∧
    sum s.fri.logArities < 2 ^ e.base.wordBits := by
  have hall := List.all_eq_true.mp h
  have key : ∀ b : Bool, partialStep b ∈ verifyBatchChecks e s → b = true := by
    intro b hb
    have := hall _ hb
    simpa [partialStep] using this
  have keyB : ∀ b : Bool, partialStep b ∈ batchChecks e s → b = true :=
    fun b hb => key b (mem_verifyBatch hb)
  refine ⟨?_, ?_, ?_⟩
  · intro i hi
    have a1 := keyB _ (mem_inst hi (by simp [instChecks]) :
      partialStep (e.air i).declares.isSome ∈ batchChecks e s)
    have a2 := keyB _ (mem_inst hi (by simp [instChecks]) :
      partialStep (e.air i).logQd.isSome ∈ batchChecks e s)
    have a3 := keyB _ (mem_inst hi (by simp [instChecks]) :
      partialStep (decide (e.lq i < e.base.wordBits)) ∈ batchChecks e s)
    have a5 := keyB _ (mem_qdomain (by
      simp only [quotientDomainChecks, List.mem_map, List.mem_range]
      exact ⟨i, hi, rfl⟩) :
      partialStep (decide (s.db i + e.lq i ≤ e.base.twoAdicity)) ∈ batchChecks e s)
    exact ⟨⟨a1, a2, by simpa using a3⟩, by simpa using a5⟩
  · intro db hdb
    have a2 := keyB _ (mem_domain (by
      simp only [domainChecks, List.mem_map]
      exact ⟨db, hdb, rfl⟩) : partialStep (decide (db ≤ e.base.twoAdicity)) ∈ batchChecks e s)
    simpa using a2
  · have := keyB _ (mem_fri (by simp [friVerifyChecks]) :
      partialStep (decide (sum s.fri.logArities < 2 ^ e.base.wordBits)) ∈ batchChecks e s)
    simpa using this

/-! ## Exactly which steps can still panic (after ca07f07, fc0321f, 069da9d, c030fca) -/

theorem batchCountChecks_allErr (e : BatchEnv) (s : BatchShape) : AllErr (batchCountChecks e s) := by
  intro c hc
  simp only [batchCountChecks, List.mem_append, List.mem_cons, List.not_mem_nil, or_false] at hc
  rcases hc with ((rfl | rfl | rfl) | hc) | rfl
  · rfl
  · rfl
  · rfl
  · cases hg : s.prep with
    | none => simp [hg] at hc
    | some g =>
      simp only [hg, List.mem_cons, List.not_mem_nil, or_false] at hc
      rcases hc with rfl | rfl <;> rfl
  · rfl

theorem prepRoundChecks_allErr (s : BatchShape) : AllErr (prepRoundChecks s) := by
  intro c hc
  cases hg : s.prep with
  | none => simp [prepRoundChecks, hg] at hc
  | some g =>
    simp only [prepRoundChecks, hg, List.mem_flatMap, List.mem_range, List.mem_cons,
      List.not_mem_nil, or_false] at hc
    obtain ⟨j, _, hc⟩ := hc
    rcases hc with rfl | rfl | rfl | rfl | rfl <;> rfl

theorem permRoundChecks_allErr (e : BatchEnv) (s : BatchShape) : AllErr (permRoundChecks e s) := by
  intro c hc
  by_cases hl : s.isLookup = true
  · simp only [permRoundChecks, hl, if_true, List.mem_map] at hc
    obtain ⟨i, _, rfl⟩ := hc; rfl
  · simp [permRoundChecks, hl] at hc

theorem batchPost_allErr (e : BatchEnv) (s : BatchShape) : AllErr (batchPost e s) := by
  intro c hc
  simp only [batchPost, List.mem_flatMap, List.mem_cons, List.not_mem_nil, or_false] at hc
  obtain ⟨i, _, rfl | rfl⟩ := hc <;> rfl

theorem friChallengeChecks_allErr (e : Env) (f : FriShape) : AllErr (friChallengeChecks e f) := by
  intro c hc
  simp only [friChallengeChecks, List.mem_cons, List.not_mem_nil, or_false] at hc
  rcases hc with rfl | rfl <;> rfl

/-- Every partial step of the batch builder, listed: the AIR's two symbolic evaluations and the
shift by its own `log_qd` (per instance), the two domain constructors, and the unchecked schedule
sum. Everything else — all counts, the `degree_bits` range test, the rounds, the whole FRI + MMCS
part, the permutation openings — is an explicit error return. -/
theorem batchChecks_partial_steps (e : BatchEnv) (s : BatchShape) :
    ∀ c ∈ batchChecks e s, c.kind = .panic →
      (∃ i < e.airs.length, c = partialStep (e.air i).declares.isSome ∨
        c = partialStep (e.air i).logQd.isSome ∨ c = partialStep (decide (e.lq i < e.base.wordBits)) ∨
        c = partialStep (decide (s.db i + e.lq i ≤ e.base.twoAdicity))) ∨
      (∃ db ∈ s.degreeBits, c = partialStep (decide (db ≤ e.base.twoAdicity))) ∨
      c = partialStep (decide (sum s.fri.logArities < 2 ^ e.base.wordBits)) := by
  intro c hc hk
  have no : ∀ {cs : List Check}, AllErr cs → c ∈ cs → False := by
    intro cs h hm; rw [h c hm] at hk; cases hk
  simp only [batchChecks, batchPrefix, List.mem_append] at hc
  rcases hc with (((((((((((hc | hc) | hc) | hc) | hc) | hc) | hc) | hc) | hc) | hc) | hc) | hc)
  · exact (no (batchCountChecks_allErr e s) hc).elim
  · simp only [List.mem_flatMap, List.mem_range, instChecks, List.mem_cons, List.not_mem_nil,
      or_false] at hc
    obtain ⟨i, hi, hc⟩ := hc
    rcases hc with rfl | rfl | rfl | rfl | rfl | rfl | rfl | rfl | rfl
    · exact absurd hk (by simp [must])
    · exact absurd hk (by simp [must])
    · exact Or.inl ⟨i, hi, Or.inl rfl⟩
    · exact absurd hk (by simp [must])
    · exact Or.inl ⟨i, hi, Or.inr (Or.inl rfl)⟩
    · exact Or.inl ⟨i, hi, Or.inr (Or.inr (Or.inl rfl))⟩
    · exact absurd hk (by simp [must])
    · exact absurd hk (by simp [must])
    · exact absurd hk (by simp [must])
  · exact (no (AllErr.map_must _ _) hc).elim
  · simp only [List.mem_cons, List.not_mem_nil, or_false] at hc
    subst hc; exact absurd hk (by simp [must])
  · simp only [domainChecks, List.mem_map] at hc
    obtain ⟨db, hdb, rfl⟩ := hc
    exact Or.inr (Or.inl ⟨db, hdb, rfl⟩)
  · simp only [quotientDomainChecks, List.mem_map, List.mem_range] at hc
    obtain ⟨i, hi, rfl⟩ := hc
    exact Or.inl ⟨i, hi, Or.inr (Or.inr (Or.inr rfl))⟩
  · exact (no (AllErr.map_must _ _) hc).elim
  · exact (no (prepRoundChecks_allErr s) hc).elim
  · exact (no (permRoundChecks_allErr e s) hc).elim
  · exact (no (friChallengeChecks_allErr e.base s.fri) hc).elim
  · exact Or.inr (Or.inr (friVerifyChecks_partial_steps e.base s.fri _ c hc hk))
  · exact (no (batchPost_allErr e s) hc).elim

/-- `BatchPanicGuards` is *exactly* the conditions of `batchPanicGuards_necessary`. -/
theorem batchPanicGuards_iff (e : BatchEnv) (s : BatchShape) :
    BatchPanicGuards e s = true ↔
      (∀ i < e.airs.length, ((e.air i).declares.isSome ∧ (e.air i).logQd.isSome ∧ e.lq i < e.base.wordBits) ∧
        s.db i + e.lq i ≤ e.base.twoAdicity) ∧
      (∀ db ∈ s.degreeBits, db ≤ e.base.twoAdicity) ∧
      sum s.fri.logArities < 2 ^ e.base.wordBits := by
  constructor
  · exact batchPanicGuards_necessary e s
  · rintro ⟨h1, h2, h3⟩
    apply List.all_eq_true.mpr
    intro c hc
    cases hk : c.kind with
    | err => simp
    | panic =>
      simp only [verifyBatchChecks, List.mem_append, List.mem_cons, List.not_mem_nil, or_false] at hc
      rcases hc with rfl | hc
      · exact absurd hk (by simp [must])
      · rcases batchChecks_partial_steps e s c hc hk with ⟨i, hi, hc⟩ | ⟨db, hdb, rfl⟩ | rfl
        · have g := h1 i hi
          rcases hc with rfl | rfl | rfl | rfl
          · simp [partialStep, g.1.1]
          · simp [partialStep, g.1.2.1]
          · simp [partialStep, g.1.2.2]
          · simp [partialStep, g.2]
        · simp [partialStep, h2 db hdb]
        · simp [partialStep, h3]

/-- The no-panic theorem of the batch builder with the guard spelled out (stronger than before
the repairs: nothing about `log_arity`, the caps, `log_max_height`, or shifts by `degree_bits`). -/
theorem batch_no_panic (e : BatchEnv) (s : BatchShape)
    (h1 : ∀ i < e.airs.length, ((e.air i).declares.isSome ∧ (e.air i).logQd.isSome ∧ e.lq i < e.base.wordBits) ∧
      s.db i + e.lq i ≤ e.base.twoAdicity)
    (h2 : ∀ db ∈ s.degreeBits, db ≤ e.base.twoAdicity)
    (h3 : sum s.fri.logArities < 2 ^ e.base.wordBits) : verifyBatch e s ≠ .panic :=
  batch_no_panic_partial e s ((batchPanicGuards_iff e s).mpr ⟨h1, h2, h3⟩)

/-- F9a repaired part, batch builder (ca07f07): once the counts and the per-instance validation loop
go through, an instance whose `degree_bits + log_qd` does not fit a machine word or exceeds the
field's bit width makes `verify_batch_circuit` return an error — for every shape (before:
`1 << degree_bits` overflow / domain-constructor panics). -/
theorem batch_degree_out_of_range_err (e : BatchEnv) (s : BatchShape)
    (hpre : run (batchCountChecks e s ++ (List.range e.airs.length).flatMap (instChecks e s)) = .ok)
    (h : ∃ i < e.airs.length,
      ¬ (s.db i + e.lq i < e.base.wordBits ∧ s.db i + e.lq i ≤ e.base.valBits)) :
    run (batchChecks e s) = .err := by
  unfold batchChecks batchPrefix
  simp only [List.append_assoc]
  rw [← List.append_assoc (batchCountChecks e s), run_append, hpre]
  apply run_err_of_must_prefix
  · exact AllErr.map_must _ _
  · obtain ⟨i, hi, hne⟩ := h
    refine ⟨must (decide (s.db i + e.lq i < e.base.wordBits) && decide (s.db i + e.lq i ≤ e.base.valBits)),
      ?_, ?_⟩
    · simp only [degreeRangeChecks, List.mem_map, List.mem_range]
      exact ⟨i, hi, rfl⟩
    · cases hx : (decide (s.db i + e.lq i < e.base.wordBits) && decide (s.db i + e.lq i ≤ e.base.valBits))
      · rfl
      · simp only [Bool.and_eq_true, decide_eq_true_eq] at hx; exact absurd hx hne

/-- Under the guard hypothesis a shape violating any validated component is rejected with an
error. -/
theorem batch_malformed_rejected_partial (e : BatchEnv) (s : BatchShape)
    (hg : BatchPanicGuards e s = true)
    (hbad : ¬ (CountsValidated e s ∧ (∀ i < e.airs.length, InstValidated e s i) ∧
      FriValidated e.base s.fri ∧
      (∀ q ∈ s.fri.queries, q.inputProof.length = (batchRounds e s).length) ∧
      (∀ z ∈ batchZips e s, z.2.1 = z.2.2))) :
    verifyBatch e s = .err := by
  rcases run_trichotomy (verifyBatchChecks e s) with h | h | h
  · have hall := allHold_of_verifyBatch h
    exact absurd ⟨batch_ok_counts e s hall, fun i hi => batch_ok_instance e s hall i hi,
      (batch_ok_fri_validated e s hall).1, (batch_ok_fri_validated e s hall).2,
      batch_ok_zips e s hall⟩ hbad
  · exact h
  · exact absurd h (batch_no_panic_partial e s hg)

/-! ## Completeness: well-formed shapes are accepted -/

/-- The conclusion of `batch_ok_prep`, as a predicate. -/
def PrepValidated (_e : BatchEnv) (s : BatchShape) : Prop :=
  ∀ g, s.prep = some g → ∀ j < g.matrixToInstance.length,
    ∃ m, g.instances.getD (g.matrixToInstance.getD j 0) none = some m ∧ m.matrixIndex = j ∧
      m.degreeBits = s.db (g.matrixToInstance.getD j 0) ∧ m.width ≠ 0 ∧
      (s.inst (g.matrixToInstance.getD j 0)).prepLocal = some m.width ∧
      (s.inst (g.matrixToInstance.getD j 0)).prepNext = some m.width

/-- The arithmetic side conditions of the STARK layer (the STARK-layer content of
`BatchPanicGuards`, see `batchPanicGuards_necessary`). -/
def StarkGuards (e : BatchEnv) (s : BatchShape) : Prop :=
  (∀ i < e.airs.length, e.lq i < e.base.wordBits ∧ s.db i + e.lq i ≤ e.base.twoAdicity) ∧
  (∀ db ∈ s.degreeBits, db ≤ e.base.twoAdicity)

/-- Converse of `batch_ok_*` ("well-formed shapes are accepted", for every number of instances
and every shape): if every component the validation covers has its expected value, the arithmetic
guards hold and the FRI / MMCS part (challenge checks, `verify_circuit` on the rounds
the batch builder assembles; target allocation has no shape-dependent step since fc0321f) goes through, the batch builder accepts. Together with `batch_ok_*`:
`verifyBatch e s = .ok` iff the STARK layer is exactly as expected and the PCS part accepts. -/
theorem batch_wellformed_accepted (e : BatchEnv) (s : BatchShape)
    (hc : CountsValidated e s) (hi : ∀ i < e.airs.length, InstValidated e s i)
    (hl : s.permCap.isSome = true ↔ ∃ l ∈ s.lookups, l ≠ 0) (hp : PrepValidated e s)
    (hg : StarkGuards e s)
    (hfc : run (friChallengeChecks e.base s.fri) = .ok)
    (hfv : run (friVerifyChecks e.base s.fri (batchRounds e s)) = .ok) :
    verifyBatch e s = .ok := by
  apply (run_ok_iff _).mpr
  intro c hcm
  simp only [verifyBatchChecks, batchChecks, batchPrefix, List.mem_append] at hcm
  rcases hcm with hcm | (((((((((((hcm | hcm) | hcm) | hcm) | hcm) | hcm) | hcm) | hcm) | hcm) | hcm) | hcm) | hcm)
  · simp only [List.mem_cons, List.not_mem_nil, or_false] at hcm
    subst hcm
    simp [must, hc.instances, hc.publicValues]
  · -- counts
    simp only [batchCountChecks, List.mem_append, List.mem_cons, List.not_mem_nil, or_false] at hcm
    rcases hcm with ((rfl | rfl | rfl) | hcm) | rfl
    · simpa [must] using hc.nonempty
    · simp [must, hc.instances, hc.publicValues, hc.degreeBits, hc.terminals]
    · simp [must, hc.lookups]
    · cases hgp : s.prep with
      | none => simp [hgp] at hcm
      | some g =>
        simp only [hgp, List.mem_cons, List.not_mem_nil, or_false] at hcm
        rcases hcm with rfl | rfl
        · simp [must, hc.prepInstances g hgp]
        · simp only [must, List.all_eq_true, decide_eq_true_eq]
          exact hc.matrixToInstance g hgp
    · simp only [must, Bool.and_eq_true, List.all_eq_true, Option.isNone_iff_eq_none]
      exact hc.noRandom
  · -- per-instance loop
    simp only [List.mem_flatMap, List.mem_range] at hcm
    obtain ⟨i, hi', hcm⟩ := hcm
    have v := hi i hi'
    have g := hg.1 i hi'
    simp only [instChecks, List.mem_cons, List.not_mem_nil, or_false] at hcm
    rcases hcm with rfl | rfl | rfl | rfl | rfl | rfl | rfl | rfl | rfl
    · simp [must, v.prepLocal, v.prepNext]
    · simp [must, v.traceLocal, v.traceNext]
    · simp [partialStep, v.terminal]
    · simp [must, v.terminal]
    · simp [partialStep, v.logQd]
    · simp [partialStep, g.1]
    · simp [must, v.chunks]
    · simp [must, v.chunks]
    · have := hc.noRandom.1 (s.inst i) (by
        have : i < s.instances.length := by rw [hc.instances]; exact hi'
        simp only [BatchShape.inst, List.getD_eq_getElem?_getD, List.getElem?_eq_getElem this,
          Option.getD_some]
        exact List.getElem_mem this)
      simp [must, this]
  · -- degree range (fix ca07f07)
    simp only [degreeRangeChecks, List.mem_map, List.mem_range] at hcm
    obtain ⟨i, hi', rfl⟩ := hcm
    have v := (hi i hi').degree
    simp [must, v.1, v.2]
  · -- lookup commitment
    simp only [List.mem_cons, List.not_mem_nil, or_false] at hcm
    subst hcm
    simp only [must, beq_iff_eq, BatchShape.isLookup]
    rcases Bool.eq_false_or_eq_true s.permCap.isSome with h | h
    · rw [h]; symm; simpa using hl.mp h
    · rw [h]; symm
      simp only [List.any_eq_false, bne_iff_ne, ne_eq, Decidable.not_not]
      intro l hlm
      by_cases hne : l = 0
      · exact hne
      · have := hl.mpr ⟨l, hlm, hne⟩
        simp [h] at this
  · -- domains
    simp only [domainChecks, List.mem_map] at hcm
    obtain ⟨db, hdb, rfl⟩ := hcm
    have g := hg.2 db hdb
    simp [partialStep, g]
  · -- quotient domains
    simp only [quotientDomainChecks, List.mem_map, List.mem_range] at hcm
    obtain ⟨i, hi', rfl⟩ := hcm
    have g := hg.1 i hi'
    simp [partialStep, g.2]
  · -- quotient round
    simp only [quotientRoundChecks, List.mem_map, List.mem_range] at hcm
    obtain ⟨i, hi', rfl⟩ := hcm
    simp [must, (hi i hi').chunks]
  · -- preprocessed round
    cases hgp : s.prep with
    | none => simp [prepRoundChecks, hgp] at hcm
    | some g =>
      simp only [prepRoundChecks, hgp, List.mem_flatMap, List.mem_range, List.mem_cons,
        List.not_mem_nil, or_false] at hcm
      obtain ⟨j, hj, hcm⟩ := hcm
      obtain ⟨m, hm, h1, h2, h3, h4, h5⟩ := hp g hgp j hj
      have hw : s.preW (g.matrixToInstance.getD j 0) = m.width := by
        simp only [BatchShape.preW, hgp, hm]
      rcases hcm with rfl | rfl | rfl | rfl | rfl <;> simp only [must]
      · rw [hw]; simpa using h3
      · rw [h4]; rfl
      · rw [h5]; rfl
      · rw [hm]; rfl
      · rw [hm]; simp only [Option.getD_some, h1, h2, beq_self_eq_true, Bool.and_self]
  · -- permutation round
    by_cases hlk : s.isLookup = true
    · simp only [permRoundChecks, hlk, if_true, List.mem_map, List.mem_range] at hcm
      obtain ⟨i, hi', rfl⟩ := hcm
      simp [must, (hi i hi').permLocal, (hi i hi').permNext]
    · simp [permRoundChecks, hlk] at hcm
  · exact (run_ok_iff _).mp hfc c hcm
  · exact (run_ok_iff _).mp hfv c hcm
  · -- after the PCS
    simp only [batchPost, List.mem_flatMap, List.mem_range] at hcm
    obtain ⟨i, hi', hcm⟩ := hcm
    simp only [List.mem_cons, List.not_mem_nil, or_false] at hcm
    rcases hcm with rfl | rfl
    · simp [must, (hi i hi').permLocal]
    · simp [must, (hi i hi').permNext]

/-! ## `verify_p3_batch_proof_circuit` -/

theorem p3_ok_verifyBatch (p : P3Env) (e : BatchEnv) (m : MetaShape) (s : BatchShape)
    (h : verifyP3Batch p e m s = .ok) : verifyBatch e s = .ok := by
  have hall := (run_ok_iff _).mp h
  apply (run_ok_iff _).mpr
  intro c hc
  simp only [verifyBatchChecks, List.mem_append, List.mem_cons, List.not_mem_nil, or_false] at hc
  rcases hc with rfl | hc
  · exact hall _ (by simp [verifyP3BatchChecks, p3Prefix])
  · exact hall _ (mem_verifyP3 hc)

/-- What `BatchStarkProof::validate` and the manifest checks pin down. -/
structure MetaValidated (p : P3Env) (m : MetaShape) (s : BatchShape) : Prop where
  extDegree : m.extDegree = p.traceD
  extDegreeSupported : m.extDegree ∈ [1, 2, 4, 5, 6, 8]
  rows : ∀ r ∈ m.rows, r ≠ 0
  lanes : m.publicLanes ≠ 0 ∧ m.aluLanes ≠ 0 ∧ (∀ l ∈ m.npoLanes, l ≠ 0) ∧ (∀ l ∈ m.nonPrimLanes, l ≠ 0)
  minTraceHeight : isPow2 m.minTraceHeight = true
  horner : 2 ≤ m.hornerSteps
  manifest : m.nonPrimLanes.length = p.numProvers ∧ p.npoEntriesOk = true
  instances : s.instances.length = s.publicValues
  airsBuilt : p.airsBuild = true

theorem p3_ok_meta (p : P3Env) (e : BatchEnv) (m : MetaShape) (s : BatchShape)
    (h : verifyP3Batch p e m s = .ok) : MetaValidated p m s := by
  have hall := (run_ok_iff _).mp h
  have key : ∀ b : Bool, must b ∈ p3Prefix p m s → b = true := by
    intro b hb
    have := hall (must b) (by simp only [verifyP3BatchChecks, List.mem_append]; exact Or.inl hb)
    simpa [must] using this
  have k1 := key _ (by simp [p3Prefix] : must (m.extDegree == p.traceD) ∈ p3Prefix p m s)
  have k2 := key _ (by simp [p3Prefix] :
    must (m.extDegree == 1 || m.extDegree == 2 || m.extDegree == 4 || m.extDegree == 5
          || m.extDegree == 6 || m.extDegree == 8) ∈ p3Prefix p m s)
  have k3 := key _ (by simp [p3Prefix] : must (m.rows.all (· != 0)) ∈ p3Prefix p m s)
  have k4 := key _ (by simp [p3Prefix] : must (m.publicLanes != 0) ∈ p3Prefix p m s)
  have k5 := key _ (by simp [p3Prefix] : must (m.aluLanes != 0) ∈ p3Prefix p m s)
  have k6 := key _ (by simp [p3Prefix] : must (m.npoLanes.all (· != 0)) ∈ p3Prefix p m s)
  have k7 := key _ (by simp [p3Prefix] : must (isPow2 m.minTraceHeight) ∈ p3Prefix p m s)
  have k8 := key _ (by simp [p3Prefix] : must (decide (2 ≤ m.hornerSteps)) ∈ p3Prefix p m s)
  have k9 := key _ (by simp [p3Prefix] : must (m.nonPrimLanes.all (· != 0)) ∈ p3Prefix p m s)
  have k10 := key _ (by simp [p3Prefix] : must (m.nonPrimLanes.length == p.numProvers) ∈ p3Prefix p m s)
  have k11 := key _ (by simp [p3Prefix] : must p.npoEntriesOk ∈ p3Prefix p m s)
  have k12 := key _ (by simp [p3Prefix] : must (s.instances.length == s.publicValues) ∈ p3Prefix p m s)
  have k13 := hall (partialStep p.airsBuild) (by simp [verifyP3BatchChecks, p3Prefix])
  simp only [List.all_eq_true, bne_iff_ne, ne_eq, beq_iff_eq, decide_eq_true_eq, Bool.or_eq_true] at *
  refine ⟨k1, ?_, k3, ⟨k4, k5, k6, k9⟩, k7, k8, ⟨k10, k11⟩, k12, by simpa [partialStep] using k13⟩
  simp only [List.mem_cons, List.not_mem_nil, or_false]
  omega

def P3PanicGuards (p : P3Env) (e : BatchEnv) (m : MetaShape) (s : BatchShape) : Bool :=
  (verifyP3BatchChecks p e m s).all fun c => c.kind != .panic || c.holds

theorem p3_no_panic_partial (p : P3Env) (e : BatchEnv) (m : MetaShape) (s : BatchShape)
    (h : P3PanicGuards p e m s = true) : verifyP3Batch p e m s ≠ .panic := by
  apply run_no_panic
  intro c hc hk
  have := (List.all_eq_true.mp h) c hc
  simpa [hk] using this

/-- `P3PanicGuards` = the AIRs can be rebuilt from the metadata + the guards of the generic entry. -/
theorem p3PanicGuards_iff (p : P3Env) (e : BatchEnv) (m : MetaShape) (s : BatchShape) :
    P3PanicGuards p e m s = true ↔ (p.airsBuild = true ∧ BatchPanicGuards e s = true) := by
  simp only [P3PanicGuards, BatchPanicGuards, List.all_eq_true, verifyP3BatchChecks,
    verifyBatchChecks, List.mem_append]
  constructor
  · intro h
    refine ⟨?_, ?_⟩
    · have := h (partialStep p.airsBuild) (Or.inl (by simp [p3Prefix]))
      simpa [partialStep] using this
    · intro c hc
      rcases hc with hc | hc
      · simp only [List.mem_cons, List.not_mem_nil, or_false] at hc
        subst hc; simp [must]
      · exact h c (Or.inr hc)
  · rintro ⟨ha, hb⟩ c hc
    rcases hc with hc | hc
    · simp only [p3Prefix, List.mem_cons, List.not_mem_nil, or_false] at hc
      rcases hc with rfl | rfl | rfl | rfl | rfl | rfl | rfl | rfl | rfl | rfl | rfl | rfl | rfl <;>
        simp [must, partialStep, ha]
    · exact hb c (Or.inr hc)

/-! ## Repaired findings F9j / F9k / F9l (fix C15-2): proved for every shape -/

/-- F9j / F9k: a `lookup_terminals` list (or instance / degree / public-value list) whose length
is not the number of AIRs is rejected by `verify_batch_circuit` with an error before any of its
partial steps (before the fix: `lookup_terminals[i]` out of bounds / an extra terminal accepted). -/
theorem batch_terminals_mismatch_err (e : BatchEnv) (s : BatchShape) (hn : e.airs.length ≠ 0)
    (h : s.terminals.length ≠ e.airs.length) : run (batchChecks e s) = .err := by
  have : (e.airs.length == s.instances.length && e.airs.length == s.publicValues
      && e.airs.length == s.degreeBits.length && e.airs.length == s.terminals.length) = false := by
    have : (e.airs.length == s.terminals.length) = false := by
      simp only [beq_eq_false_iff_ne, ne_eq]; omega
    simp [this]
  simp [batchChecks, batchPrefix, batchCountChecks, run, must, hn, this, FailKind.out]

theorem batch_instances_mismatch_err (e : BatchEnv) (s : BatchShape) (hn : e.airs.length ≠ 0)
    (h : s.instances.length ≠ e.airs.length) : run (batchChecks e s) = .err := by
  have : (e.airs.length == s.instances.length && e.airs.length == s.publicValues
      && e.airs.length == s.degreeBits.length && e.airs.length == s.terminals.length) = false := by
    have : (e.airs.length == s.instances.length) = false := by
      simp only [beq_eq_false_iff_ne, ne_eq]; omega
    simp [this]
  simp [batchChecks, batchPrefix, batchCountChecks, run, must, hn, this, FailKind.out]

/-- F9l: `verify_p3_batch_proof_circuit` with a proof whose instance count is not the number of
public-value vectors: never accepted, and if it panics then already while the circuit-table AIRs
are rebuilt from the metadata — `allocate`'s `assert_eq!` is not reached. -/
theorem p3_instances_mismatch_err (p : P3Env) (e : BatchEnv) (m : MetaShape) (s : BatchShape)
    (h : s.instances.length ≠ s.publicValues) :
    verifyP3Batch p e m s = .err ∨ (verifyP3Batch p e m s = .panic ∧ p.airsBuild = false) := by
  unfold verifyP3Batch verifyP3BatchChecks
  rw [run_append]
  have hf : (s.instances.length == s.publicValues) = false := by simpa using h
  cases hp : run (p3Prefix p m s) with
  | ok =>
    have := (run_ok_iff _).mp hp (must (s.instances.length == s.publicValues)) (by simp [p3Prefix])
    simp [must, hf] at this
  | err => exact Or.inl rfl
  | panic =>
    refine Or.inr ⟨rfl, ?_⟩
    obtain ⟨pre, c, post, heq, _, hc, hk⟩ := (run_panic_iff _).mp hp
    have hmem : c ∈ p3Prefix p m s := by rw [heq]; simp
    simp only [p3Prefix, List.mem_cons, List.not_mem_nil, or_false] at hmem
    rcases hmem with rfl | rfl | rfl | rfl | rfl | rfl | rfl | rfl | rfl | rfl | rfl | rfl | rfl <;>
      simp_all [must, partialStep]

/-! ## Non-vacuity: the honest shapes of the batch bases of the correspondence

Generated from the first `batch …` line of every base in the harness output (`c15.cases`):
`batch` / `batch_h` = circuit-prover proofs (Const, Public, ALU tables; lookups, preprocessed data,
table metadata) through `verify_p3_batch_proof_circuit`, equal / different table heights;
`gbatch_1/2/4` = plain AIRs through the generic `verify_batch_circuit` (1, 2, 4 instances; with and
without preprocessed columns, next-row opening, public values; different degrees). -/

def env_batch : BatchEnv :=
  { base := { airWidth := 0, airPrepWidth := 0, logQd := 0, dim := 4, prepCommit := none, logBlowup := 2, logFinalPolyLen := 0, commitPowBits := 1, queryPowBits := 1, mmcs := true, valBits := 31, twoAdicity := 27, wordBits := 64, maxAlloc := 67108864 },
    airs := [{ width := 1, opensNext := false, declares := some true, logQd := some 0 }, { width := 1, opensNext := false, declares := some true, logQd := some 0 }, { width := 11, opensNext := true, declares := some true, logQd := some 1 }] }

def p3_batch : P3Env := { traceD := 1, numProvers := 0, airsBuild := true, npoEntriesOk := true }

def meta_batch : MetaShape := { extDegree := 1, rows := [2, 2, 4], publicLanes := 1, aluLanes := 2, npoLanes := [], minTraceHeight := 1, hornerSteps := 2, nonPrimLanes := [] }

def honest_batch : BatchShape :=
  { traceCap := 1, quotientCap := 1, randomCap := none, permCap := some 1, instances := [{ traceLocal := 1, traceNext := 0, prepLocal := some 2, prepNext := some 2, quotientChunks := [4], random := none, permLocal := 8, permNext := 8 }, { traceLocal := 1, traceNext := 0, prepLocal := some 2, prepNext := some 2, quotientChunks := [4], random := none, permLocal := 8, permNext := 8 }, { traceLocal := 11, traceNext := 11, prepLocal := some 33, prepNext := some 33, quotientChunks := [4, 4], random := none, permLocal := 24, permNext := 24 }], degreeBits := [1, 1, 1], terminals := [true, true, true], publicValues := 3, lookups := [1, 1, 5], prep := some ({ cap := 1, instances := [some { matrixIndex := 0, width := 2, degreeBits := 1 }, some { matrixIndex := 1, width := 2, degreeBits := 1 }, some { matrixIndex := 2, width := 33, degreeBits := 1 }], matrixToInstance := [0, 1, 2] }), fri := { commitCaps := [1], powWitnesses := 1, queries := [{ inputProof := [[1, 1, 11], [4, 4, 4, 4], [2, 2, 33], [8, 8, 24]], steps := [1], siblings := [1] }, { inputProof := [[1, 1, 11], [4, 4, 4, 4], [2, 2, 33], [8, 8, 24]], steps := [1], siblings := [1] }], finalPolyLen := 1 } }

def env_batch_h : BatchEnv :=
  { base := { airWidth := 0, airPrepWidth := 0, logQd := 0, dim := 4, prepCommit := none, logBlowup := 2, logFinalPolyLen := 0, commitPowBits := 1, queryPowBits := 1, mmcs := true, valBits := 31, twoAdicity := 27, wordBits := 64, maxAlloc := 67108864 },
    airs := [{ width := 1, opensNext := false, declares := some true, logQd := some 0 }, { width := 1, opensNext := false, declares := some true, logQd := some 0 }, { width := 11, opensNext := true, declares := some true, logQd := some 1 }] }

def p3_batch_h : P3Env := { traceD := 1, numProvers := 0, airsBuild := true, npoEntriesOk := true }

def meta_batch_h : MetaShape := { extDegree := 1, rows := [2, 2, 46], publicLanes := 1, aluLanes := 2, npoLanes := [], minTraceHeight := 1, hornerSteps := 2, nonPrimLanes := [] }

def honest_batch_h : BatchShape :=
  { traceCap := 1, quotientCap := 1, randomCap := none, permCap := some 1, instances := [{ traceLocal := 1, traceNext := 0, prepLocal := some 2, prepNext := some 2, quotientChunks := [4], random := none, permLocal := 8, permNext := 8 }, { traceLocal := 1, traceNext := 0, prepLocal := some 2, prepNext := some 2, quotientChunks := [4], random := none, permLocal := 8, permNext := 8 }, { traceLocal := 11, traceNext := 11, prepLocal := some 33, prepNext := some 33, quotientChunks := [4, 4], random := none, permLocal := 24, permNext := 24 }], degreeBits := [1, 1, 5], terminals := [true, true, true], publicValues := 3, lookups := [1, 1, 5], prep := some ({ cap := 1, instances := [some { matrixIndex := 0, width := 2, degreeBits := 1 }, some { matrixIndex := 1, width := 2, degreeBits := 1 }, some { matrixIndex := 2, width := 33, degreeBits := 5 }], matrixToInstance := [0, 1, 2] }), fri := { commitCaps := [1, 1, 1, 1, 1], powWitnesses := 5, queries := [{ inputProof := [[1, 1, 11], [4, 4, 4, 4], [2, 2, 33], [8, 8, 24]], steps := [1, 1, 1, 1, 1], siblings := [1, 1, 1, 1, 1] }, { inputProof := [[1, 1, 11], [4, 4, 4, 4], [2, 2, 33], [8, 8, 24]], steps := [1, 1, 1, 1, 1], siblings := [1, 1, 1, 1, 1] }], finalPolyLen := 1 } }

def env_gbatch_1 : BatchEnv :=
  { base := { airWidth := 0, airPrepWidth := 0, logQd := 0, dim := 4, prepCommit := none, logBlowup := 2, logFinalPolyLen := 0, commitPowBits := 1, queryPowBits := 1, mmcs := true, valBits := 31, twoAdicity := 27, wordBits := 64, maxAlloc := 67108864 },
    airs := [{ width := 2, opensNext := true, declares := some false, logQd := some 0 }] }

def honest_gbatch_1 : BatchShape :=
  { traceCap := 1, quotientCap := 1, randomCap := none, permCap := none, instances := [{ traceLocal := 2, traceNext := 2, prepLocal := none, prepNext := none, quotientChunks := [4], random := none, permLocal := 0, permNext := 0 }], degreeBits := [3], terminals := [false], publicValues := 1, lookups := [0], prep := none, fri := { commitCaps := [1, 1, 1], powWitnesses := 3, queries := [{ inputProof := [[2], [4]], steps := [1, 1, 1], siblings := [1, 1, 1] }, { inputProof := [[2], [4]], steps := [1, 1, 1], siblings := [1, 1, 1] }], finalPolyLen := 1 } }

def env_gbatch_2 : BatchEnv :=
  { base := { airWidth := 0, airPrepWidth := 0, logQd := 0, dim := 4, prepCommit := none, logBlowup := 2, logFinalPolyLen := 0, commitPowBits := 1, queryPowBits := 1, mmcs := true, valBits := 31, twoAdicity := 27, wordBits := 64, maxAlloc := 67108864 },
    airs := [{ width := 2, opensNext := true, declares := some false, logQd := some 1 }, { width := 3, opensNext := false, declares := some false, logQd := some 0 }] }

def honest_gbatch_2 : BatchShape :=
  { traceCap := 1, quotientCap := 1, randomCap := none, permCap := none, instances := [{ traceLocal := 2, traceNext := 2, prepLocal := some 4, prepNext := some 4, quotientChunks := [4, 4], random := none, permLocal := 0, permNext := 0 }, { traceLocal := 3, traceNext := 0, prepLocal := none, prepNext := none, quotientChunks := [4], random := none, permLocal := 0, permNext := 0 }], degreeBits := [3, 4], terminals := [false, false], publicValues := 2, lookups := [0, 0], prep := some ({ cap := 1, instances := [some { matrixIndex := 0, width := 4, degreeBits := 3 }, none], matrixToInstance := [0] }), fri := { commitCaps := [1, 1, 1, 1], powWitnesses := 4, queries := [{ inputProof := [[2, 3], [4, 4, 4], [4]], steps := [1, 1, 1, 1], siblings := [1, 1, 1, 1] }, { inputProof := [[2, 3], [4, 4, 4], [4]], steps := [1, 1, 1, 1], siblings := [1, 1, 1, 1] }], finalPolyLen := 1 } }

def env_gbatch_4 : BatchEnv :=
  { base := { airWidth := 0, airPrepWidth := 0, logQd := 0, dim := 4, prepCommit := none, logBlowup := 2, logFinalPolyLen := 0, commitPowBits := 1, queryPowBits := 1, mmcs := true, valBits := 31, twoAdicity := 27, wordBits := 64, maxAlloc := 67108864 },
    airs := [{ width := 3, opensNext := false, declares := some false, logQd := some 0 }, { width := 2, opensNext := true, declares := some false, logQd := some 1 }, { width := 2, opensNext := true, declares := some false, logQd := some 0 }, { width := 2, opensNext := true, declares := some false, logQd := some 1 }] }

def honest_gbatch_4 : BatchShape :=
  { traceCap := 1, quotientCap := 1, randomCap := none, permCap := none, instances := [{ traceLocal := 3, traceNext := 0, prepLocal := none, prepNext := none, quotientChunks := [4], random := none, permLocal := 0, permNext := 0 }, { traceLocal := 2, traceNext := 2, prepLocal := some 4, prepNext := some 4, quotientChunks := [4, 4], random := none, permLocal := 0, permNext := 0 }, { traceLocal := 2, traceNext := 2, prepLocal := none, prepNext := none, quotientChunks := [4], random := none, permLocal := 0, permNext := 0 }, { traceLocal := 2, traceNext := 2, prepLocal := some 4, prepNext := some 4, quotientChunks := [4, 4], random := none, permLocal := 0, permNext := 0 }], degreeBits := [3, 4, 3, 3], terminals := [false, false, false, false], publicValues := 4, lookups := [0, 0, 0, 0], prep := some ({ cap := 1, instances := [none, some { matrixIndex := 0, width := 4, degreeBits := 4 }, none, some { matrixIndex := 1, width := 4, degreeBits := 3 }], matrixToInstance := [1, 3] }), fri := { commitCaps := [1, 1, 1, 1], powWitnesses := 4, queries := [{ inputProof := [[3, 2, 2, 2], [4, 4, 4, 4, 4, 4], [4, 4]], steps := [1, 1, 1, 1], siblings := [1, 1, 1, 1] }, { inputProof := [[3, 2, 2, 2], [4, 4, 4, 4, 4, 4], [4, 4]], steps := [1, 1, 1, 1], siblings := [1, 1, 1, 1] }], finalPolyLen := 1 } }


theorem honest_batch_shapes_ok :
    verifyP3Batch p3_batch env_batch meta_batch honest_batch = .ok ∧
    P3PanicGuards p3_batch env_batch meta_batch honest_batch = true ∧
    verifyP3Batch p3_batch_h env_batch_h meta_batch_h honest_batch_h = .ok ∧
    P3PanicGuards p3_batch_h env_batch_h meta_batch_h honest_batch_h = true ∧
    verifyBatch env_gbatch_1 honest_gbatch_1 = .ok ∧ BatchPanicGuards env_gbatch_1 honest_gbatch_1 = true ∧
    verifyBatch env_gbatch_2 honest_gbatch_2 = .ok ∧ BatchPanicGuards env_gbatch_2 honest_gbatch_2 = true ∧
    verifyBatch env_gbatch_4 honest_gbatch_4 = .ok ∧ BatchPanicGuards env_gbatch_4 honest_gbatch_4 = true := by
  refine ⟨?_, ?_, ?_, ?_, ?_, ?_, ?_, ?_, ?_, ?_⟩ <;> decide +kernel

end P3R.C15Batch

#print axioms P3R.C15Batch.batch_ok_counts
#print axioms P3R.C15Batch.batch_ok_instance
#print axioms P3R.C15Batch.batch_ok_lookup_commit
#print axioms P3R.C15Batch.batch_ok_prep
#print axioms P3R.C15Batch.batch_ok_fri_validated
#print axioms P3R.C15Batch.batch_ok_zips
#print axioms P3R.C15Batch.batch_no_panic_partial
#print axioms P3R.C15Batch.batchPanicGuards_necessary
#print axioms P3R.C15Batch.batch_malformed_rejected_partial
#print axioms P3R.C15Batch.batch_wellformed_accepted
#print axioms P3R.C15Batch.p3_ok_verifyBatch
#print axioms P3R.C15Batch.p3_ok_meta
#print axioms P3R.C15Batch.p3_no_panic_partial
#print axioms P3R.C15Batch.p3PanicGuards_iff
#print axioms P3R.C15Batch.batch_terminals_mismatch_err
#print axioms P3R.C15Batch.batch_instances_mismatch_err
#print axioms P3R.C15Batch.p3_instances_mismatch_err
#print axioms P3R.C15Batch.honest_batch_shapes_ok
#print axioms P3R.C15Batch.allHold_of_verifyBatch
#print axioms P3R.C15Batch.allHold_of_verifyP3
#print axioms P3R.C15Batch.batchChecks_partial_steps
#print axioms P3R.C15Batch.batchPanicGuards_iff
#print axioms P3R.C15Batch.batch_no_panic
#print axioms P3R.C15Batch.batch_degree_out_of_range_err
