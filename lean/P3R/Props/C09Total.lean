/-
C09 — the honest bus of a compiled circuit balances: discharging the hypothesis `hwf`
("every slot that is read has been created") of `P3R.C09.bus_balanced`.

Part 1 (this section, complete): the static def-before-use certificate `defUse` of
`Model/DefUse.lean` is sufficient, for every circuit:
* `defuse_sound`      — `defUse` ⇒ every slot with a reader is in the scan's `defined` set;
* `compiled_bus_balanced_of_defuse` — hence `∀ s, p.net s = 0`.
The certificate speaks about the op list only (no scan state); `hwf` spoke about the scan result.

Part 2: where the certificate comes from (`lower_defuse…`), see below.
-/
import P3R.Model.DefUse
import P3R.Props.C09

namespace P3R.C09T
open P3R P3R.C09

/-- "No dangling reader": every slot with a reader event is defined. -/
def RD (s : RoleState) : Prop := ∀ x, readsOf s.reads x ≠ 0 → x ∈ s.defined

theorem contains_iff {l : List Nat} {x : Nat} : l.contains x = true ↔ x ∈ l := by
  simp

/-- Serving one request that is not a dangling read keeps `RD`, only adds to `defined`, and
leaves the slot defined when it was defined or the request may create. -/
theorem serve_spec (s : RoleState) (r : Request) (h : RD s)
    (hr : r.slot ∈ s.defined ∨ r.create = true ∨ r.elseSkip = true) :
    RD (s.serve r) ∧ (∀ x ∈ s.defined, x ∈ (s.serve r).defined) ∧
      ((r.slot ∈ s.defined ∨ r.create = true) → r.slot ∈ (s.serve r).defined) := by
  unfold RoleState.serve Request.role
  by_cases hd : r.slot ∈ s.defined
  · have hc : s.defined.contains r.slot = true := contains_iff.mpr hd
    simp only [hc, if_true]
    refine ⟨fun x hx => ?_, fun x hx => hx, fun _ => hd⟩
    simp only [readsOf_incRead] at hx
    by_cases hxs : x = r.slot
    · subst hxs; exact hd
    · simp only [hxs, if_false, Nat.add_zero] at hx; exact h x hx
  · have hc : s.defined.contains r.slot = false := by
      cases hcc : s.defined.contains r.slot
      · rfl
      · exact absurd (contains_iff.mp hcc) hd
    simp only [hc, Bool.false_eq_true, if_false]
    by_cases hcr : r.create = true
    · simp only [hcr, if_true]
      exact ⟨fun x hx => List.mem_cons_of_mem _ (h x hx), fun x hx => List.mem_cons_of_mem _ hx,
        fun _ => List.mem_cons_self⟩
    · have hcf : r.create = false := by cases hcc : r.create <;> simp_all
      have hsk : r.elseSkip = true := by
        rcases hr with h1 | h1 | h1
        · exact absurd h1 hd
        · exact absurd h1 hcr
        · exact h1
      simp only [hcf, Bool.false_eq_true, if_false, hsk, if_true]
      exact ⟨h, fun x hx => hx, fun h' => by rcases h' with h' | h' <;> simp_all⟩

/-- Invariant of the scan along a certified op list: the certificate's `T` is a subset of the
scan's `defined`, and no reader dangles. -/
structure DInv (T : List Nat) (s : RoleState) : Prop where
  sub : ∀ x ∈ T, x ∈ s.defined
  rd : RD s

theorem step_rs {K} (privs hints : List Nat) (s : PrepState) (op : Op K) :
    (s.step privs hints op).rs = (requestsOf privs hints s.rs.defined op).foldl RoleState.serve s.rs := by
  unfold PrepState.step
  cases op <;> rfl

/-- One certified row keeps the invariant. -/
theorem row_inv {K} (privs hints T : List Nat) (s : RoleState) (op : Op K) (h : DInv T s)
    (hok : rowOk privs hints T op = true) :
    DInv (touch privs hints T op) ((requestsOf privs hints s.defined op).foldl RoleState.serve s) := by
  cases op with
  | const out v =>
    simp only [requestsOf, List.foldl_cons, List.foldl_nil, touch]
    obtain ⟨h1, m1, d1⟩ := serve_spec s ⟨out, true, false⟩ h.rd (Or.inr (Or.inl rfl))
    refine ⟨fun x hx => ?_, h1⟩
    rcases List.mem_cons.mp hx with rfl | hx
    · exact d1 (Or.inr rfl)
    · exact m1 x (h.sub x hx)
  | pub out v =>
    simp only [requestsOf, List.foldl_cons, List.foldl_nil, touch]
    obtain ⟨h1, m1, d1⟩ := serve_spec s ⟨out, true, false⟩ h.rd (Or.inr (Or.inl rfl))
    refine ⟨fun x hx => ?_, h1⟩
    rcases List.mem_cons.mp hx with rfl | hx
    · exact d1 (Or.inr rfl)
    · exact m1 x (h.sub x hx)
  | hint ins outs k => simpa [requestsOf, touch] using h
  | npo ins outs id k => simpa [requestsOf, touch] using h
  | alu k a b c out io =>
    -- the requests `out, a, (c), b` one after the other
    obtain ⟨h1, m1, d1⟩ := serve_spec s ⟨out, true, false⟩ h.rd (Or.inr (Or.inl rfl))
    generalize hs1 : s.serve ⟨out, true, false⟩ = s1 at h1 m1 d1
    obtain ⟨h2, m2, d2⟩ := serve_spec s1 ⟨a, privs.contains a || hints.contains a, true⟩ h1
      (Or.inr (Or.inr rfl))
    generalize hs2 : s1.serve ⟨a, privs.contains a || hints.contains a, true⟩ = s2 at h2 m2 d2
    -- state after the optional `c` request
    have hc3 : ∃ s3, (match c with
          | some cw => [(⟨cw, privs.contains cw || hints.contains cw, true⟩ : Request)]
          | none => []).foldl RoleState.serve s2 = s3 ∧ RD s3 ∧ (∀ x ∈ s2.defined, x ∈ s3.defined) ∧
          (∀ cw, c = some cw → (privs.contains cw || hints.contains cw) = true → cw ∈ s3.defined) := by
      cases c with
      | none => exact ⟨s2, rfl, h2, fun x hx => hx, fun cw hcw => by cases hcw⟩
      | some cw =>
        obtain ⟨h3, m3, d3⟩ := serve_spec s2 ⟨cw, privs.contains cw || hints.contains cw, true⟩ h2
          (Or.inr (Or.inr rfl))
        refine ⟨_, rfl, h3, m3, fun cw' hcw' he => ?_⟩
        cases hcw'
        exact d3 (Or.inr he)
    obtain ⟨s3, hs3, h3, m3, d3⟩ := hc3
    have m03 : ∀ x ∈ s.defined, x ∈ s3.defined := fun x hx => m3 x (m2 x (m1 x hx))
    have hout3 : out ∈ s3.defined := m3 _ (m2 _ (d1 (Or.inr rfl)))
    -- the `b` request does not dangle
    have hb : b ∈ s3.defined ∨
        (privs.contains b || (s.defined.contains out || hints.contains out || privs.contains out)) = true := by
      simp only [rowOk, Bool.or_eq_true, Bool.and_eq_true, beq_iff_eq] at hok
      rcases hok with ((((((hT | hp) | hbo) | hba) | hbc) | hTo) | hho) | hpo
      · exact Or.inl (m03 _ (h.sub _ (contains_iff.mp hT)))
      · exact Or.inr (by simp only [Bool.or_eq_true]; exact Or.inl hp)
      · subst hbo; exact Or.inl hout3
      · obtain ⟨he, rfl⟩ := hba
        exact Or.inl (m3 _ (d2 (Or.inr (by simpa using he))))
      · cases c with
        | none => simp at hbc
        | some cw =>
          simp only [Bool.and_eq_true, Bool.or_eq_true, beq_iff_eq] at hbc
          obtain ⟨he, rfl⟩ := hbc
          exact Or.inl (d3 b rfl (by simpa using he))
      · right
        have : s.defined.contains out = true := contains_iff.mpr (h.sub _ (contains_iff.mp hTo))
        simp only [Bool.or_eq_true]; exact Or.inr (Or.inl (Or.inl this))
      · exact Or.inr (by simp only [Bool.or_eq_true]; exact Or.inr (Or.inl (Or.inr hho)))
      · exact Or.inr (by simp only [Bool.or_eq_true]; exact Or.inr (Or.inr hpo))
    obtain ⟨h4, m4, d4⟩ := serve_spec s3
      ⟨b, privs.contains b || (s.defined.contains out || hints.contains out || privs.contains out), false⟩ h3
      (by rcases hb with hb | hb
          · exact Or.inl hb
          · exact Or.inr (Or.inl hb))
    have hfold : (requestsOf privs hints s.defined (.alu k a b c out io : Op K)).foldl RoleState.serve s =
        s3.serve ⟨b, privs.contains b || (s.defined.contains out || hints.contains out || privs.contains out), false⟩ := by
      simp only [requestsOf, List.foldl_append, List.foldl_cons, List.foldl_nil, hs1, hs2]
      rw [← hs3]
      cases c <;> rfl
    rw [hfold]
    refine ⟨fun x hx => ?_, h4⟩
    simp only [touch, List.mem_cons, List.mem_append, List.mem_filter, Option.mem_toList,
      Bool.or_eq_true] at hx
    rcases hx with rfl | rfl | ⟨hx, he⟩ | hx
    · exact m4 _ hout3
    · exact d4 (by rcases hb with hb | hb
                   · exact Or.inl hb
                   · exact Or.inr hb)
    · rcases hx with rfl | hx
      · exact m4 _ (m3 _ (d2 (Or.inr (by simpa using he))))
      · exact m4 _ (d3 x (by simpa using hx) (by simpa using he))
    · exact m4 _ (m03 _ (h.sub _ hx))

theorem rows_inv {K} (privs hints : List Nat) (ops : List (Op K)) (T : List Nat) (s : PrepState)
    (h : DInv T s.rs) (hok : defUseFrom privs hints T ops = true) :
    RD (ops.foldl (PrepState.step privs hints) s).rs := by
  induction ops generalizing T s with
  | nil => exact h.rd
  | cons op ops ih =>
    simp only [defUseFrom, Bool.and_eq_true] at hok
    simp only [List.foldl_cons]
    refine ih (touch privs hints T op) _ ?_ hok.2
    rw [step_rs]
    exact row_inv privs hints T s.rs op h hok.1

/-- `genPrep`'s hint set is `hintSlots`. -/
theorem genPrep_eq {K} (c : Circuit K) (p : Prep) (h : genPrep c = some p) :
    p.reads = (c.ops.toList.foldl (PrepState.step c.privRows.toList (hintSlots c.ops.toList))
      { rs := { defined := [], reads := [], events := [] }, consts := [], pubs := [], alu := [] }).rs.reads ∧
    p.defined = (c.ops.toList.foldl (PrepState.step c.privRows.toList (hintSlots c.ops.toList))
      { rs := { defined := [], reads := [], events := [] }, consts := [], pubs := [], alu := [] }).rs.defined := by
  unfold genPrep at h
  simp only at h
  split at h
  · cases h
    exact ⟨rfl, rfl⟩
  · cases h

/-- **C09 / def-before-use is sufficient.** For a circuit whose op list carries the static
certificate `defUse`, every slot that some row reads has a creator. -/
theorem defuse_sound {K} (c : Circuit K) (p : Prep) (h : genPrep c = some p)
    (hd : c.defUse = true) : ∀ s, readsOf p.reads s ≠ 0 → s ∈ p.defined := by
  obtain ⟨hr, hdef⟩ := genPrep_eq c p h
  rw [hr, hdef]
  exact rows_inv _ _ _ [] _ ⟨fun _ hx => (by cases hx), fun x hx => (by simp [readsOf] at hx)⟩ hd

/-- **C09 / honest bus balances, certificate form.** No scan-level hypothesis is left: the
certificate is a property of the op list. -/
theorem compiled_bus_balanced_of_defuse {K} (c : Circuit K) (p : Prep) (h : genPrep c = some p)
    (hd : c.defUse = true) (s : Nat) : p.net s = 0 :=
  bus_balanced c p h (defuse_sound c p h hd) s


/-! ### Exact, order-free characterisation: the bus balances iff every `b` operand is created

Only the `b` request of an ALU row can be served as a reader on an undefined slot (`out` always
may create, `a` / `c` stay off the bus instead). So the hypothesis `hwf` of `bus_balanced` — and
with `net_zero_iff` the balance of the honest bus itself — is *equivalent* to: every slot named in
the `b` column of some ALU row ends up in `defined`. This is what a total theorem about the
compiler has to establish (`defUse` establishes it row by row). -/

/-- Slots named in the `b` column of ALU rows. -/
def bSlots {K} (ops : List (Op K)) : List Nat :=
  ops.filterMap fun
    | .alu _ _ b _ _ _ => some b
    | _ => none

/-- What serving a list of requests does, without any precondition. -/
theorem serveAll_gen (reqs : List Request) (s : RoleState) :
    (∀ x ∈ s.defined, x ∈ (reqs.foldl RoleState.serve s).defined) ∧
    (∀ x, readsOf s.reads x ≠ 0 → readsOf (reqs.foldl RoleState.serve s).reads x ≠ 0) ∧
    (∀ x, readsOf (reqs.foldl RoleState.serve s).reads x ≠ 0 → readsOf s.reads x ≠ 0 ∨
      x ∈ (reqs.foldl RoleState.serve s).defined ∨
      ∃ r ∈ reqs, r.slot = x ∧ r.create = false ∧ r.elseSkip = false) ∧
    (∀ r ∈ reqs, r.elseSkip = false → r.slot ∈ (reqs.foldl RoleState.serve s).defined ∨
      readsOf (reqs.foldl RoleState.serve s).reads r.slot ≠ 0) := by
  induction reqs generalizing s with
  | nil =>
    refine ⟨fun x hx => hx, fun x hx => hx, fun x hx => Or.inl hx, fun r hr => by cases hr⟩
  | cons r rs ih =>
    obtain ⟨i1, i2, i3, i4⟩ := ih (s.serve r)
    simp only [List.foldl_cons]
    -- one request
    have one : (∀ x ∈ s.defined, x ∈ (s.serve r).defined) ∧
        (∀ x, readsOf s.reads x ≠ 0 → readsOf (s.serve r).reads x ≠ 0) ∧
        (∀ x, readsOf (s.serve r).reads x ≠ 0 → readsOf s.reads x ≠ 0 ∨ x ∈ (s.serve r).defined ∨
          (r.slot = x ∧ r.create = false ∧ r.elseSkip = false)) ∧
        (r.elseSkip = false → r.slot ∈ (s.serve r).defined ∨ readsOf (s.serve r).reads r.slot ≠ 0) := by
      unfold RoleState.serve Request.role
      by_cases hd : s.defined.contains r.slot = true
      · simp only [hd, if_true]
        refine ⟨fun x hx => hx, fun x hx => ?_, fun x hx => ?_, fun _ => Or.inl (contains_iff.mp hd)⟩
        · simp only [readsOf_incRead]; omega
        · simp only [readsOf_incRead] at hx
          by_cases hxs : x = r.slot
          · subst hxs; exact Or.inr (Or.inl (contains_iff.mp hd))
          · simp only [hxs, if_false, Nat.add_zero] at hx; exact Or.inl hx
      · simp only [hd, Bool.false_eq_true, if_false]
        by_cases hcr : r.create = true
        · simp only [hcr, if_true]
          exact ⟨fun x hx => List.mem_cons_of_mem _ hx, fun x hx => hx, fun x hx => Or.inl hx,
            fun _ => Or.inl List.mem_cons_self⟩
        · have hcf : r.create = false := by cases hcc : r.create <;> simp_all
          simp only [hcf, Bool.false_eq_true, if_false]
          by_cases hsk : r.elseSkip = true
          · simp only [hsk, if_true]
            exact ⟨fun x hx => hx, fun x hx => hx, fun x hx => Or.inl hx, fun h' => by simp_all⟩
          · have hsf : r.elseSkip = false := by cases hcc : r.elseSkip <;> simp_all
            simp only [hsf, Bool.false_eq_true, if_false]
            refine ⟨fun x hx => hx, fun x hx => ?_, fun x hx => ?_, fun _ => Or.inr ?_⟩
            · simp only [readsOf_incRead]; omega
            · simp only [readsOf_incRead] at hx
              by_cases hxs : x = r.slot
              · exact Or.inr (Or.inr ⟨hxs.symm, by simp [hcf], by simp [hsf]⟩)
              · simp only [hxs, if_false, Nat.add_zero] at hx; exact Or.inl hx
            · simp only [readsOf_incRead, if_true]; omega
    obtain ⟨o1, o2, o3, o4⟩ := one
    refine ⟨fun x hx => i1 x (o1 x hx), fun x hx => i2 x (o2 x hx), fun x hx => ?_, fun r' hr' hsk => ?_⟩
    · rcases i3 x hx with h1 | h1 | ⟨r', hr', h1⟩
      · rcases o3 x h1 with h2 | h2 | h2
        · exact Or.inl h2
        · exact Or.inr (Or.inl (i1 x h2))
        · exact Or.inr (Or.inr ⟨r, List.mem_cons_self, h2⟩)
      · exact Or.inr (Or.inl h1)
      · exact Or.inr (Or.inr ⟨r', List.mem_cons_of_mem _ hr', h1⟩)
    · rcases List.mem_cons.mp hr' with rfl | hr'
      · rcases o4 hsk with h1 | h1
        · exact Or.inl (i1 _ h1)
        · exact Or.inr (i2 _ h1)
      · exact i4 r' hr' hsk

/-- Invariant: a reader dangles only on a `b` slot, and every `b` slot is defined or read. -/
structure BInv (B : List Nat) (s : RoleState) : Prop where
  j1 : ∀ x, readsOf s.reads x ≠ 0 → x ∈ s.defined ∨ x ∈ B
  j2 : ∀ x ∈ B, x ∈ s.defined ∨ readsOf s.reads x ≠ 0

/-- Requests that may neither create nor skip are `b` requests. -/
theorem noCreate_is_b {K} (privs hints defined : List Nat) (op : Op K) (r : Request)
    (hr : r ∈ requestsOf privs hints defined op) (hc : r.create = false) (hs : r.elseSkip = false) :
    r.slot ∈ bSlots [op] := by
  cases op with
  | const out v => simp [requestsOf] at hr; subst hr; simp at hc
  | pub out v => simp [requestsOf] at hr; subst hr; simp at hc
  | hint ins outs k => simp [requestsOf] at hr
  | npo ins outs id k => simp [requestsOf] at hr
  | alu k a b c out io =>
    cases c with
    | none =>
      simp only [requestsOf, List.cons_append, List.nil_append, List.mem_cons, List.not_mem_nil,
        or_false] at hr
      rcases hr with rfl | rfl | rfl
      · simp at hc
      · simp at hs
      · simp [bSlots]
    | some cw =>
      simp only [requestsOf, List.cons_append, List.nil_append, List.mem_cons, List.not_mem_nil,
        or_false] at hr
      rcases hr with rfl | rfl | rfl | rfl
      · simp at hc
      · simp at hs
      · simp at hs
      · simp [bSlots]

/-- The `b` request of an ALU row is among the row's requests and may not skip. -/
theorem b_request {K} (privs hints defined : List Nat) (op : Op K) (x : Nat) (hx : x ∈ bSlots [op]) :
    ∃ r ∈ requestsOf privs hints defined op, r.slot = x ∧ r.elseSkip = false := by
  cases op with
  | const out v => simp [bSlots] at hx
  | pub out v => simp [bSlots] at hx
  | hint ins outs k => simp [bSlots] at hx
  | npo ins outs id k => simp [bSlots] at hx
  | alu k a b c out io =>
    simp only [bSlots, List.filterMap_cons, List.filterMap_nil, List.mem_cons, List.not_mem_nil,
      or_false] at hx
    subst hx
    exact ⟨⟨x, privs.contains x || (defined.contains out || hints.contains out || privs.contains out), false⟩,
      by cases c <;> simp [requestsOf], rfl, rfl⟩

theorem bSlots_append {K} (l1 l2 : List (Op K)) : bSlots (l1 ++ l2) = bSlots l1 ++ bSlots l2 := by
  simp [bSlots, List.filterMap_append]

theorem rows_binv {K} (privs hints : List Nat) (ops : List (Op K)) (pre : List (Op K)) (s : PrepState)
    (h : BInv (bSlots pre) s.rs) :
    BInv (bSlots (pre ++ ops)) (ops.foldl (PrepState.step privs hints) s).rs := by
  induction ops generalizing pre s with
  | nil => simpa using h
  | cons op ops ih =>
    simp only [List.foldl_cons]
    have := ih (pre ++ [op]) (s.step privs hints op) ?_
    · simpa using this
    · rw [step_rs]
      obtain ⟨g1, g2, g3, g4⟩ := serveAll_gen (requestsOf privs hints s.rs.defined op) s.rs
      rw [bSlots_append]
      refine ⟨fun x hx => ?_, fun x hx => ?_⟩
      · rcases g3 x hx with h1 | h1 | ⟨r, hr, rfl, hc, hs⟩
        · rcases h.j1 x h1 with h2 | h2
          · exact Or.inl (g1 x h2)
          · exact Or.inr (List.mem_append_left _ h2)
        · exact Or.inl h1
        · exact Or.inr (List.mem_append_right _ (noCreate_is_b privs hints _ op r hr hc hs))
      · rcases List.mem_append.mp hx with hx | hx
        · rcases h.j2 x hx with h2 | h2
          · exact Or.inl (g1 x h2)
          · exact Or.inr (g2 x h2)
        · obtain ⟨r, hr, rfl, hs⟩ := b_request privs hints s.rs.defined op x hx
          exact g4 r hr hs

/-- **C09 / exact characterisation of `hwf`.** Every slot that is read has a creator iff every slot
named in a `b` column ends up defined. -/
theorem reads_defined_iff {K} (c : Circuit K) (p : Prep) (h : genPrep c = some p) :
    (∀ s, readsOf p.reads s ≠ 0 → s ∈ p.defined) ↔ (∀ x ∈ bSlots c.ops.toList, x ∈ p.defined) := by
  obtain ⟨hr, hdef⟩ := genPrep_eq c p h
  have J := rows_binv c.privRows.toList (hintSlots c.ops.toList) c.ops.toList []
    { rs := { defined := [], reads := [], events := [] }, consts := [], pubs := [], alu := [] }
    ⟨fun x hx => by simp [readsOf] at hx, fun x hx => by simp [bSlots] at hx⟩
  simp only [List.nil_append] at J
  rw [hr, hdef]
  constructor
  · intro hwf x hx
    rcases J.j2 x hx with h1 | h1
    · exact h1
    · exact hwf x h1
  · intro hb s hs
    rcases J.j1 s hs with h1 | h1
    · exact h1
    · exact hb s h1

/-- **C09 / the honest bus balances iff every `b` operand is created** (for every circuit the scan
accepts; no hypothesis). -/
theorem bus_balanced_iff {K} (c : Circuit K) (p : Prep) (h : genPrep c = some p) :
    (∀ s, p.net s = 0) ↔ (∀ x ∈ bSlots c.ops.toList, x ∈ p.defined) := by
  rw [← reads_defined_iff c p h]
  constructor
  · intro hn s hs
    rcases (net_zero_iff c p h s).mp (hn s) with h1 | h1
    · exact h1
    · exact absurd h1 hs
  · intro hwf s
    exact bus_balanced c p h hwf s

end P3R.C09T
