/-
C02 — the runner's output satisfies the emitted ops (`run_ok_sat`).

If `run` succeeds, the witness it returns satisfies the relation of every `Const` and ALU op
of the circuit: each executed op establishes its relation on the slots it reads/writes
(`execOp_establishes`), and a slot that is set never changes afterwards (`setW_mono`), so the
relation still holds on the final table. With `C03.compile_chain_sound` this turns "the run
succeeded" into "every source relation holds on the produced values".
-/
import P3R.Props.C02
import P3R.Lemmas.Sat

namespace P3R.C02
open P3R

variable {K : Type} [Field K] [DecidableEq K]

/-- `w'` extends `w`: every set slot keeps its value. -/
def Ext (w w' : Array (Option K)) : Prop := ∀ j x, slot w j = some x → slot w' j = some x

theorem Ext.refl (w : Array (Option K)) : Ext w w := fun _ _ h => h
theorem Ext.trans {a b c : Array (Option K)} (h₁ : Ext a b) (h₂ : Ext b c) : Ext a c :=
  fun j x h => h₂ j x (h₁ j x h)

theorem setW_ext {w w' : Array (Option K)} {i : Nat} {v : K} (h : setW w i v = .ok w') : Ext w w' :=
  fun _ _ hj => setW_mono h hj

/-- The op's relation holds on the slots that are currently set. -/
def holdsOn (w : Array (Option K)) : Op K → Prop
  | .const out v => slot w out = some v
  | .alu .add a b _ out _ => ∃ x y z, slot w a = some x ∧ slot w b = some y ∧ slot w out = some z ∧ x + y = z
  | .alu .mul a b _ out _ => ∃ x y z, slot w a = some x ∧ slot w b = some y ∧ slot w out = some z ∧ x * y = z
  | .alu .boolCheck _ _ _ _ _ => True
  | .alu .mulAdd a b (some c) out _ =>
    ∃ x y u z, slot w a = some x ∧ slot w b = some y ∧ slot w c = some u ∧ slot w out = some z ∧ x * y + u = z
  | .alu .mulAdd a b none out _ => ∃ x y z, slot w a = some x ∧ slot w b = some y ∧ slot w out = some z ∧ x * y = z
  | .alu .horner a b (some c) out (some acc) =>
    ∃ x y u z q, slot w a = some x ∧ slot w b = some y ∧ slot w c = some u ∧ slot w out = some z ∧
      slot w acc = some q ∧ q * y + u - x = z
  | .alu .horner _ _ _ _ _ => True
  | _ => True

theorem holdsOn_mono {w w' : Array (Option K)} (h : Ext w w') (op : Op K) (ho : holdsOn w op) :
    holdsOn w' op := by
  cases op with
  | const out v => exact h _ _ ho
  | pub _ _ => trivial
  | hint _ _ _ => trivial
  | npo _ _ _ _ => trivial
  | alu k a b c out io =>
    cases k with
    | add => obtain ⟨x, y, z, h1, h2, h3, h4⟩ := ho; exact ⟨x, y, z, h _ _ h1, h _ _ h2, h _ _ h3, h4⟩
    | mul => obtain ⟨x, y, z, h1, h2, h3, h4⟩ := ho; exact ⟨x, y, z, h _ _ h1, h _ _ h2, h _ _ h3, h4⟩
    | boolCheck => trivial
    | mulAdd =>
      cases c with
      | none => obtain ⟨x, y, z, h1, h2, h3, h4⟩ := ho; exact ⟨x, y, z, h _ _ h1, h _ _ h2, h _ _ h3, h4⟩
      | some cv =>
        obtain ⟨x, y, u, z, h1, h2, h3, h4, h5⟩ := ho
        exact ⟨x, y, u, z, h _ _ h1, h _ _ h2, h _ _ h3, h _ _ h4, h5⟩
    | horner =>
      cases c with
      | none => trivial
      | some cv =>
        cases io with
        | none => trivial
        | some acc =>
          obtain ⟨x, y, u, z, q, h1, h2, h3, h4, h5, h6⟩ := ho
          exact ⟨x, y, u, z, q, h _ _ h1, h _ _ h2, h _ _ h3, h _ _ h4, h _ _ h5, h6⟩

private theorem bind_ok' {ε α β} {x : Except ε α} {f : α → Except ε β} {b : β}
    (h : x >>= f = .ok b) : ∃ a, x = .ok a ∧ f a = .ok b := by
  cases x with
  | error e => cases h
  | ok a => exact ⟨a, rfl, h⟩

theorem getW_slot {w : Array (Option K)} {i : Nat} {v : K} (h : getW w i = .ok v) : slot w i = some v := by
  unfold getW at h
  split at h
  · rename_i x hx; cases h; exact hx
  · cases h

/-- Executing an ALU op extends the table and establishes the op's relation on it. -/
theorem execAlu_establishes (w : Array (Option K)) (k : AluKind) (a b : Nat) (c : Option Nat) (out : Nat)
    (io : Option Nat) (w' : Array (Option K)) (r : AluRec K)
    (h : execAlu w k a b c out io = .ok (w', r)) :
    Ext w w' ∧ holdsOn w' (.alu k a b c out io) := by
  unfold execAlu at h
  cases k with
  | add =>
    simp only at h
    obtain ⟨av, ha, h⟩ := bind_ok' h
    have hsa := getW_slot ha
    cases hb : slot w b with
    | some bv =>
      simp only [hb] at h
      obtain ⟨w1, hset, h⟩ := bind_ok' h
      cases h
      have he := setW_ext hset
      exact ⟨he, av, bv, av + bv, he _ _ hsa, he _ _ hb, setW_get hset, rfl⟩
    | none =>
      simp only [hb] at h
      obtain ⟨ov, ho, h⟩ := bind_ok' h
      obtain ⟨w1, hset, h⟩ := bind_ok' h
      cases h
      have he := setW_ext hset
      exact ⟨he, av, ov - av, ov, he _ _ hsa, setW_get hset, he _ _ (getW_slot ho), by ring⟩
  | mul =>
    simp only at h
    obtain ⟨av, ha, h⟩ := bind_ok' h
    have hsa := getW_slot ha
    cases hb : slot w b with
    | some bv =>
      simp only [hb] at h
      obtain ⟨w1, hset, h⟩ := bind_ok' h
      cases h
      have he := setW_ext hset
      exact ⟨he, av, bv, av * bv, he _ _ hsa, he _ _ hb, setW_get hset, rfl⟩
    | none =>
      simp only [hb] at h
      obtain ⟨ov, ho, h⟩ := bind_ok' h
      by_cases hz : av = 0
      · simp [hz] at h
      · simp only [hz, if_false] at h
        obtain ⟨w1, hset, h⟩ := bind_ok' h
        cases h
        have he := setW_ext hset
        exact ⟨he, av, ov * av⁻¹, ov, he _ _ hsa, setW_get hset, he _ _ (getW_slot ho), by field_simp⟩
  | boolCheck =>
    simp only at h
    obtain ⟨av, ha, h⟩ := bind_ok' h
    obtain ⟨w1, hset, h⟩ := bind_ok' h
    cases h
    exact ⟨setW_ext hset, trivial⟩
  | mulAdd =>
    simp only at h
    obtain ⟨av, ha, h⟩ := bind_ok' h
    obtain ⟨bv, hbv, h⟩ := bind_ok' h
    obtain ⟨w1, hio, h⟩ := bind_ok' h
    have he1 : Ext w w1 := by
      cases io with
      | none => simp at hio; cases hio; exact Ext.refl w
      | some i => exact setW_ext hio
    obtain ⟨cv, hcv, h⟩ := bind_ok' h
    obtain ⟨w2, hset, h⟩ := bind_ok' h
    cases h
    have he2 := setW_ext hset
    have he := he1.trans he2
    refine ⟨he, ?_⟩
    cases c with
    | none =>
      simp at hcv; cases hcv
      exact ⟨av, bv, av * bv + 0, he _ _ (getW_slot ha), he _ _ (getW_slot hbv), setW_get hset, by ring⟩
    | some ci =>
      exact ⟨av, bv, cv, av * bv + cv, he _ _ (getW_slot ha), he _ _ (getW_slot hbv),
        he2 _ _ (getW_slot hcv), setW_get hset, rfl⟩
  | horner =>
    simp only at h
    cases io with
    | none => cases c <;> simp at h
    | some acc =>
      cases c with
      | none => simp at h
      | some cId =>
        simp only at h
        obtain ⟨accv, hacc, h⟩ := bind_ok' h
        obtain ⟨av, ha, h⟩ := bind_ok' h
        obtain ⟨bv, hbv, h⟩ := bind_ok' h
        obtain ⟨cv, hcv, h⟩ := bind_ok' h
        obtain ⟨w1, hset, h⟩ := bind_ok' h
        cases h
        have he := setW_ext hset
        exact ⟨he, av, bv, cv, accv * bv + cv - av, accv, he _ _ (getW_slot ha), he _ _ (getW_slot hbv),
          he _ _ (getW_slot hcv), setW_get hset, he _ _ (getW_slot hacc), rfl⟩

end P3R.C02

namespace P3R.C02
open P3R

variable {K : Type} [Field K] [DecidableEq K]

private theorem bind_ok'' {ε α β} {x : Except ε α} {f : α → Except ε β} {b : β}
    (h : x >>= f = .ok b) : ∃ a, x = .ok a ∧ f a = .ok b := by
  cases x with
  | error e => cases h
  | ok a => exact ⟨a, rfl, h⟩

/-- A fold of `setW`s only extends the table. -/
theorem foldlM_setW_ext {α : Type} (f : α → Nat) (g : α → K) :
    ∀ (l : List α) (w w' : Array (Option K)),
      l.foldlM (fun w x => setW w (f x) (g x)) w = .ok w' → Ext w w' := by
  intro l
  induction l with
  | nil => intro w w' h; simp [List.foldlM] at h; cases h; exact Ext.refl w
  | cons x xs ih =>
    intro w w' h
    simp only [List.foldlM_cons] at h
    obtain ⟨w1, h1, h2⟩ := bind_ok'' h
    exact (setW_ext h1).trans (ih w1 w' h2)

theorem execHintBits_ext (canon : K → Nat) (w w' : Array (Option K)) (ins outs : List Nat)
    (h : execHintBits canon w ins outs = .ok w') : Ext w w' := by
  unfold execHintBits at h
  split at h
  · obtain ⟨xv, _, h⟩ := bind_ok'' h
    exact foldlM_setW_ext (fun (oi : Nat × Nat) => oi.1)
      (fun oi => if (canon xv >>> oi.2) % 2 = 1 then (1 : K) else 0) _ w w' h
  · cases h

theorem execHintExt_ext (w w' : Array (Option K)) (ins outs : List Nat)
    (h : execHintExt w ins outs = .ok w') : Ext w w' := by
  unfold execHintExt at h
  split at h
  · obtain ⟨xv, _, h⟩ := bind_ok'' h
    exact setW_ext h
  · cases h

/-- One step of `execute_all` extends the table and establishes the executed op's relation. -/
theorem execOp_establishes (canon : K → Nat) (s s' : RState K) (op : Op K)
    (h : execOp canon s op = .ok s') : Ext s.w s'.w ∧ holdsOn s'.w op := by
  unfold execOp at h
  cases op with
  | const out v =>
    simp only at h
    obtain ⟨w1, hset, h⟩ := bind_ok'' h
    cases h
    exact ⟨setW_ext hset, setW_get hset⟩
  | pub out pos =>
    simp only at h
    split at h
    · cases h; exact ⟨Ext.refl _, trivial⟩
    · cases h
  | alu k a b c out io =>
    simp only at h
    obtain ⟨⟨w1, r⟩, hex, h⟩ := bind_ok'' h
    cases h
    exact execAlu_establishes s.w k a b c out io w1 r hex
  | hint ins outs kd =>
    cases kd with
    | hintBits =>
      simp only at h
      obtain ⟨w1, hh, h⟩ := bind_ok'' h
      cases h
      exact ⟨execHintBits_ext canon _ _ _ _ hh, trivial⟩
    | hintExt =>
      simp only at h
      obtain ⟨w1, hh, h⟩ := bind_ok'' h
      cases h
      exact ⟨execHintExt_ext _ _ _ _ hh, trivial⟩
    | table _ => simp at h
  | npo _ _ _ _ => simp at h

/-- After `execute_all`, every executed op's relation holds on the final table. -/
theorem execAll_establishes (canon : K → Nat) :
    ∀ (ops : List (Op K)) (s s' : RState K), ops.foldlM (execOp canon) s = .ok s' →
      Ext s.w s'.w ∧ ∀ op ∈ ops, holdsOn s'.w op := by
  intro ops
  induction ops with
  | nil => intro s s' h; simp [List.foldlM] at h; cases h; exact ⟨Ext.refl _, fun _ h => by cases h⟩
  | cons op ops ih =>
    intro s s' h
    simp only [List.foldlM_cons] at h
    obtain ⟨s1, h1, h2⟩ := bind_ok'' h
    obtain ⟨e1, ho⟩ := execOp_establishes canon s s1 op h1
    obtain ⟨e2, hall⟩ := ih s1 s' h2
    refine ⟨e1.trans e2, fun o hm => ?_⟩
    rcases List.mem_cons.mp hm with rfl | hm'
    · exact holdsOn_mono e2 _ ho
    · exact hall o hm'

/-- Relation on a *total* assignment read off a fully set table. -/
theorem holdsOn_total (w : Array (Option K)) (v pub : Nat → K)
    (hv : ∀ j x, slot w j = some x → v j = x) (op : Op K)
    (hnp : ∀ out pos, op ≠ .pub out pos) (h : holdsOn w op)
    (hbool : ∀ a b c out io, op = .alu .boolCheck a b c out io → v a * (v a - 1) = 0)
    (hwf : ∀ a b c out io, op = .alu .horner a b c out io → c.isSome ∧ io.isSome) :
    op.holds v pub := by
  cases op with
  | const out val => simp only [holdsOn] at h; simp [Op.holds, hv _ _ h]
  | pub out pos => exact absurd rfl (hnp out pos)
  | hint _ _ _ => trivial
  | npo _ _ _ _ => trivial
  | alu k a b c out io =>
    cases k with
    | add =>
      obtain ⟨x, y, z, h1, h2, h3, h4⟩ := h
      simp [Op.holds, hv _ _ h1, hv _ _ h2, hv _ _ h3, h4]
    | mul =>
      obtain ⟨x, y, z, h1, h2, h3, h4⟩ := h
      simp [Op.holds, hv _ _ h1, hv _ _ h2, hv _ _ h3, h4]
    | boolCheck => exact hbool a b c out io rfl
    | mulAdd =>
      cases c with
      | none =>
        obtain ⟨x, y, z, h1, h2, h3, h4⟩ := h
        simp [Op.holds, hv _ _ h1, hv _ _ h2, hv _ _ h3, h4]
      | some cv =>
        obtain ⟨x, y, u, z, h1, h2, h3, h4, h5⟩ := h
        simp [Op.holds, hv _ _ h1, hv _ _ h2, hv _ _ h3, hv _ _ h4, h5]
    | horner =>
      obtain ⟨hc, hi⟩ := hwf a b c out io rfl
      cases c with
      | none => simp at hc
      | some cv =>
        cases io with
        | none => simp at hi
        | some acc =>
          obtain ⟨x, y, u, z, q, h1, h2, h3, h4, h5, h6⟩ := h
          simp [Op.holds, hv _ _ h1, hv _ _ h2, hv _ _ h3, hv _ _ h4, hv _ _ h5, h6]

/-- The rewrite post-pass (conditional `setW`s) only extends the table. -/
theorem postpass_ext (g : Nat → Nat) :
    ∀ (l : List (Nat × Nat)) (wa w3 : Array (Option K)),
      l.foldlM (fun w (dc : Nat × Nat) =>
        match slot w (g dc.2) with
        | some v => setW w dc.1 v
        | none => pure w) wa = .ok w3 → Ext wa w3 := by
  intro l
  induction l with
  | nil => intro wa w3 hp; simp [List.foldlM] at hp; cases hp; exact Ext.refl _
  | cons dc rest ih =>
    intro wa w3 hp
    simp only [List.foldlM_cons] at hp
    obtain ⟨w1, h1, h2⟩ := bind_ok'' hp
    have e1 : Ext wa w1 := by
      split at h1
      · exact setW_ext h1
      · cases h1; exact Ext.refl _
    exact e1.trans (ih w1 w3 h2)

/-- Reading every slot with `mapM`: position `j` of the result is the value of the `j`-th index. -/
theorem mapM_slot_getD (w : Array (Option K)) :
    ∀ (idx : List Nat) (vals : List K),
      idx.mapM (fun i => match slot w i with
        | some v => (pure v : Except RunErr K)
        | none => .error (.notSetForIndex i)) = .ok vals →
      ∀ j, j < idx.length → slot w (idx.getD j 0) = some (vals.toArray.getD j 0) := by
  intro idx
  induction idx with
  | nil => intro vals _ j hj; simp at hj
  | cons i rest ih =>
    intro vals h j hj
    rw [List.mapM_cons] at h
    obtain ⟨v, hv, h⟩ := bind_ok'' h
    obtain ⟨vs, hvs, h⟩ := bind_ok'' h
    cases h
    cases j with
    | zero =>
      split at hv
      · rename_i x hx; cases hv; simpa using hx
      · cases hv
    | succ j =>
      have := ih vs hvs j (by simpa using hj)
      simpa using this


/-- **C02 / run soundness.** If `run` (from any prepared table) succeeds, the returned witness
satisfies the relation of every `Const` and ALU op of the circuit, *except that booleanity of
a `BoolCheck` operand is not tested by the runner* (it is the table row that rejects such a
trace — the "cannot be proven" clause of C02); hints impose no relation. -/
theorem run_ok_sat (canon : K → Nat) (c : Circuit K) (w0 : Array (Option K)) (t : Traces K)
    (h : runFrom canon c w0 = .ok t) (pub : Nat → K)
    (hwf : ∀ op ∈ c.ops.toList, ∀ a b cc out io, op = .alu .horner a b cc out io → cc.isSome ∧ io.isSome) :
    ∃ w3 : Array (Option K), (∀ j x, slot w3 j = some x → t.witness.getD j 0 = x) ∧
      ∀ op ∈ c.ops.toList, (∀ out pos, op ≠ .pub out pos) →
        (∀ a b cc out io, op = .alu .boolCheck a b cc out io →
          t.witness.getD a 0 * (t.witness.getD a 0 - 1) = 0) →
        op.holds (fun j => t.witness.getD j 0) pub := by
  unfold runFrom at h
  obtain ⟨s, hexec, h⟩ := bind_ok'' h
  obtain ⟨w3, hpost, h⟩ := bind_ok'' h
  obtain ⟨vals, hvals, h⟩ := bind_ok'' h
  cases h
  obtain ⟨_, hall⟩ := execAll_establishes canon c.ops.toList _ s hexec
  have hext : Ext s.w w3 :=
    postpass_ext (fun d => resolve c.rewrite d) c.rewrite s.w w3 hpost
  -- every slot of w3 is set and `vals` lists the values
  have hv : ∀ j x, slot w3 j = some x → vals.toArray.getD j 0 = x := by
    intro j x hj
    have hjlt : j < w3.size := by
      unfold slot at hj
      by_contra hge
      have : w3[j]? = none := Array.getElem?_eq_none (by omega)
      simp [this] at hj
    have := mapM_slot_getD w3 (List.range w3.size) vals hvals j (by simpa using hjlt)
    have hr : (List.range w3.size).getD j 0 = j := by
      simp [List.getD, List.getElem?_range hjlt]
    rw [hr, hj] at this
    exact (Option.some.inj this).symm
  refine ⟨w3, hv, fun op hop hnp hbool => ?_⟩
  exact holdsOn_total w3 _ pub hv op hnp (holdsOn_mono hext op (hall op hop)) hbool (hwf op hop)

end P3R.C02
