/-
C01 — concrete shapes on which the full statement of script agreement is false
(`∀ s, circuitUni s = .ok (nativeUni s)`, `∀ s, circuitBatch s = .ok (nativeBatch s)`), each replayed on
the real code by the harness (targets `unizk/*/fib`, `uni/*/add-nonext`, `uni/*/mul-prenonext`,
`batch/*/mul-prenonext`), and non-vacuity of the hypotheses of the `…_partial` theorems.
-/
import P3R.Props.C01

namespace P3R.Witness.C01
open P3R.VerifierScript P3R.C01

/-- Fibonacci AIR (2 columns, 3 public values, next row opened), 8 rows, one quotient chunk
(two with the ZK doubling), extension degree 4. -/
def fib (zk : Bool) : Shape :=
  { zk := zk, D := 4, nrc := 2,
    insts := [⟨2, 3, 0, true, true, if zk then 2 else 1, 0, if zk then 4 else 3⟩],
    friRounds := 2, finalPolyLen := 1, queries := 2, commitPowBits := 1, queryPowBits := 1 }

/-- A row-local AIR that opens no next row (`main_next_row_columns = []`). -/
def addNoNext : Shape :=
  { zk := false, D := 4, nrc := 0, insts := [⟨3, 0, 0, false, true, 1, 0, 3⟩],
    friRounds := 2, finalPolyLen := 1, queries := 2, commitPowBits := 1, queryPowBits := 1 }

/-- Preprocessed columns whose next row is never read (`preprocessed_next_row_columns = []`). -/
def mulPreNoNext : Shape :=
  { zk := false, D := 4, nrc := 0, insts := [⟨1, 0, 2, true, false, 1, 0, 3⟩],
    friRounds := 2, finalPolyLen := 1, queries := 2, commitPowBits := 1, queryPowBits := 1 }

/-- Uni-STARK with the hiding PCS: the circuit is built, but its transcript is not the native one
(the FRI random opened values are not absorbed with the opened values). -/
theorem uni_zk_scripts_differ : circuitUni (fib true) ≠ .ok (nativeUni (fib true)) := by
  intro h
  have h' : (circuitUni (fib true)).toOption = some (nativeUni (fib true)) := by rw [h]; rfl
  exact absurd h' (by decide)

/-- More precisely the native verifier absorbs strictly more. -/
theorem uni_zk_native_absorbs_more :
    ((circuitUni (fib true)).toOption.map (·.observed.length)) = some 28
      ∧ (nativeUni (fib true)).observed.length = 38 := by decide

theorem uni_nonext_rejected : ∃ e, circuitUni addNoNext = .error e := ⟨_, rfl⟩
theorem uni_prenonext_rejected : ∃ e, circuitUni mulPreNoNext = .error e := ⟨_, rfl⟩
theorem batch_prenonext_rejected : ∃ e, circuitBatch mulPreNoNext = .error e := ⟨_, rfl⟩

/-- Hence the unconditional statements are false. -/
theorem uni_scripts_equal_full_false : ¬ ∀ s, circuitUni s = .ok (nativeUni s) :=
  fun h => uni_zk_scripts_differ (h _)

theorem batch_scripts_equal_full_false : ¬ ∀ s, circuitBatch s = .ok (nativeBatch s) := by
  intro h
  have := h mulPreNoNext
  obtain ⟨e, he⟩ := batch_prenonext_rejected
  rw [he] at this
  cases this

/-- The witnesses are exactly outside the hypotheses. -/
theorem witnesses_falsify_wf :
    ¬ WFUni (fib true) ∧ ¬ WFUni addNoNext ∧ ¬ WFUni mulPreNoNext ∧ ¬ WFBatch mulPreNoNext := by
  refine ⟨?_, ?_, ?_, ?_⟩
  · rintro ⟨h, _⟩; cases h
  · rintro ⟨_, h, _⟩; cases h
  · rintro ⟨_, _, h⟩; exact absurd (h rfl) (by decide)
  · rintro ⟨_, h⟩
    exact absurd (h _ (List.mem_singleton.mpr rfl) rfl) (by decide)

/-! non-vacuity of the hypotheses -/

example : WFUni (fib false) := ⟨rfl, rfl, fun h => by cases h⟩
example : WFBatch (fib true) := ⟨by decide, fun x hx h => by
  have := List.mem_singleton.mp hx; subst this; cases h⟩

/-- a batch with preprocessed columns, lookups and ZK -/
def mixed : Shape :=
  { zk := true, D := 4, nrc := 2,
    insts := [⟨2, 3, 0, true, true, 2, 0, 4⟩, ⟨3, 0, 0, false, true, 2, 1, 3⟩, ⟨2, 0, 4, true, true, 4, 2, 4⟩],
    friRounds := 3, finalPolyLen := 1, queries := 2, commitPowBits := 0, queryPowBits := 2 }

example : WFBatch mixed := ⟨by decide, by decide⟩
example : (circuitBatch mixed).toOption = some (nativeBatch mixed) := by
  rw [P3R.C01.batch_scripts_equal_partial mixed ⟨by decide, by decide⟩]; rfl

end P3R.Witness.C01
