//! C14: proof data is packed in allocation order and every input matters.
//!
//! Two parts, both on the real code in-process:
//!
//! 1. **Sentinel read-back** (correspondence with `P3R.Model.Packing` + oracle). For a generated
//!    proof *shape* a structurally valid proof object is filled with pairwise distinct sentinel
//!    values by an independent field-by-field walk (`walk_*`, which also names every element);
//!    the real `…InputsBuilder::allocate` / `pack_values` run; a circuit containing only the
//!    allocation is built and run on the packed vectors; every target of the target structures
//!    is read back by a second independent walk (`tw_*`, same naming scheme) and must hold the
//!    sentinel of the element of the same name. The allocation trace (targets ordered by
//!    `ExprId`, with visibility from `public_rows` / `private_input_rows`) and the label sequence
//!    of both packed vectors are printed in the Lean driver's output format.
//! 2. **Perturbation campaign** (oracle only). For real proofs (uni / batch, plain / hiding PCS /
//!    hiding PCS + salted MMCS, and a circuit-tables proof with lookups and preprocessed columns)
//!    the verifier circuit is built once; then single proof elements — chosen per kind of packed
//!    position — are altered, the native verifier judges the altered proof, the altered proof is
//!    packed by the real code and the circuit is run. Native rejects ∧ circuit runs ⇒ the input is
//!    not wired to a check (`dead-input:<kind>`); native accepts ∧ circuit fails ⇒
//!    `circuit-rejects-valid:<kind>`.
//!
//! 3. **Structural perturbation** (oracle only, after 2. on the same proofs): one container / option /
//!    cap / arity of the proof grown or shrunk, verifier circuit rebuilt for the mutated proof; if it
//!    accepts, surplus and other elements are altered: native rejects ∧ rebuilt circuit still
//!    accepts ⇒ `shape-dead-input:<container kind>:<op>` (`c14_campaign.rs`, `ShapeVis`).
//! 4. **`hidmerge`** (correspondence with `P3R.Packing.hidMerge` + oracle): the real
//!    `HidingFriPcs::verify_circuit` on generated opening structures × hiding shapes.
//!
//! 5. **`friphase`** (correspondence with `P3R.Packing.friPhases` + oracle): the real
//!    `RecursivePcs::verify_circuit` on one FRI query with generated FRI parameters, folding schedule
//!    and Merkle cap heights; which openings the built circuit hashes is read off its graph.
//! 5b. **`sibcheck`** (correspondence with `P3R.Packing.friSibCheck` + oracle): the shape loop at the head
//!    of the real `verify_fri_circuit` (through `RecursivePcs::verify_circuit`) on generated per-query
//!    (log-arity, sibling count) tables: a malformed sibling count must be refused when the circuit is
//!    built (repair /repo fc0321f; before it the runner refused the packed vector instead).
//! 6. **Merkle caps**: campaign setups `<cfg>.<uni|batch>_cap<h>` (2.-3. on proofs whose MMCSs have a
//!    cap of height `h`), and two static oracles on every honest verifier circuit (`static_oracles`).
//!
//! Files: `c14.cases`, `c14.impl`, `c14m.cases`, `c14m.impl`, `c14p.cases`, `c14p.impl`, `c14s.cases`, `c14s.impl`,
//! `c14.report.json`.

use std::collections::{BTreeMap, HashMap, HashSet};
use std::io::Write;

use serde::{Deserialize, Serialize};
use serde_json::{Value, json};

use crate::rng::Rng;

// ------------------------------------------------------------------------------------------ shapes

#[derive(Clone, Debug, Serialize, Deserialize, PartialEq)]
pub struct OV {
    pub tl: usize,
    pub tn: Option<usize>,
    pub pl: Option<usize>,
    pub pn: Option<usize>,
    pub chunks: Vec<usize>,
    pub rnd: Option<usize>,
}
#[derive(Clone, Debug, Serialize, Deserialize, PartialEq)]
pub struct OVL {
    pub base: OV,
    pub prl: usize,
    pub prn: usize,
}
#[derive(Clone, Debug, Serialize, Deserialize, PartialEq)]
pub struct BO {
    pub opened: Vec<usize>,
    pub salts: Vec<usize>,
}
#[derive(Clone, Debug, Serialize, Deserialize, PartialEq)]
pub struct Step {
    pub log_arity: usize,
    pub siblings: usize,
    pub salts: Vec<usize>,
}
#[derive(Clone, Debug, Serialize, Deserialize, PartialEq)]
pub struct Query {
    pub input: Vec<BO>,
    pub steps: Vec<Step>,
}
#[derive(Clone, Debug, Serialize, Deserialize, PartialEq)]
pub struct Fri {
    pub commits: Vec<usize>,
    pub commit_pow: usize,
    pub queries: Vec<Query>,
    pub final_poly: usize,
}
#[derive(Clone, Debug, Serialize, Deserialize, PartialEq)]
pub struct Pcs {
    pub hid: Option<Vec<Vec<Vec<usize>>>>,
    pub fri: Fri,
}
#[derive(Clone, Debug, Serialize, Deserialize, PartialEq)]
pub struct Coms {
    pub main: usize,
    pub perm: Option<usize>,
    pub quot: usize,
    pub rand: Option<usize>,
}
#[derive(Clone, Debug, Serialize, Deserialize, PartialEq)]
pub struct Uni {
    pub air_pub: usize,
    pub coms: Coms,
    pub ov: OV,
    pub pcs: Pcs,
    pub prep: Option<usize>,
}
#[derive(Clone, Debug, Serialize, Deserialize, PartialEq)]
pub struct Batch {
    pub air_pub: Vec<usize>,
    pub coms: Coms,
    pub ovs: Vec<OVL>,
    pub pcs: Pcs,
    pub terminals: Vec<bool>,
    pub prep: Option<usize>,
}
#[derive(Clone, Debug, Serialize, Deserialize, PartialEq)]
pub enum Shape {
    Uni(Uni),
    Batch(Batch),
}
/// `cfg`: `bb_plain` (TwoAdicFriPcs + MerkleTreeMmcs), `bb_hid` (HidingFriPcs + MerkleTreeMmcs),
/// `bb_salted` (HidingFriPcs + MerkleTreeHidingMmcs), `gl_plain` (Goldilocks, D = 2, E = 4).
#[derive(Clone, Debug, Serialize, Deserialize)]
pub struct Case {
    pub cfg: String,
    pub shape: Shape,
    #[serde(default)]
    pub origin: String,
    /// expected outcome for malformed corpus shapes: "build-rejected" = allocate / pack / run accepts
    /// the vectors (lengths agree) and the verifier-circuit builder refuses the sibling counts
    #[serde(default)]
    pub expect: String,
}

// token encoding (grammar of `P3R.Packing.pUni` / `pBatch`)
fn t_opt(o: &Option<usize>, out: &mut Vec<usize>) {
    match o {
        None => out.push(0),
        Some(x) => {
            out.push(1);
            out.push(*x)
        }
    }
}
fn t_list(l: &[usize], out: &mut Vec<usize>) {
    out.push(l.len());
    out.extend_from_slice(l);
}
impl OV {
    fn tokens(&self, out: &mut Vec<usize>) {
        out.push(self.tl);
        t_opt(&self.tn, out);
        t_opt(&self.pl, out);
        t_opt(&self.pn, out);
        t_list(&self.chunks, out);
        t_opt(&self.rnd, out);
    }
}
impl Pcs {
    fn tokens(&self, out: &mut Vec<usize>) {
        match &self.hid {
            None => out.push(0),
            Some(h) => {
                out.push(1);
                out.push(h.len());
                for r in h {
                    out.push(r.len());
                    for m in r {
                        t_list(m, out);
                    }
                }
            }
        }
        let f = &self.fri;
        t_list(&f.commits, out);
        out.push(f.commit_pow);
        out.push(f.queries.len());
        for q in &f.queries {
            out.push(q.input.len());
            for b in &q.input {
                t_list(&b.opened, out);
                t_list(&b.salts, out);
            }
            out.push(q.steps.len());
            for s in &q.steps {
                out.push(s.log_arity);
                out.push(s.siblings);
                t_list(&s.salts, out);
            }
        }
        out.push(f.final_poly);
    }
    pub fn wf(&self) -> bool {
        self.fri.queries.iter().all(|q| q.steps.iter().all(|s| s.siblings == (1usize << s.log_arity) - 1))
    }
}
impl Coms {
    fn tokens(&self, out: &mut Vec<usize>) {
        out.push(self.main);
        t_opt(&self.perm, out);
        out.push(self.quot);
        t_opt(&self.rand, out);
    }
}
impl Shape {
    pub fn tokens(&self) -> (String, Vec<usize>) {
        let mut out = vec![];
        match self {
            Shape::Uni(u) => {
                out.push(u.air_pub);
                u.coms.tokens(&mut out);
                u.ov.tokens(&mut out);
                u.pcs.tokens(&mut out);
                t_opt(&u.prep, &mut out);
                ("uni".into(), out)
            }
            Shape::Batch(b) => {
                t_list(&b.air_pub, &mut out);
                b.coms.tokens(&mut out);
                out.push(b.ovs.len());
                for o in &b.ovs {
                    o.base.tokens(&mut out);
                    out.push(o.prl);
                    out.push(o.prn);
                }
                b.pcs.tokens(&mut out);
                out.push(b.terminals.len());
                for t in &b.terminals {
                    out.push(*t as usize);
                }
                t_opt(&b.prep, &mut out);
                ("batch".into(), out)
            }
        }
    }
    pub fn pcs(&self) -> &Pcs {
        match self {
            Shape::Uni(u) => &u.pcs,
            Shape::Batch(b) => &b.pcs,
        }
    }
}

// --------------------------------------------------------------------------------------- generator

fn g_opt(r: &mut Rng, num: u64, den: u64, hi: usize) -> Option<usize> {
    if r.chance(num, den) { Some(r.range(0, hi)) } else { None }
}
fn g_roots(r: &mut Rng) -> usize {
    *r.pick(&[1usize, 1, 1, 2, 4])
}
fn g_ov(r: &mut Rng, zk: bool, prep: bool) -> OV {
    let w = r.range(0, 5);
    let pw = r.range(1, 3);
    OV {
        tl: w,
        tn: if r.chance(2, 3) { Some(if r.chance(4, 5) { w } else { r.range(0, 5) }) } else { None },
        // mostly shapes the verifier's own validation accepts; a few it refuses (openings of
        // preprocessed columns without a preprocessed commitment) — packing must be aligned for both
        pl: if prep && r.chance(2, 3) { Some(pw) } else if r.chance(1, 10) { Some(0) } else if r.chance(1, 25) { Some(pw) } else { None },
        pn: if prep && r.chance(1, 2) { Some(pw) } else { None },
        chunks: (0..r.range(0, 4)).map(|_| r.range(0, 4)).collect(),
        rnd: if zk { Some(r.range(0, 4)) } else { None },
    }
}
fn g_salts(r: &mut Rng, salted: bool, mats: usize) -> Vec<usize> {
    if !salted {
        return vec![];
    }
    let n = if r.chance(5, 6) { mats } else { r.range(0, 3) };
    (0..n).map(|_| if r.chance(3, 4) { 4 } else { r.range(0, 3) }).collect()
}
fn g_pcs(r: &mut Rng, hiding: bool, salted: bool, rounds: usize) -> Pcs {
    let phases = r.range(0, 3);
    let arities: Vec<usize> = (0..phases).map(|_| *r.pick(&[1usize, 1, 2, 3])).collect();
    let nq = r.range(0, 3);
    let nbatch = r.range(0, 3);
    let mats: Vec<Vec<usize>> = (0..nbatch).map(|_| (0..r.range(0, 3)).map(|_| r.range(0, 4)).collect()).collect();
    let same = r.chance(3, 4);
    let queries = (0..nq)
        .map(|_| {
            let input = mats
                .iter()
                .map(|m| {
                    let opened: Vec<usize> = if same { m.clone() } else { (0..r.range(0, 3)).map(|_| r.range(0, 4)).collect() };
                    let salts = g_salts(r, salted, opened.len());
                    BO { opened, salts }
                })
                .collect();
            let steps = arities
                .iter()
                // mostly well-formed; a few steps carry a different number of siblings (allocation and
                // packing must agree on those too: both read `sibling_values.len()`)
                .map(|&la| Step { log_arity: la, siblings: if r.chance(1, 16) { r.range(0, 9) } else { (1usize << la) - 1 }, salts: g_salts(r, salted, 1) })
                .collect();
            Query { input, steps }
        })
        .collect();
    let hid = if hiding {
        Some(
            (0..rounds)
                .map(|_| (0..r.range(0, 3)).map(|_| (0..r.range(0, 2)).map(|_| r.range(0, 3)).collect()).collect())
                .collect(),
        )
    } else {
        None
    };
    Pcs {
        hid,
        fri: Fri {
            commits: (0..phases).map(|_| g_roots(r)).collect(),
            commit_pow: if r.chance(5, 6) { phases } else { r.range(0, 4) },
            queries,
            final_poly: r.range(0, 4),
        },
    }
}
pub fn gen_case(r: &mut Rng, cfg: &str) -> Case {
    let hiding = cfg != "bb_plain" && cfg != "gl_plain";
    let salted = cfg == "bb_salted";
    let zk = hiding;
    let prep = g_opt(r, 1, 2, 0).map(|_| g_roots(r));
    let shape = if r.chance(1, 2) {
        let coms = Coms { main: g_roots(r), perm: None, quot: g_roots(r), rand: if zk { Some(g_roots(r)) } else { None } };
        Shape::Uni(Uni { air_pub: r.range(0, 4), coms, ov: g_ov(r, zk, prep.is_some()), pcs: g_pcs(r, hiding, salted, 3), prep })
    } else {
        let n = r.range(1, 4);
        let lookups = r.chance(1, 2);
        let coms = Coms {
            main: g_roots(r),
            perm: if lookups { Some(g_roots(r)) } else { None },
            quot: g_roots(r),
            rand: if zk { Some(g_roots(r)) } else { None },
        };
        let ovs = (0..n)
            .map(|_| {
                let p = if lookups && r.chance(2, 3) { r.range(1, 3) } else { 0 };
                OVL { base: g_ov(r, zk, prep.is_some()), prl: p, prn: if r.chance(3, 4) { p } else { 0 } }
            })
            .collect::<Vec<_>>();
        let mut terminals: Vec<bool> = ovs.iter().map(|o| o.prl > 0).collect();
        if r.chance(1, 20) {
            let k = r.usize(terminals.len());
            terminals[k] = !terminals[k];
        }
        Shape::Batch(Batch {
            air_pub: (0..n).map(|_| r.range(0, 3)).collect(),
            coms,
            ovs,
            pcs: g_pcs(r, hiding, salted, 4),
            terminals,
            prep,
        })
    };
    Case { cfg: cfg.to_string(), shape, origin: "gen".into(), expect: String::new() }
}

/// One `hidmerge` case: opening structure (rounds → matrices → number of opening points) against
/// the shape of the hiding random opened values (rounds → matrices → points → length).
#[derive(Clone, Debug, Serialize, Deserialize)]
pub struct MergeCase {
    pub cfg: String,
    pub open: Vec<Vec<usize>>,
    pub hid: Vec<Vec<Vec<usize>>>,
    #[serde(default)]
    pub origin: String,
}

impl MergeCase {
    pub fn line(&self) -> String {
        let mut t: Vec<usize> = vec![self.open.len()];
        for r in &self.open {
            t_list(r, &mut t);
        }
        t.push(self.hid.len());
        for r in &self.hid {
            t.push(r.len());
            for m in r {
                t_list(m, &mut t);
            }
        }
        format!("hidmerge {}", t.iter().map(|x| x.to_string()).collect::<Vec<_>>().join(" "))
    }
    /// Independent judgement (not a transcription of the Rust loop): the first level, in
    /// round-major order, at which the proof's random openings stop mirroring the opening structure.
    pub fn first_mismatch(&self) -> Option<&'static str> {
        if self.open.len() != self.hid.len() {
            return Some("rounds");
        }
        for (o, h) in self.open.iter().zip(&self.hid) {
            if o.len() != h.len() {
                return Some("matrices");
            }
            for (np, m) in o.iter().zip(h) {
                if *np != m.len() {
                    return Some("points");
                }
            }
        }
        None
    }
}

/// Mostly mirrored shapes (what honest provers produce: random / trace at 1-2 points / quotient
/// chunks at 1 point / preprocessed), then 0-2 seeded discrepancies at a random level and position:
/// surplus or missing round, matrix, point.
pub fn gen_merge_case(r: &mut Rng, cfg: &str) -> MergeCase {
    let rounds = r.range(0, 4);
    let hid: Vec<Vec<Vec<usize>>> = (0..rounds).map(|_| (0..r.range(0, 4)).map(|_| (0..r.range(0, 3)).map(|_| r.range(0, 3)).collect()).collect()).collect();
    let mut open: Vec<Vec<usize>> = hid.iter().map(|ro| ro.iter().map(|m| m.len()).collect()).collect();
    let mut hid = hid;
    let n_disc = *r.pick(&[0usize, 0, 1, 1, 1, 2]);
    for _ in 0..n_disc {
        let on_open = r.chance(1, 2);
        match r.range(0, 2) {
            0 => {
                // round level
                if r.chance(1, 2) || open.is_empty() {
                    if on_open { open.push(vec![1]) } else { hid.push(vec![vec![1]]) }
                } else if on_open {
                    open.pop();
                } else {
                    hid.pop();
                }
            }
            1 => {
                if open.is_empty() || hid.is_empty() {
                    continue;
                }
                let k = r.usize(open.len().min(hid.len()));
                if r.chance(1, 2) || open[k].is_empty() || hid[k].is_empty() {
                    if on_open { open[k].push(1) } else { hid[k].push(vec![1]) }
                } else if on_open {
                    open[k].pop();
                } else {
                    hid[k].pop();
                }
            }
            _ => {
                if open.is_empty() || hid.is_empty() {
                    continue;
                }
                let k = r.usize(open.len().min(hid.len()));
                if open[k].is_empty() || hid[k].is_empty() {
                    continue;
                }
                let m = r.usize(open[k].len().min(hid[k].len()));
                if r.chance(2, 3) || open[k][m] == 0 || hid[k][m].is_empty() {
                    // surplus point: more random point-vectors than opening points, or vice versa
                    if on_open { open[k][m] += 1 } else { let w = r.range(1, 3); hid[k][m].push(w) }
                } else if on_open {
                    open[k][m] -= 1;
                } else {
                    hid[k][m].pop();
                }
            }
        }
    }
    MergeCase { cfg: cfg.to_string(), open, hid, origin: "gen".into() }
}


/// One `friphase` case: a single FRI query over one committed matrix of maximal height.
/// `phases`: per commit phase `(log_arity, cap height of its commitment)`.
#[derive(Clone, Debug, Serialize, Deserialize)]
pub struct PhaseCase {
    pub cfg: String,
    pub lb: usize,
    pub lf: usize,
    pub in_cap: usize,
    pub phases: Vec<(usize, usize)>,
    pub width: usize,
    #[serde(default)]
    pub origin: String,
}

impl PhaseCase {
    pub fn line(&self) -> String {
        let mut t = vec![self.lb, self.lf, self.in_cap, self.phases.len()];
        for (a, h) in &self.phases {
            t.push(*a);
            t.push(*h);
        }
        format!("friphase {}", t.iter().map(|x| x.to_string()).collect::<Vec<_>>().join(" "))
    }
    pub fn log_max(&self) -> usize {
        self.phases.iter().map(|p| p.0).sum::<usize>() + self.lf + self.lb
    }
    /// log height of the folded codeword of every phase
    pub fn folded(&self) -> Vec<usize> {
        let mut cur = self.log_max();
        self.phases.iter().map(|p| { cur -= p.0; cur }).collect()
    }
    /// every cap fits its tree (what an honest prover produces: the native MMCS clamps the cap
    /// height to the tree)
    pub fn caps_fit(&self) -> bool {
        self.in_cap <= self.log_max() && self.phases.iter().zip(self.folded()).all(|(p, f)| p.1 <= f)
    }
}

/// FRI parameters as configured in practice (`log_blowup` 1-3, rarely 0 to reach the loop's
/// `log_folded_height == 0` special case), 1-4 phases of log-arity 1-3, cap heights: none, the
/// whole tree, one level below, anything in between, rarely one level too many (refused).
pub fn gen_phase_case(r: &mut Rng, cfg: &str) -> PhaseCase {
    let lb = *r.pick(&[1usize, 1, 1, 2, 2, 2, 3, 0]);
    let lf = *r.pick(&[0usize, 0, 0, 1, 2]);
    let n = r.range(1, 4);
    let arities: Vec<usize> = (0..n).map(|_| *r.pick(&[1usize, 1, 1, 2, 3])).collect();
    let mut c = PhaseCase { cfg: cfg.to_string(), lb, lf, in_cap: 0, phases: arities.iter().map(|a| (*a, 0)).collect(), width: r.range(1, 3), origin: "gen".into() };
    let folded = c.folded();
    let uniform = if r.chance(1, 2) { Some(r.range(0, 6)) } else { None }; // one MMCS cap height, clamped per tree (native behaviour)
    let cap = |r: &mut Rng, f: usize| -> usize {
        let h = match uniform {
            Some(u) => u.min(f),
            None => match r.range(0, 9) {
                0 | 1 => 0,
                2 | 3 | 4 => f,
                5 => f.saturating_sub(1),
                6 => f + 1,
                _ => r.range(0, f),
            },
        };
        h.min(6)
    };
    for (k, f) in folded.iter().enumerate() {
        c.phases[k].1 = cap(r, *f);
    }
    c.in_cap = cap(r, c.log_max());
    c
}

/// One `sibcheck` case: per query proof its commit-phase steps `(log_arity, sibling_values.len())`.
#[derive(Clone, Debug, Serialize, Deserialize)]
pub struct SibCase {
    pub cfg: String,
    pub queries: Vec<Vec<(usize, usize)>>,
    #[serde(default)]
    pub origin: String,
}

impl SibCase {
    pub fn line(&self) -> String {
        let mut t = vec![4usize, self.queries.len()];
        for q in &self.queries {
            t.push(q.len());
            for (a, s) in q {
                t.push(*a);
                t.push(*s);
            }
        }
        format!("sibcheck {}", t.iter().map(|x| x.to_string()).collect::<Vec<_>>().join(" "))
    }
    /// Independent statement of what must be accepted (not the model's control flow): at least one
    /// phase-consistent schedule, no arity-1 phase, and every step carries `2^log_arity - 1` siblings.
    pub fn well_formed(&self) -> bool {
        let Some(first) = self.queries.first() else { return true };
        let sched: Vec<usize> = first.iter().map(|p| p.0).collect();
        sched.iter().all(|&a| a >= 1)
            && self.queries.iter().all(|q| {
                q.iter().map(|p| p.0).collect::<Vec<_>>() == sched
                    && q.iter().all(|&(a, s)| a < 40 && s == (1usize << a) - 1)
            })
    }
    /// the only discrepancy is in sibling counts
    pub fn only_siblings_malformed(&self) -> bool {
        let mut c = self.clone();
        for q in &mut c.queries {
            for p in q.iter_mut() {
                p.1 = if p.0 < 40 { (1usize << p.0) - 1 } else { usize::MAX };
            }
        }
        !self.well_formed() && c.queries.iter().flatten().all(|p| p.0 < 40) && c.well_formed()
    }
}

/// 1-3 queries over a schedule of 0-4 phases (log-arity 1-5), then: nothing (well-formed), or one
/// to two discrepancies — a sibling count off by one / zero / doubled / the neighbouring arity's, a
/// step's log-arity changed, a step dropped or added, a schedule entry 0 — or a huge log-arity
/// (28-255, where `2^log_arity` does not fit the field / a `usize`).
///
/// `huge = false` leaves the huge log-arities out, `huge = true` puts one into every case: the two
/// families run in separate harness processes, because code that sizes an allocation with
/// `2^log_arity` (the behaviour before /repo fc0321f) is killed by the OS rather than failing a check.
pub fn gen_sib_case(r: &mut Rng, cfg: &str, huge: bool) -> SibCase {
    let n = r.range(0, 4);
    let sched: Vec<usize> = (0..n).map(|_| *r.pick(&[1usize, 1, 1, 2, 2, 3, 4, 5])).collect();
    let nq = r.range(1, 3);
    let mut queries: Vec<Vec<(usize, usize)>> = (0..nq).map(|_| sched.iter().map(|&a| (a, (1usize << a) - 1)).collect()).collect();
    let kinds = if huge { r.range(1, 2) } else if r.chance(1, 4) { 0 } else if r.chance(3, 4) { 1 } else { 2 };
    for i in 0..kinds {
        let q = r.usize(nq);
        let len = queries[q].len();
        match if huge && i == 0 { 9 } else { r.range(0, 8) } {
            0..=4 if len > 0 => {
                let k = r.usize(len);
                let (_, s) = queries[q][k];
                queries[q][k].1 = match r.range(0, 5) {
                    0 => s + 1,
                    1 => s.saturating_sub(1),
                    2 => 0,
                    3 => 2 * s + 1,            // what arity 2^(a+1) would carry
                    4 => s / 2,                // what arity 2^(a-1) would carry
                    _ => s + r.range(2, 5),
                };
            }
            5 if len > 0 => {
                let k = r.usize(len);
                queries[q][k].0 = (queries[q][k].0 + 1) % 6; // sibling count left as it was
            }
            6 if len > 0 => {
                queries[q].pop();
            }
            7 => queries[q].push((1, 1)),
            8 if len > 0 => {
                let k = r.usize(len);
                queries[q][k] = (0, r.range(0, 1));
            }
            _ if len > 0 => {
                let k = r.usize(len);
                queries[q][k] = (*r.pick(&[28usize, 31, 32, 40, 62, 63, 64, 65, 128, 255]), r.range(0, 3));
            }
            _ if huge => queries[q].push((*r.pick(&[28usize, 33, 63, 64, 200, 255]), r.range(0, 3))),
            _ => queries[q].push((2, 2)),
        }
    }
    SibCase { cfg: cfg.to_string(), queries, origin: "gen".into() }
}

fn run_sibcheck(c: &SibCase) -> Option<String> {
    match c.cfg.as_str() {
        "bb_plain" => Some(bb_plain::sibcheck(&c.queries)),
        "bb_hid" => Some(bb_hid::sibcheck(&c.queries)),
        "bb_salted" => Some(bb_salted::sibcheck(&c.queries)),
        _ => None,
    }
}

fn run_friphase(c: &PhaseCase) -> Option<String> {
    match c.cfg.as_str() {
        "bb_plain" => Some(bb_plain::friphase(c.lb, c.lf, c.in_cap, &c.phases, c.width)),
        "bb_hid" => Some(bb_hid::friphase(c.lb, c.lf, c.in_cap, &c.phases, c.width)),
        "bb_salted" => Some(bb_salted::friphase(c.lb, c.lf, c.in_cap, &c.phases, c.width)),
        _ => None,
    }
}

fn run_hidmerge(c: &MergeCase) -> Option<String> {
    match c.cfg.as_str() {
        "bb_hid" => Some(bb_hid::hidmerge(&c.open, &c.hid)),
        "bb_salted" => Some(bb_salted::hidmerge(&c.open, &c.hid)),
        _ => None,
    }
}

// ---------------------------------------------------------------------------------- shared helpers

/// Kind of a label: every run of digits replaced by `#` (`fri.q3.in0.m1.2` → `fri.q#.in#.m#.#`).
pub fn kind_of(label: &str) -> String {
    let mut out = String::new();
    let mut in_digits = false;
    for c in label.chars() {
        if c.is_ascii_digit() {
            if !in_digits {
                out.push('#');
            }
            in_digits = true;
        } else {
            in_digits = false;
            out.push(c);
        }
    }
    out
}

/// What one sentinel case produced.
pub struct SentinelRes {
    pub lines: Vec<String>,
    pub violations: Vec<(String, Value)>,
    pub notes: Vec<String>,
    pub n_inputs: usize,
}

/// One perturbation-campaign observation.
pub struct Pert {
    pub setup: String,
    pub label: String,
    /// empty: the element `label` was altered by +1; otherwise the structural mutation applied to
    /// the container `label` (`push`, `pop`, `ins0`, `rem0`, `none`, `some`, `double`, `halve`, `inc`, `dec`)
    pub op: String,
    /// non-empty: after the structural mutation (`label`, `op`) was accepted by the rebuilt circuit,
    /// this element of the mutated proof was altered by +1 (`+` prefix: a surplus element, i.e. one
    /// the honest proof does not have)
    pub elem: String,
    pub native_ok: bool,
    pub circuit_ok: bool,
    pub circuit_err: String,
}

pub struct CampaignRes {
    pub setup: String,
    pub positions: usize,
    /// number of applicable structural mutations (sites x ops) enumerated on the honest proof
    pub shape_sites: usize,
    pub baseline_ok: bool,
    pub baseline_note: String,
    pub perts: Vec<Pert>,
    /// static oracles on the honest verifier circuit: (class prefix, label of the input)
    pub statics: Vec<(String, String)>,
    pub secs: f64,
}

/// `--label L`: perturb only that element (replay of one campaign observation).
pub static ONLY_LABEL: std::sync::OnceLock<String> = std::sync::OnceLock::new();
/// `--op O` (with `--label L`): apply only the structural mutation `O` to container `L`.
pub static ONLY_OP: std::sync::OnceLock<String> = std::sync::OnceLock::new();

/// Class suffix of a campaign setup: `bb_hid.uni` → `uni-zk`, `bb_plain.tables` → `tables-plain`,
/// `bb_salted.batch_cap2` → `batch_cap2-zk`.
pub fn setup_class(setup: &str) -> String {
    let (cfg, part) = setup.split_once('.').unwrap_or((setup, ""));
    format!("{part}-{}", if cfg == "bb_plain" { "plain" } else { "zk" })
}

pub fn panic_msg(p: Box<dyn std::any::Any + Send>) -> String {
    p.downcast_ref::<String>().cloned().or_else(|| p.downcast_ref::<&str>().map(|s| s.to_string())).unwrap_or_else(|| "panic".into())
}

// ------------------------------------------------------------------------------------ config modules

mod bb_plain {
    pub use p3_test_utils::baby_bear_params::*;
    pub const CFG: &str = "bb_plain";
    pub const HIDING: bool = false;
    pub const CAMPAIGN: bool = true;
    pub type ValMmcs = MyMmcs;
    pub type ChMmcs = ChallengeMmcs;
    pub type ThePcs = p3_fri::TwoAdicFriPcs<F, Dft, ValMmcs, ChMmcs>;
    pub type RecVal = p3_recursion::pcs::fri::RecValMmcs<F, DIGEST_ELEMS, MyHash, MyCompress>;
    pub type MmcsProof = Vec<[F; DIGEST_ELEMS]>;
    pub type Opening = Fri;
    pub type OpeningT = InnerFriT;
    pub fn mk_mmcs(_salts: Vec<Vec<F>>) -> MmcsProof {
        vec![]
    }
    pub fn salts_mut(_p: &mut MmcsProof) -> Option<&mut Vec<Vec<F>>> {
        None
    }
    pub fn mk_opening(_hid: Option<p3_commit::OpenedValues<Challenge>>, fri: Fri) -> Opening {
        fri
    }
    pub fn split_mut(o: &mut Opening) -> (Option<&mut p3_commit::OpenedValues<Challenge>>, &mut Fri) {
        (None, o)
    }
    pub fn split_t(t: &OpeningT) -> (Option<&Vec<Vec<Vec<Vec<p3_recursion::Target>>>>>, &InnerFriT) {
        (None, t)
    }
    pub fn perm_config() -> p3_recursion::Poseidon2Config {
        p3_recursion::Poseidon2Config::BABY_BEAR_D4_W16
    }
    pub fn make_config(seed: u64) -> SC {
        make_config_cap(seed, 0)
    }
    /// `make_test_config` with a Merkle cap of height `cap` on both MMCSs (input and FRI commit phase)
    pub fn make_config_cap(_seed: u64, cap: usize) -> SC {
        let perm = default_babybear_poseidon2_16();
        let hash = MyHash::new(perm.clone());
        let compress = MyCompress::new(perm.clone());
        let val_mmcs = ValMmcs::new(hash, compress, cap);
        let challenge_mmcs = ChMmcs::new(val_mmcs.clone());
        let fri_params = FriParameters::new_testing(challenge_mmcs, 0);
        let pcs = ThePcs::new(Dft::default(), val_mmcs, fri_params);
        SC::new(pcs, Challenger::new(perm))
    }
    pub fn enable_perm(cb: &mut p3_circuit::CircuitBuilder<Challenge>) {
        cb.enable_poseidon2_perm::<p3_poseidon2_circuit_air::BabyBearD4Width16, _>(
            p3_circuit::ops::generate_poseidon2_trace::<Challenge, p3_poseidon2_circuit_air::BabyBearD4Width16>,
            default_babybear_poseidon2_16(),
        );
        cb.enable_recompose::<F>(p3_circuit::ops::generate_recompose_trace::<F, Challenge>);
    }
    pub fn set_mmcs_private(
        runner: &mut p3_circuit::CircuitRunner<'_, Challenge>,
        op_ids: &[p3_circuit::NonPrimitiveOpId],
        o: &Opening,
    ) -> Result<(), &'static str> {
        p3_recursion::pcs::set_fri_mmcs_private_data::<F, Challenge, ChMmcs, ValMmcs, MyHash, MyCompress, DIGEST_ELEMS>(
            runner,
            op_ids,
            o,
            perm_config(),
        )
    }
    include!("c14_cfg.rs");
    include!("c14_tables.rs");
    include!("c14_campaign.rs");
}

mod bb_hid {
    pub use p3_test_utils::baby_bear_params::*;
    pub const CFG: &str = "bb_hid";
    pub const HIDING: bool = true;
    pub const CAMPAIGN: bool = true;
    pub type ValMmcs = MyMmcs;
    pub type ChMmcs = ChallengeMmcs;
    pub type ThePcs = p3_fri::HidingFriPcs<F, Dft, ValMmcs, ChMmcs, rand::rngs::SmallRng>;
    pub type RecVal = p3_recursion::pcs::fri::RecValMmcs<F, DIGEST_ELEMS, MyHash, MyCompress>;
    pub type MmcsProof = Vec<[F; DIGEST_ELEMS]>;
    pub type Opening = (p3_commit::OpenedValues<Challenge>, Fri);
    pub type OpeningT =
        p3_recursion::pcs::fri::HidingFriProofTargets<F, Challenge, RecExt, p3_recursion::pcs::fri::InputProofTargets<F, Challenge, RecVal>, p3_recursion::pcs::fri::Witness<F>>;
    pub fn mk_mmcs(_salts: Vec<Vec<F>>) -> MmcsProof {
        vec![]
    }
    pub fn salts_mut(_p: &mut MmcsProof) -> Option<&mut Vec<Vec<F>>> {
        None
    }
    pub fn mk_opening(hid: Option<p3_commit::OpenedValues<Challenge>>, fri: Fri) -> Opening {
        (hid.unwrap_or_default(), fri)
    }
    pub fn split_mut(o: &mut Opening) -> (Option<&mut p3_commit::OpenedValues<Challenge>>, &mut Fri) {
        (Some(&mut o.0), &mut o.1)
    }
    pub fn split_t(t: &OpeningT) -> (Option<&Vec<Vec<Vec<Vec<p3_recursion::Target>>>>>, &InnerFriT) {
        (Some(&t.random_opened_values.rounds), &t.inner_proof)
    }
    pub fn perm_config() -> p3_recursion::Poseidon2Config {
        p3_recursion::Poseidon2Config::BABY_BEAR_D4_W16
    }
    pub fn make_config(seed: u64) -> SC {
        make_config_cap(seed, 0)
    }
    pub fn make_config_cap(seed: u64, cap: usize) -> SC {
        use rand::SeedableRng;
        let perm = default_babybear_poseidon2_16();
        let hash = MyHash::new(perm.clone());
        let compress = MyCompress::new(perm.clone());
        let val_mmcs = ValMmcs::new(hash, compress, cap);
        let challenge_mmcs = ChMmcs::new(val_mmcs.clone());
        let fri_params = FriParameters::new_testing(challenge_mmcs, 0);
        let pcs = ThePcs::new(Dft::default(), val_mmcs, fri_params, 2, rand::rngs::SmallRng::seed_from_u64(seed));
        SC::new(pcs, Challenger::new(perm))
    }
    pub fn enable_perm(cb: &mut p3_circuit::CircuitBuilder<Challenge>) {
        cb.enable_poseidon2_perm::<p3_poseidon2_circuit_air::BabyBearD4Width16, _>(
            p3_circuit::ops::generate_poseidon2_trace::<Challenge, p3_poseidon2_circuit_air::BabyBearD4Width16>,
            default_babybear_poseidon2_16(),
        );
        cb.enable_recompose::<F>(p3_circuit::ops::generate_recompose_trace::<F, Challenge>);
    }
    pub fn set_mmcs_private(
        runner: &mut p3_circuit::CircuitRunner<'_, Challenge>,
        op_ids: &[p3_circuit::NonPrimitiveOpId],
        o: &Opening,
    ) -> Result<(), &'static str> {
        p3_recursion::pcs::set_hiding_fri_mmcs_private_data::<F, Challenge, ChMmcs, ValMmcs, MyHash, MyCompress, DIGEST_ELEMS>(
            runner,
            op_ids,
            o,
            perm_config(),
        )
    }
    pub fn tables(_seed: u64, _per_kind: usize) -> Vec<super::CampaignRes> {
        vec![]
    }
    include!("c14_cfg.rs");
    include!("c14_campaign.rs");
}

mod bb_salted {
    pub use p3_test_utils::baby_bear_params::*;
    pub const CFG: &str = "bb_salted";
    pub const HIDING: bool = true;
    pub const CAMPAIGN: bool = true;
    pub const SALT_ELEMS: usize = 4;
    pub type ValMmcs = p3_merkle_tree::MerkleTreeHidingMmcs<
        <F as Field>::Packing,
        <F as Field>::Packing,
        MyHash,
        MyCompress,
        rand::rngs::SmallRng,
        2,
        DIGEST_ELEMS,
        SALT_ELEMS,
    >;
    pub type ChMmcs = ExtensionMmcs<F, Challenge, ValMmcs>;
    pub type ThePcs = p3_fri::HidingFriPcs<F, Dft, ValMmcs, ChMmcs, rand::rngs::SmallRng>;
    pub type RecVal = p3_recursion::pcs::fri::RecValHidingMmcs<F, DIGEST_ELEMS, SALT_ELEMS, MyHash, MyCompress, rand::rngs::SmallRng>;
    pub type MmcsProof = (Vec<Vec<F>>, Vec<[F; DIGEST_ELEMS]>);
    pub type Opening = (p3_commit::OpenedValues<Challenge>, Fri);
    pub type OpeningT =
        p3_recursion::pcs::fri::HidingFriProofTargets<F, Challenge, RecExt, p3_recursion::pcs::fri::InputProofTargets<F, Challenge, RecVal>, p3_recursion::pcs::fri::Witness<F>>;
    pub fn mk_mmcs(salts: Vec<Vec<F>>) -> MmcsProof {
        (salts, vec![])
    }
    pub fn salts_mut(p: &mut MmcsProof) -> Option<&mut Vec<Vec<F>>> {
        Some(&mut p.0)
    }
    pub fn mk_opening(hid: Option<p3_commit::OpenedValues<Challenge>>, fri: Fri) -> Opening {
        (hid.unwrap_or_default(), fri)
    }
    pub fn split_mut(o: &mut Opening) -> (Option<&mut p3_commit::OpenedValues<Challenge>>, &mut Fri) {
        (Some(&mut o.0), &mut o.1)
    }
    pub fn split_t(t: &OpeningT) -> (Option<&Vec<Vec<Vec<Vec<p3_recursion::Target>>>>>, &InnerFriT) {
        (Some(&t.random_opened_values.rounds), &t.inner_proof)
    }
    pub fn perm_config() -> p3_recursion::Poseidon2Config {
        p3_recursion::Poseidon2Config::BABY_BEAR_D4_W16
    }
    pub fn make_config(seed: u64) -> SC {
        make_config_cap(seed, 0)
    }
    pub fn make_config_cap(seed: u64, cap: usize) -> SC {
        use rand::SeedableRng;
        let perm = default_babybear_poseidon2_16();
        let hash = MyHash::new(perm.clone());
        let compress = MyCompress::new(perm.clone());
        let val_mmcs = ValMmcs::new(hash, compress, cap, rand::rngs::SmallRng::seed_from_u64(seed + 10));
        let challenge_mmcs = ChMmcs::new(val_mmcs.clone());
        let fri_params = FriParameters::new_testing(challenge_mmcs, 0);
        let pcs = ThePcs::new(Dft::default(), val_mmcs, fri_params, 2, rand::rngs::SmallRng::seed_from_u64(seed));
        SC::new(pcs, Challenger::new(perm))
    }
    pub fn enable_perm(cb: &mut p3_circuit::CircuitBuilder<Challenge>) {
        cb.enable_poseidon2_perm::<p3_poseidon2_circuit_air::BabyBearD4Width16, _>(
            p3_circuit::ops::generate_poseidon2_trace::<Challenge, p3_poseidon2_circuit_air::BabyBearD4Width16>,
            default_babybear_poseidon2_16(),
        );
        cb.enable_recompose::<F>(p3_circuit::ops::generate_recompose_trace::<F, Challenge>);
    }
    pub fn set_mmcs_private(
        runner: &mut p3_circuit::CircuitRunner<'_, Challenge>,
        op_ids: &[p3_circuit::NonPrimitiveOpId],
        o: &Opening,
    ) -> Result<(), &'static str> {
        p3_recursion::pcs::set_hiding_salted_fri_mmcs_private_data::<F, Challenge, ChMmcs, ValMmcs, DIGEST_ELEMS>(runner, op_ids, o, perm_config())
    }
    pub fn tables(_seed: u64, _per_kind: usize) -> Vec<super::CampaignRes> {
        vec![]
    }
    include!("c14_cfg.rs");
    include!("c14_campaign.rs");
}

mod gl_plain {
    pub use p3_test_utils::goldilocks_params::*;
    pub const CFG: &str = "gl_plain";
    pub const HIDING: bool = false;
    pub const CAMPAIGN: bool = false;
    pub type ValMmcs = MyMmcs;
    pub type ChMmcs = ChallengeMmcs;
    pub type ThePcs = p3_fri::TwoAdicFriPcs<F, Dft, ValMmcs, ChMmcs>;
    pub type RecVal = p3_recursion::pcs::fri::RecValMmcs<F, DIGEST_ELEMS, MyHash, MyCompress>;
    pub type MmcsProof = Vec<[F; DIGEST_ELEMS]>;
    pub type Opening = Fri;
    pub type OpeningT = InnerFriT;
    pub fn mk_mmcs(_salts: Vec<Vec<F>>) -> MmcsProof {
        vec![]
    }
    pub fn salts_mut(_p: &mut MmcsProof) -> Option<&mut Vec<Vec<F>>> {
        None
    }
    pub fn mk_opening(_hid: Option<p3_commit::OpenedValues<Challenge>>, fri: Fri) -> Opening {
        fri
    }
    pub fn split_mut(o: &mut Opening) -> (Option<&mut p3_commit::OpenedValues<Challenge>>, &mut Fri) {
        (None, o)
    }
    pub fn split_t(t: &OpeningT) -> (Option<&Vec<Vec<Vec<Vec<p3_recursion::Target>>>>>, &InnerFriT) {
        (None, t)
    }
    include!("c14_cfg.rs");
    pub fn campaign(_seed: u64, _per_kind: usize, _which: &str) -> Vec<super::CampaignRes> {
        vec![]
    }
}

fn run_sentinel(case: &Case) -> Option<SentinelRes> {
    match case.cfg.as_str() {
        "bb_plain" => Some(bb_plain::sentinel(case)),
        "bb_hid" => Some(bb_hid::sentinel(case)),
        "bb_salted" => Some(bb_salted::sentinel(case)),
        "gl_plain" => Some(gl_plain::sentinel(case)),
        _ => None,
    }
}

fn bump(h: &mut BTreeMap<String, u64>, k: &str) {
    *h.entry(k.to_string()).or_default() += 1;
}

fn shape_hist(case: &Case, h: &mut BTreeMap<String, u64>) {
    bump(h, &format!("cfg.{}", case.cfg));
    let pcs = case.shape.pcs();
    bump(h, &format!("fri.phases.{}", pcs.fri.commits.len()));
    bump(h, &format!("fri.queries.{}", pcs.fri.queries.len()));
    for q in &pcs.fri.queries {
        for s in &q.steps {
            bump(h, &format!("fri.log_arity.{}", s.log_arity));
        }
    }
    for c in &pcs.fri.commits {
        bump(h, &format!("cap.roots.{c}"));
    }
    bump(h, if pcs.hid.is_some() { "pcs.hiding" } else { "pcs.plain" });
    match &case.shape {
        Shape::Uni(u) => {
            bump(h, "kind.uni");
            bump(h, if u.prep.is_some() { "prep.some" } else { "prep.none" });
            bump(h, if u.ov.tn.is_some() { "trace_next.some" } else { "trace_next.none" });
            bump(h, &format!("chunks.{}", u.ov.chunks.len()));
        }
        Shape::Batch(b) => {
            bump(h, "kind.batch");
            bump(h, &format!("instances.{}", b.ovs.len()));
            bump(h, if b.prep.is_some() { "prep.some" } else { "prep.none" });
            bump(h, if b.coms.perm.is_some() { "lookups.some" } else { "lookups.none" });
            for o in &b.ovs {
                bump(h, if o.base.tn.is_some() { "trace_next.some" } else { "trace_next.none" });
                bump(h, &format!("chunks.{}", o.base.chunks.len()));
            }
        }
    }
}

pub fn main(args: &crate::Args) {
    let seed = args.u64("seed", 1);
    let shapes = args.u64("shapes", 50) as usize;
    let merges = args.u64("merges", 0) as usize;
    let n_phase_cases = args.u64("phases", 0) as usize;
    let n_sib_cases = args.u64("sibs", 0) as usize;
    let sib_huge = args.u64("sib-huge", 0) == 1;
    let per_kind = args.u64("per-kind", 1) as usize;
    let do_campaign = args.u64("campaign", 1) == 1;
    let which = args.str("setups", "all");
    if let Some(l) = args.opt("label") {
        if !l.is_empty() {
            let _ = ONLY_LABEL.set(l);
        }
    }
    if let Some(o) = args.opt("op") {
        if !o.is_empty() {
            let _ = ONLY_OP.set(o);
        }
    }
    let out = args.str("out", "/tmp/p3r_c14");
    std::fs::create_dir_all(&out).unwrap();
    let mut cases_f = std::io::BufWriter::new(std::fs::File::create(format!("{out}/c14.cases")).unwrap());
    let mut impl_f = std::io::BufWriter::new(std::fs::File::create(format!("{out}/c14.impl")).unwrap());
    let mut rng = Rng::new(seed);
    let mut hist: BTreeMap<String, u64> = BTreeMap::new();
    let mut violations: Vec<Value> = vec![];
    let mut samples: Vec<Value> = vec![];
    let mut distinct = HashSet::new();
    let mut corpus_notes: Vec<String> = vec![];

    // campaign runs on worker threads while the sentinel cases run here
    let campaign_handles: Vec<std::thread::JoinHandle<Vec<CampaignRes>>> = if do_campaign {
        let mut hs = vec![];
        // Merkle cap heights of the additional setups (`<cfg>.<uni|batch>_cap<h>`): `h` = both the
        // uni and the batch setup, `uh` / `bh` = only one of them
        let caps: Vec<(bool, bool, usize)> = args
            .str("caps", "1,2,3,4,8")
            .split(',')
            .filter_map(|c| {
                let c = c.trim();
                let (u, b, n) = if let Some(r) = c.strip_prefix('u') { (true, false, r) } else if let Some(r) = c.strip_prefix('b') { (false, true, r) } else { (true, true, c) };
                n.parse::<usize>().ok().filter(|h| *h > 0).map(|h| (u, b, h))
            })
            .collect();
        let cfg_names = ["bb_plain", "bb_hid", "bb_salted"];
        let mut todo: Vec<(usize, String)> = vec![];
        if which == "all" {
            for (i, _) in cfg_names.iter().enumerate() {
                let mut parts: Vec<String> = vec!["uni".into(), "batch".into()];
                if i == 0 {
                    parts.push("tables".into());
                }
                for (u, b, c) in &caps {
                    if *u {
                        parts.push(format!("uni_cap{c}"));
                    }
                    if *b {
                        parts.push(format!("batch_cap{c}"));
                    }
                }
                todo.extend(parts.into_iter().map(|p| (i, p)));
            }
        } else {
            // explicitly named setups (replay): any cap height
            for w in which.split(',') {
                if let Some((c, p)) = w.split_once('.') {
                    if let Some(i) = cfg_names.iter().position(|n| *n == c) {
                        todo.push((i, p.to_string()));
                    }
                }
            }
        }
        for (i, part) in todo {
            let s = seed.wrapping_mul(31).wrapping_add(i as u64);
            hs.push(
                std::thread::Builder::new()
                    .stack_size(64 << 20)
                    .spawn(move || match i {
                        0 => bb_plain::campaign(s, per_kind, &part),
                        1 => bb_hid::campaign(s, per_kind, &part),
                        _ => bb_salted::campaign(s, per_kind, &part),
                    })
                    .unwrap(),
            );
        }
        hs
    } else {
        vec![]
    };

    let mut todo: Vec<Case> = vec![];
    let mut merge_todo: Vec<MergeCase> = vec![];
    let mut phase_todo: Vec<PhaseCase> = vec![];
    let mut sib_todo: Vec<SibCase> = vec![];
    if let Some(dir) = args.opt("corpus") {
        let mut files: Vec<_> = std::fs::read_dir(&dir).map(|d| d.filter_map(|e| e.ok()).map(|e| e.path()).collect()).unwrap_or_default();
        files.sort();
        for f in files {
            let Ok(txt) = std::fs::read_to_string(&f) else { continue };
            let Ok(v) = serde_json::from_str::<Value>(&txt) else { continue };
            let v = if v.get("cfg").is_some() { v } else { v["replay"].clone() };
            if v.get("phases").is_some() {
                if let Ok(mut c) = serde_json::from_value::<PhaseCase>(v) {
                    c.origin = format!("corpus:{}", f.file_name().unwrap().to_string_lossy());
                    phase_todo.push(c);
                }
                continue;
            }
            if v.get("open").is_some() {
                if let Ok(mut c) = serde_json::from_value::<MergeCase>(v) {
                    c.origin = format!("corpus:{}", f.file_name().unwrap().to_string_lossy());
                    merge_todo.push(c);
                }
                continue;
            }
            if v.get("queries").is_some() {
                if let Ok(mut c) = serde_json::from_value::<SibCase>(v) {
                    c.origin = format!("corpus:{}", f.file_name().unwrap().to_string_lossy());
                    sib_todo.push(c);
                }
                continue;
            }
            if let Ok(mut c) = serde_json::from_value::<Case>(v) {
                c.origin = format!("corpus:{}", f.file_name().unwrap().to_string_lossy());
                if c.expect == "build-rejected" && c.cfg != "gl_plain" {
                    // the same per-query folding data through the real verifier-circuit builder
                    sib_todo.push(SibCase {
                        cfg: c.cfg.clone(),
                        queries: c.shape.pcs().fri.queries.iter().map(|q| q.steps.iter().map(|s| (s.log_arity, s.siblings)).collect()).collect(),
                        origin: format!("{}:build-rejected", c.origin),
                    });
                }
                todo.push(c);
            }
        }
    }
    let cfgs = ["bb_plain", "bb_hid", "bb_salted", "gl_plain"];
    for i in 0..shapes {
        let mut r = rng.fork();
        todo.push(gen_case(&mut r, cfgs[i % cfgs.len()]));
    }

    let mut evaluations = 0u64;
    let mut inputs_checked = 0u64;
    for case in &todo {
        let res = std::panic::catch_unwind(std::panic::AssertUnwindSafe(|| run_sentinel(case)));
        let (kind, toks) = case.shape.tokens();
        let (d, e) = if case.cfg == "gl_plain" { (2, 4) } else { (4, 8) };
        let line = format!("shape {kind} {d} {e} {}", toks.iter().map(|t| t.to_string()).collect::<Vec<_>>().join(" "));
        let res = match res {
            Ok(Some(r)) => r,
            Ok(None) => {
                bump(&mut hist, "skipped.bad-cfg");
                continue;
            }
            Err(p) => SentinelRes {
                lines: vec![format!("panic {}", panic_msg(p).chars().take(120).collect::<String>())],
                violations: vec![("sentinel-panic".into(), json!({}))],
                notes: vec![],
                n_inputs: 0,
            },
        };
        evaluations += 1;
        inputs_checked += res.n_inputs as u64;
        writeln!(cases_f, "{line}").unwrap();
        for l in &res.lines {
            writeln!(impl_f, "{l}").unwrap();
        }
        distinct.insert(line.clone());
        shape_hist(case, &mut hist);
        for n in &res.notes {
            bump(&mut hist, n);
            if case.origin.starts_with("corpus:") {
                corpus_notes.push(format!("{} -> {}", case.origin, n));
            }
        }
        for (class, detail) in res.violations {
            bump(&mut hist, &format!("violation.{class}"));
            violations.push(json!({"property":"C14","kind":"sentinel","class":class,"detail":detail,
                "line":line,"replay":serde_json::to_value(case).unwrap()}));
        }
        if samples.len() < 6 && (evaluations % 37 == 1 || case.origin.starts_with("corpus:")) {
            samples.push(json!({"case": line.chars().take(300).collect::<String>(), "origin": case.origin,
                "impl_flat": res.lines.get(3), "inputs": res.n_inputs}));
        }
    }
    cases_f.flush().unwrap();
    impl_f.flush().unwrap();

    // ---- hidmerge correspondence (`P3R.Packing.hidMerge` vs the real `HidingFriPcs::verify_circuit`)
    let mut mcases_f = std::io::BufWriter::new(std::fs::File::create(format!("{out}/c14m.cases")).unwrap());
    let mut mimpl_f = std::io::BufWriter::new(std::fs::File::create(format!("{out}/c14m.impl")).unwrap());
    let mut merge_rng = Rng::new(seed ^ 0x4d45_5247);
    for i in 0..merges {
        let mut r = merge_rng.fork();
        merge_todo.push(gen_merge_case(&mut r, ["bb_hid", "bb_salted"][i % 2]));
    }
    let mut merge_evals = 0u64;
    let mut merge_distinct = HashSet::new();
    for c in &merge_todo {
        let Some(ans) = run_hidmerge(c) else {
            bump(&mut hist, "merge.skipped.bad-cfg");
            continue;
        };
        merge_evals += 1;
        let line = c.line();
        writeln!(mcases_f, "{line}").unwrap();
        writeln!(mimpl_f, "{ans}").unwrap();
        merge_distinct.insert(line.clone());
        let want = c.first_mismatch();
        bump(&mut hist, &format!("merge.expect.{}", want.unwrap_or("ok")));
        bump(&mut hist, &format!("merge.rounds.{}", c.hid.len()));
        let surplus: usize = c.open.iter().zip(&c.hid).map(|(o, h)| o.iter().zip(h).map(|(np, m)| m.len().saturating_sub(*np)).sum::<usize>()).sum();
        if surplus > 0 {
            bump(&mut hist, "merge.surplus-random-point");
        }
        if c.origin.starts_with("corpus:") {
            corpus_notes.push(format!("{} -> {}", c.origin, ans));
        }
        // oracle: a proof whose random openings do not mirror the opening structure carries hiding
        // inputs that a zip would silently drop (or drops an opening point from the PCS check);
        // the real code must refuse it, and must not refuse a mirrored one
        let got_ok = ans == "hidmerge ok" || ans == "hidmerge accepted";
        match want {
            Some(level) if got_ok => {
                bump(&mut hist, &format!("violation.hiding-shape-mismatch-accepted:{level}"));
                violations.push(json!({"property":"C14","kind":"hidmerge","class":format!("hiding-shape-mismatch-accepted:{level}"),
                    "detail": {"answer": ans, "expected": format!("mismatch:{level}"), "surplus_random_points": surplus},
                    "line": line, "replay": serde_json::to_value(c).unwrap()}));
            }
            None if !got_ok => {
                bump(&mut hist, "violation.hiding-shape-mirrored-refused");
                violations.push(json!({"property":"C14","kind":"hidmerge","class":"hiding-shape-mirrored-refused",
                    "detail": {"answer": ans}, "line": line, "replay": serde_json::to_value(c).unwrap()}));
            }
            _ => {}
        }
        if samples.len() < 8 && merge_evals % 97 == 1 {
            samples.push(json!({"case": line, "origin": c.origin, "impl": ans}));
        }
    }
    mcases_f.flush().unwrap();
    mimpl_f.flush().unwrap();


    // ---- friphase correspondence (`P3R.Packing.friPhases` vs the commit-phase loop of the real
    // `verify_fri_circuit`, reached through `RecursivePcs::verify_circuit`; answer read off the
    // graph of the built circuit)
    let mut pcases_f = std::io::BufWriter::new(std::fs::File::create(format!("{out}/c14p.cases")).unwrap());
    let mut pimpl_f = std::io::BufWriter::new(std::fs::File::create(format!("{out}/c14p.impl")).unwrap());
    let mut phase_rng = Rng::new(seed ^ 0x5048_4153);
    for i in 0..n_phase_cases {
        let mut r = phase_rng.fork();
        phase_todo.push(gen_phase_case(&mut r, ["bb_plain", "bb_salted", "bb_hid", "bb_salted"][i % 4]));
    }
    let mut phase_evals = 0u64;
    let mut phase_distinct = HashSet::new();
    for c in &phase_todo {
        let Some(ans) = run_friphase(c) else {
            bump(&mut hist, "phase.skipped.bad-cfg");
            continue;
        };
        phase_evals += 1;
        let line = c.line();
        writeln!(pcases_f, "{line}").unwrap();
        writeln!(pimpl_f, "{ans}").unwrap();
        phase_distinct.insert(format!("{} {}", c.cfg, line));
        bump(&mut hist, &format!("phase.cfg.{}", c.cfg));
        bump(&mut hist, &format!("phase.log_blowup.{}", c.lb));
        bump(&mut hist, &format!("phase.phases.{}", c.phases.len()));
        let folded = c.folded();
        for ((_, h), f) in c.phases.iter().zip(&folded) {
            bump(&mut hist, if *h == 0 { "phase.cap.none" } else if h == f { "phase.cap.whole-tree" } else if h > f { "phase.cap.too-high" } else { "phase.cap.partial" });
        }
        bump(&mut hist, &format!("phase.answer.{}", if let Some(rest) = ans.strip_prefix("friphase in=") { if rest.contains('f') { "some-fold-only" } else if rest.contains('x') { "inconsistent" } else { "all-mmcs" } } else { ans.split(':').next().unwrap_or("").trim_start_matches("friphase ") }));
        if c.origin.starts_with("corpus:") {
            corpus_notes.push(format!("{} -> {}", c.origin, ans));
        }
        // oracle (independent of the model): with log_blowup + log_final_poly_len >= 1 no folded
        // codeword has a single row, so every opening of the query must be hashed and compared with
        // its commitment, whatever the caps; and caps that fit their trees must not be refused
        let replay = serde_json::to_value(c).unwrap();
        if let Some(rest) = ans.strip_prefix("friphase in=") {
            let (vin, vph) = rest.split_once(" ph=").unwrap_or((rest, ""));
            if c.lb + c.lf >= 1 {
                if vin != "m" {
                    violations.push(json!({"property":"C14","kind":"friphase","class":"fri-opening-not-verified:input",
                        "detail": {"answer": ans, "cfg": c.cfg, "what": "the input opening of the query is not hashed / compared with its commitment"},
                        "line": line, "replay": replay}));
                }
                for (k, v) in vph.split(',').enumerate() {
                    if v != "m" && !v.is_empty() {
                        let h = c.phases.get(k).map_or(0, |p| p.1);
                        let f = folded.get(k).copied().unwrap_or(0);
                        let rel = if h == 0 { "no-cap" } else if h == f { "tree-inside-cap" } else if h > f { "cap-above-tree" } else { "partial-cap" };
                        violations.push(json!({"property":"C14","kind":"friphase","class":format!("fri-opening-not-verified:commit-phase:{rel}"),
                            "detail": {"answer": ans, "cfg": c.cfg, "phase": k, "log_folded_height": f, "cap_height": h,
                                       "what": if v == "f" { "sibling values reach no hash (fold equation only); salt, if any, is an operand of nothing" } else { "siblings and salt disagree" }},
                            "line": line, "replay": replay}));
                        break;
                    }
                }
            }
        } else if c.caps_fit() {
            violations.push(json!({"property":"C14","kind":"friphase","class":"fri-fitting-cap-refused",
                "detail": {"answer": ans, "cfg": c.cfg}, "line": line, "replay": replay}));
        }
        if samples.len() < 10 && phase_evals % 53 == 1 {
            samples.push(json!({"case": line, "cfg": c.cfg, "origin": c.origin, "impl": ans}));
        }
    }
    pcases_f.flush().unwrap();
    pimpl_f.flush().unwrap();

    // ---- sibcheck correspondence (`P3R.Packing.friSibCheck` vs the shape loop at the head of the
    // real `verify_fri_circuit`, reached through `RecursivePcs::verify_circuit`)
    let mut scases_f = std::io::BufWriter::new(std::fs::File::create(format!("{out}/c14s.cases")).unwrap());
    let mut simpl_f = std::io::BufWriter::new(std::fs::File::create(format!("{out}/c14s.impl")).unwrap());
    let mut sib_rng = Rng::new(seed ^ 0x5349_4253);
    for i in 0..n_sib_cases {
        let mut r = sib_rng.fork();
        sib_todo.push(gen_sib_case(&mut r, ["bb_plain", "bb_salted", "bb_hid", "bb_plain"][i % 4], sib_huge));
    }
    let mut sib_evals = 0u64;
    let mut sib_distinct = HashSet::new();
    for c in &sib_todo {
        let Some(ans) = run_sibcheck(c) else {
            bump(&mut hist, "sib.skipped.bad-cfg");
            continue;
        };
        sib_evals += 1;
        let line = c.line();
        writeln!(scases_f, "{line}").unwrap();
        writeln!(simpl_f, "{ans}").unwrap();
        sib_distinct.insert(format!("{} {}", c.cfg, line));
        bump(&mut hist, &format!("sib.cfg.{}", c.cfg));
        bump(&mut hist, &format!("sib.queries.{}", c.queries.len()));
        bump(&mut hist, &format!("sib.phases.{}", c.queries.first().map_or(0, |q| q.len())));
        bump(&mut hist, if c.well_formed() { "sib.shape.well-formed" } else if c.only_siblings_malformed() { "sib.shape.siblings-malformed" } else { "sib.shape.otherwise-malformed" });
        if c.queries.first().map_or(0, |q| q.iter().map(|p| p.0).sum::<usize>()) + 1 > 27 {
            bump(&mut hist, "sib.route.verify_fri_circuit-direct");
        } else {
            bump(&mut hist, "sib.route.pcs-verify_circuit");
        }
        let head: String = ans.trim_start_matches("sibcheck ").split(':').take(2).collect::<Vec<_>>().join(":");
        bump(&mut hist, &format!("sib.answer.{head}"));
        if c.origin.starts_with("corpus:") {
            corpus_notes.push(format!("{} -> {}", c.origin, ans));
        }
        // oracle (independent of the model)
        let replay = serde_json::to_value(c).unwrap();
        let class = if ans.starts_with("sibcheck panic") {
            Some(("sibling-count-panics", "the verifier-circuit builder panics on these sibling counts / log-arities instead of returning InvalidProofShape"))
        } else if ans.starts_with("sibcheck other") {
            Some(("sibcheck-unexpected-error", "the verifier-circuit builder stopped at a check outside the per-query folding data"))
        } else if ans == "sibcheck ok" && !c.well_formed() {
            Some(("malformed-siblings-built", "a verifier circuit was built for a FRI proof whose commit-phase steps do not carry 2^log_arity - 1 siblings each / do not follow one schedule"))
        } else if ans != "sibcheck ok" && c.well_formed() {
            Some(("wellformed-siblings-refused", "the verifier-circuit builder refuses well-formed commit-phase steps"))
        } else if c.only_siblings_malformed() && !ans.starts_with("sibcheck error:sib:") {
            Some(("malformed-siblings-wrong-refusal", "sibling counts are the only discrepancy but another check fired"))
        } else if c.origin.ends_with(":build-rejected") && !ans.starts_with("sibcheck error:sib:") {
            Some(("malformed-siblings-built", "corpus case expected to be refused on its sibling count when the verifier circuit is built"))
        } else {
            None
        };
        if let Some((class, what)) = class {
            bump(&mut hist, &format!("violation.{class}"));
            violations.push(json!({"property":"C14","kind":"sibcheck","class":class,
                "detail": {"answer": ans, "cfg": c.cfg, "what": what}, "line": line, "replay": replay}));
        }
    }
    scases_f.flush().unwrap();
    simpl_f.flush().unwrap();

    // campaign results
    let mut campaign = vec![];
    let mut perturbations = 0u64;
    for h in campaign_handles {
        let rs = match h.join() {
            Ok(r) => r,
            Err(p) => {
                violations.push(json!({"property":"C14","kind":"campaign","class":"campaign-panic",
                    "detail": panic_msg(p).chars().take(200).collect::<String>(), "replay": {"seed": seed}}));
                continue;
            }
        };
        for r in rs {
            bump(&mut hist, &format!("campaign.{}.positions", r.setup));
            *hist.get_mut(&format!("campaign.{}.positions", r.setup)).unwrap() = r.positions as u64;
            if !r.baseline_ok {
                violations.push(json!({"property":"C14","kind":"campaign","class":format!("honest-proof-not-accepted:{}", setup_class(&r.setup)),
                    "detail": r.baseline_note, "replay": {"setup": r.setup, "seed": seed, "label": ""}}));
            }
            let mut static_seen: HashSet<String> = HashSet::new();
            for (prefix, label) in &r.statics {
                let class = format!("{prefix}:{}", kind_of(label));
                bump(&mut hist, &format!("static.{prefix}"));
                if static_seen.insert(class.clone()) {
                    violations.push(json!({"property":"C14","kind":"static","class":class,
                        "detail": {"setup": r.setup, "input": label,
                                   "what": match prefix.as_str() {
                                       "unwired-input" => "allocated input of the honest verifier circuit is an operand of no operation",
                                       "input-not-hash-bound" => "no dataflow path from this input into a Poseidon permutation (neither absorbed by the transcript nor hashed into a Merkle leaf)",
                                       _ => "private input of the verifier circuit that is not a named proof element",
                                   }},
                        "replay": {"setup": r.setup, "seed": seed, "label": label}}));
                }
            }
            let mut kinds: BTreeMap<String, (u64, u64)> = BTreeMap::new();
            let mut shape_kinds: BTreeMap<String, (u64, u64, u64)> = BTreeMap::new();
            let mut shape_perts = 0u64;
            let mut shape_followups = 0u64;
            let mut shape_accepted: Vec<Value> = vec![];
            let mut shape_panics: Vec<Value> = vec![];
            for p in &r.perts {
                perturbations += 1;
                let k = kind_of(&p.label);
                if !p.op.is_empty() {
                    // structural perturbation: the circuit was rebuilt for the mutated proof
                    let ko = format!("{k}:{}", p.op);
                    let replay = json!({"setup": p.setup, "seed": seed, "label": p.label, "op": p.op});
                    if !p.elem.is_empty() {
                        // value perturbation on the shape-mutated proof (circuit rebuilt for it)
                        shape_followups += 1;
                        bump(&mut hist, &format!("shape-pert.{}.{}.{}", if p.elem.starts_with('+') { "surplus" } else { "other" },
                            if p.native_ok { "native-accepts" } else { "native-rejects" }, if p.circuit_ok { "circuit-accepts" } else { "circuit-rejects" }));
                        if !p.native_ok && p.circuit_ok {
                            violations.push(json!({"property":"C14","kind":"shape-perturbation","class":format!("shape-dead-input:{ko}"),
                                "detail": {"setup": p.setup, "container": p.label, "mutation": p.op, "element": p.elem,
                                           "native":"rejects", "circuit":"built for the mutated proof; accepts it, and still accepts after this element is altered"},
                                "replay": replay}));
                        } else if p.native_ok && !p.circuit_ok {
                            violations.push(json!({"property":"C14","kind":"shape-perturbation","class":format!("circuit-rejects-valid:{}", kind_of(p.elem.trim_start_matches('+'))),
                                "detail": {"setup": p.setup, "container": p.label, "mutation": p.op, "element": p.elem, "native":"accepts", "circuit": p.circuit_err},
                                "replay": replay}));
                        }
                        continue;
                    }
                    shape_perts += 1;
                    let e = shape_kinds.entry(ko.clone()).or_default();
                    e.0 += 1;
                    if !p.native_ok {
                        e.1 += 1;
                    }
                    if !p.circuit_ok {
                        e.2 += 1;
                    }
                    bump(&mut hist, &format!("shape.{}.{}", if p.native_ok { "native-accepts" } else { "native-rejects" }, if p.circuit_ok { "circuit-accepts" } else { "circuit-rejects" }));
                    if !p.circuit_ok {
                        bump(&mut hist, &format!("shape.circuit-rejects-at.{}", p.circuit_err.split(':').next().unwrap_or("")));
                        if p.circuit_err.starts_with("panic") {
                            bump(&mut hist, &format!("shape.circuit-panics.{ko}"));
                            let m = json!({"mutation": ko, "message": p.circuit_err});
                            if !shape_panics.contains(&m) {
                                shape_panics.push(m);
                            }
                        }
                    }
                    // repair /repo fc0321f: a proof with a sibling pushed / popped or a log_arity changed has
                    // packed vectors of exactly the allocated lengths; it must be refused while the verifier
                    // circuit is emitted (InvalidProofShape), not later by the runner, and not by a panic
                    if (k.ends_with(".sib") || k.ends_with(".log_arity")) && k.starts_with("fri.q#.ph#") && p.label != "restore" {
                        bump(&mut hist, &format!("shape.siblings.{}", if p.circuit_err.starts_with("verifier-circuit:") { "refused-at-build" } else if p.circuit_ok { "accepted" } else { "refused-elsewhere" }));
                        if !p.circuit_err.starts_with("verifier-circuit:") {
                            violations.push(json!({"property":"C14","kind":"shape-perturbation","class":format!("malformed-siblings-not-refused-at-build:{ko}"),
                                "detail": {"setup": p.setup, "container": p.label, "mutation": p.op, "native_ok": p.native_ok,
                                           "circuit": if p.circuit_ok { "built and accepted".to_string() } else { p.circuit_err.clone() },
                                           "what": "sibling count / log_arity of a commit-phase step changed: the verifier-circuit builder must return InvalidProofShape"},
                                "replay": replay.clone()}));
                        }
                    }
                    if p.circuit_ok || p.native_ok {
                        shape_accepted.push(json!({"container": p.label, "mutation": p.op, "native_ok": p.native_ok, "circuit_ok": p.circuit_ok, "circuit": p.circuit_err}));
                    }
                    if p.label == "restore" || p.label == "rebuild-baseline" {
                        violations.push(json!({"property":"C14","kind":"shape-perturbation","class":format!("campaign-{}:{}", p.label, setup_class(&p.setup)),
                            "detail": {"setup": p.setup, "circuit": p.circuit_err}, "replay": {"setup": p.setup, "seed": seed, "label": ""}}));
                    } else if p.native_ok && !p.circuit_ok {
                        violations.push(json!({"property":"C14","kind":"shape-perturbation","class":format!("circuit-rejects-valid-shape:{ko}"),
                            "detail": {"setup": p.setup, "container": p.label, "mutation": p.op, "native":"accepts", "circuit": p.circuit_err},
                            "replay": replay}));
                    }
                    // native rejects, rebuilt circuit accepts: not by itself a dead input (e.g. the
                    // number of FRI queries is taken from the proof); the follow-up perturbations
                    // above decide, the pair is listed in `shape_accepted`.
                    continue;
                }
                let e = kinds.entry(k.clone()).or_default();
                e.0 += 1;
                if !p.native_ok {
                    e.1 += 1;
                }
                bump(&mut hist, &format!("pert.{}.{}", if p.native_ok { "native-accepts" } else { "native-rejects" }, if p.circuit_ok { "circuit-runs" } else { "circuit-fails" }));
                if !p.native_ok && p.circuit_ok {
                    violations.push(json!({"property":"C14","kind":"perturbation","class":format!("dead-input:{k}"),
                        "detail": {"setup": p.setup, "label": p.label, "native":"rejects", "circuit":"runs"},
                        "replay": {"setup": p.setup, "seed": seed, "label": p.label}}));
                }
                if p.native_ok && !p.circuit_ok {
                    violations.push(json!({"property":"C14","kind":"perturbation","class":format!("circuit-rejects-valid:{k}"),
                        "detail": {"setup": p.setup, "label": p.label, "native":"accepts", "circuit": p.circuit_err},
                        "replay": {"setup": p.setup, "seed": seed, "label": p.label}}));
                }
            }
            campaign.push(json!({"setup": r.setup, "packed_positions": r.positions, "baseline_ok": r.baseline_ok,
                "baseline_note": r.baseline_note, "static_flagged": r.statics.len(), "perturbations": r.perts.len() as u64 - shape_perts - shape_followups, "secs": r.secs,
                "shape_sites": r.shape_sites, "shape_perturbations": shape_perts, "shape_followup_perturbations": shape_followups, "shape_accepted": shape_accepted, "shape_circuit_panics": shape_panics,
                "kinds": kinds.iter().map(|(k, v)| json!({"kind": k, "perturbed": v.0, "native_rejected": v.1})).collect::<Vec<_>>(),
                "shape_kinds": shape_kinds.iter().map(|(k, v)| json!({"kind": k, "mutated": v.0, "native_rejected": v.1, "circuit_rejected": v.2})).collect::<Vec<_>>()}));
        }
    }

    let mut per_class: BTreeMap<String, usize> = BTreeMap::new();
    violations.retain(|v| {
        let c = per_class.entry(v["class"].as_str().unwrap_or("").to_string()).or_default();
        *c += 1;
        *c <= 3
    });
    let report = json!({"evaluations": evaluations, "distinct": distinct.len(), "inputs_checked": inputs_checked,
        "merge_evaluations": merge_evals, "merge_distinct": merge_distinct.len(),
        "phase_evaluations": phase_evals, "phase_distinct": phase_distinct.len(),
        "sib_evaluations": sib_evals, "sib_distinct": sib_distinct.len(),
        "perturbations": perturbations, "hist": hist, "violations": violations, "samples": samples, "seed": seed,
        "campaign": campaign, "corpus_notes": corpus_notes});
    std::fs::write(format!("{out}/c14.report.json"), serde_json::to_string_pretty(&report).unwrap()).unwrap();
    println!("c14: shapes={} distinct={} inputs={} perturbations={} violations={}", evaluations, distinct.len(), inputs_checked, perturbations, violations.len());
}

#[allow(dead_code)]
fn _unused(_: HashMap<u8, u8>) {}
