/-
C06 — value-level model of the challenger circuit's bus roles. Import-free (core only).

Mirrors, at the level "which permutation limbs are read from / sent on the witness bus and
which slots have which creator":
* `recursion/src/challenger/circuit.rs` (`observe`, `sample`, `duplexing`, `duplexing_base`,
  `duplexing_ext`) together with the builder calls it makes
  (`add_poseidon2_perm_for_challenger[_base]`, `recompose_base_coeffs_to_ext` with its
  constant folding, `decompose_ext_to_base_coeffs` = hint + recompose row + connect);
* the acceptance conditions these rows are subject to: Poseidon2 circuit AIR
  (`poseidon2-circuit-air/src/air.rs`: out = perm(in); compact D=1 layout: capacity chained
  in-table; with fixes/C06-1.diff the start-of-chain capacity is also asserted on table row 0),
  recompose AIR (`circuit-prover/src/air/recompose_air.rs`: one bus tuple
  `(output_idx, main columns)`, no constraint, coefficient slots are not on the bus),
  ALU add row for the length tag;
* p3-challenger 0.6.3 `DuplexChallenger` (`observe`, `sample`, `duplexing`).

The permutation is a parameter `π : List K → List K` (any function).
-/
namespace P3R.Transcript

/-- History operation: observe the next observed value, or sample one base element. -/
inductive HOp where
  | obs
  | smp
deriving DecidableEq, Repr

/-- Witness slots named canonically: `o i` is the slot of the `i`-th observed value, `v n` the
`n`-th slot allocated by the challenger (first-occurrence order of the emitted rows). -/
inductive Slot where
  | o (i : Nat)
  | v (n : Nat)
deriving DecidableEq, Repr

/-- A symbolic state entry: a constant (its coefficients) or a slot. -/
inductive Sym where
  | k (c : List Nat)
  | s (x : Slot)
deriving DecidableEq, Repr

/-- Emitted rows with their bus roles. -/
inductive Row where
  /-- permutation row. `ins`: the limbs read from the bus (D=1: the rate elements, capacity is
  in-table; D≥2: all `WIDTH/D` limbs). `exposed`: output slots sent by the Poseidon table;
  `hidden`: output slots only written by the executor. -/
  | perm (newStart : Bool) (absorbLen : Nat) (ins : List Sym) (exposed hidden : List Slot)
  /-- recompose-table row: sends `(out, main columns)`; `coeffs` are *not* on the bus. -/
  | recomp (coeffs : List Sym) (out : Slot)
  /-- decomposition hint: no relation. -/
  | hint (x : Slot) (outs : List Slot)
  /-- ALU row `out = a + n` (prefix-free length tag on the tracked capacity element). -/
  | addk (a : Slot) (n : Nat) (out : Slot)
deriving DecidableEq, Repr

structure Cfg where
  width : Nat
  rate : Nat
  d : Nat
deriving DecidableEq, Repr

/-- Symbolic challenger state (`CircuitChallenger`). `rate ++ cap` is `state`. -/
structure CS where
  rate : List Sym
  cap : List Sym
  inBuf : List Sym
  outBuf : List Sym
  next : Nat
  nobs : Nat
  duplexed : Bool
deriving Repr

def zeroK (d : Nat) : Sym := .k (List.replicate d 0)

def CS.init (c : Cfg) : CS :=
  { rate := List.replicate c.rate (zeroK c.d), cap := List.replicate (c.width - c.rate) (zeroK c.d),
    inBuf := [], outBuf := [], next := 0, nobs := 0, duplexed := false }

def fresh (start n : Nat) : List Slot := (List.range n).map fun j => Slot.v (start + j)

/-- Rate after overwriting with the buffered inputs and zero-filling (absorb) or untouched
(squeeze). -/
def rateAfter (c : Cfg) (st : CS) : List Sym :=
  if st.inBuf.length = 0 then st.rate
  else st.inBuf ++ List.replicate (c.rate - st.inBuf.length) (zeroK c.d)

/-! ### D = 1: `duplexing_base` -/

def duplexD1 (c : Cfg) (st : CS) : CS × List Row :=
  let ins := rateAfter c st
  let ex := fresh st.next c.rate
  let hid := fresh (st.next + c.rate) (c.width - c.rate)
  ({ rate := ex.map Sym.s, cap := hid.map Sym.s, inBuf := [], outBuf := ex.map Sym.s,
     next := st.next + c.width, nobs := st.nobs, duplexed := true },
   [Row.perm (!st.duplexed) st.inBuf.length ins ex hid])

/-! ### D ≥ 2 with the recompose table: `duplexing_ext` -/

def headCoeff : Sym → Option Nat
  | .k (x :: _) => some x
  | _ => none

/-- `recompose_base_coeffs_to_ext`: constant-folds when every coefficient is a constant,
otherwise one recompose-table row with a fresh output. -/
def recompose (n : Nat) (chunk : List Sym) : Sym × Nat × List Row :=
  match chunk.mapM headCoeff with
  | some cs => (.k cs, n, [])
  | none => (.s (.v n), n + 1, [Row.recomp chunk (.v n)])

def chunks (d : Nat) : Nat → List Sym → List (List Sym)
  | 0, _ => []
  | fuel + 1, l => if l.isEmpty then [] else l.take d :: chunks d fuel (l.drop d)

def recomposeAll (n : Nat) : List (List Sym) → List Sym × Nat × List Row
  | [] => ([], n, [])
  | ch :: rest =>
    let (y, n1, r1) := recompose n ch
    let (ys, n2, r2) := recomposeAll n1 rest
    (y :: ys, n2, r1 ++ r2)

/-- `decompose_ext_to_base_coeffs` of each permutation output: hint + recompose row whose
output is the decomposed slot itself (`connect`). -/
def decomposeAll (d n : Nat) : List Slot → List Sym × Nat × List Row
  | [] => ([], n, [])
  | x :: rest =>
    let cs := fresh n d
    let (ys, n2, r2) := decomposeAll d (n + d) rest
    (cs.map Sym.s ++ ys, n2, [Row.hint x cs, Row.recomp (cs.map Sym.s) x] ++ r2)

def addHeadNat (n : Nat) : List Nat → List Nat
  | [] => []
  | x :: xs => (x + n) :: xs

def duplexDn (c : Cfg) (st : CS) : CS × List Row :=
  let nabs := st.inBuf.length
  let rate' := rateAfter c st
  -- length tag on the first capacity element (constant-folded when it is a constant)
  let (cap', n0, rTag) : List Sym × Nat × List Row :=
    if nabs = 0 then (st.cap, st.next, [])
    else match st.cap with
      | .k cs :: rest => (.k (addHeadNat nabs cs) :: rest, st.next, [])
      | .s x :: rest => (.s (.v st.next) :: rest, st.next + 1, [Row.addk x nabs (.v st.next)])
      | [] => ([], st.next, [])
  let (ins, n1, rRec) := recomposeAll n0 (chunks c.d c.width (rate' ++ cap'))
  let limbs := c.width / c.d
  let nex := c.rate / c.d
  let outs := fresh n1 limbs
  let (coeffs, n2, rDec) := decomposeAll c.d (n1 + limbs) outs
  ({ rate := coeffs.take c.rate, cap := coeffs.drop c.rate, inBuf := [], outBuf := coeffs.take c.rate,
     next := n2, nobs := st.nobs, duplexed := true },
   rTag ++ rRec ++ [Row.perm true 0 ins (outs.take nex) (outs.drop nex)] ++ rDec)

def duplex (c : Cfg) (st : CS) : CS × List Row :=
  if c.d = 1 then duplexD1 c st else duplexDn c st

/-- One history step: new state, emitted rows, sampled symbols. -/
def stepC (c : Cfg) (st : CS) : HOp → CS × List Row × List Sym
  | .obs =>
    let st1 := { st with outBuf := [], inBuf := st.inBuf ++ [Sym.s (.o st.nobs)], nobs := st.nobs + 1 }
    if st1.inBuf.length = c.rate then
      let (st2, rows) := duplex c st1
      (st2, rows, [])
    else (st1, [], [])
  | .smp =>
    let (st1, rows) :=
      if st.inBuf.length ≠ 0 ∨ st.outBuf.length = 0 then duplex c st else (st, [])
    match st1.outBuf.getLast? with
    | some y => ({ st1 with outBuf := st1.outBuf.dropLast }, rows, [y])
    | none => (st1, rows, [])

def emitFrom (c : Cfg) : CS → List HOp → List Row × List Sym
  | _, [] => ([], [])
  | st, op :: rest =>
    ((stepC c st op).2.1 ++ (emitFrom c (stepC c st op).1 rest).1,
     (stepC c st op).2.2 ++ (emitFrom c (stepC c st op).1 rest).2)

def emit (c : Cfg) (h : List HOp) : List Row × List Sym := emitFrom c (CS.init c) h

/-! ### Values -/

section Values
variable {K : Type} [Zero K] [One K] [Add K] [DecidableEq K]

def ofNat : Nat → K
  | 0 => 0
  | n + 1 => ofNat n + 1

def addHead (x : K) : List K → List K
  | [] => []
  | y :: ys => (y + x) :: ys

/-- D = 1 values: one field element per slot. -/
def ev1 (w : Slot → K) : Sym → K
  | .k cs => ofNat (cs.headD 0)
  | .s x => w x

/-- Capacity cells of a D = 1 permutation row. `first cap0`: the committed cells of table
row 0; `prev out`: chained from the previous row's output. -/
inductive Chain (K : Type) where
  | first (cap0 : List K)
  | prev (out : List K)

def capIn (c : Cfg) : Chain K → Bool → List K
  | .first c0, _ => c0
  | .prev _, true => List.replicate (c.width - c.rate) 0
  | .prev out, false => out.drop c.rate

/-- The start-of-chain constraint on table row 0 (fixes/C06-1.diff: the assertion
"next row is a sponge chain start ⇒ its capacity is the length tag" is no longer gated by
`when_transition`, so it also holds on the wrap-around window whose `next` row is row 0):
a `new_start` row 0 has zero capacity cells (before the tag). A row 0 that is not a chain start
stays unconstrained, as in the AIR. -/
def firstRowOk (c : Cfg) : Chain K → Bool → Bool
  | .first c0, true => decide (c0 = List.replicate (c.width - c.rate) 0)
  | _, _ => true

/-- Acceptance of the D = 1 rows under the assignment `w` (readers agree with creators, C04)
and the committed capacity cells `cap0` of table row 0. -/
def accD1 (c : Cfg) (π : List K → List K) (w : Slot → K) : Chain K → List Row → Bool
  | _, [] => true
  | ch, Row.perm ns al ins ex _ :: rs =>
    let out := π (ins.map (ev1 w) ++ addHead (ofNat al) (capIn c ch ns))
    firstRowOk c ch ns && decide (ex.map w = out.take c.rate) && accD1 c π w (.prev out) rs
  | ch, _ :: rs => accD1 c π w ch rs

/-- Native `DuplexChallenger`; `nobs` counts the observed values consumed so far. -/
structure NS (K : Type) where
  rate : List K
  cap : List K
  inBuf : List K
  outBuf : List K
  nobs : Nat

def NS.init (c : Cfg) : NS K :=
  { rate := List.replicate c.rate 0, cap := List.replicate (c.width - c.rate) 0, inBuf := [], outBuf := [],
    nobs := 0 }

def NS.duplex (c : Cfg) (π : List K → List K) (st : NS K) : NS K :=
  let n := st.inBuf.length
  let rate' := if n = 0 then st.rate else st.inBuf ++ List.replicate (c.rate - n) 0
  let cap' := if n = 0 then st.cap else addHead (ofNat n) st.cap
  let out := π (rate' ++ cap')
  { rate := out.take c.rate, cap := out.drop c.rate, inBuf := [], outBuf := out.take c.rate, nobs := st.nobs }

/-- Native step; `obs i` is the `i`-th observed value. -/
def stepN (c : Cfg) (π : List K → List K) (obs : Nat → K) (st : NS K) : HOp → NS K × List K
  | .obs =>
    let st1 : NS K := { st with outBuf := [], inBuf := st.inBuf ++ [obs st.nobs], nobs := st.nobs + 1 }
    if st1.inBuf.length = c.rate then (NS.duplex c π st1, []) else (st1, [])
  | .smp =>
    let st1 := if st.inBuf.length ≠ 0 ∨ st.outBuf.length = 0 then NS.duplex c π st else st
    match st1.outBuf.getLast? with
    | some y => ({ st1 with outBuf := st1.outBuf.dropLast }, [y])
    | none => (st1, [])

def nativeFrom (c : Cfg) (π : List K → List K) (obs : Nat → K) : NS K → List HOp → List K
  | _, [] => []
  | st, op :: rest => (stepN c π obs st op).2 ++ nativeFrom c π obs (stepN c π obs st op).1 rest

/-- The native challenges for the history `h` with observed values `obs 0, obs 1, …`. -/
def native (c : Cfg) (π : List K → List K) (obs : Nat → K) (h : List HOp) : List K :=
  nativeFrom c π obs (NS.init c) h

/-- D ≥ 2 values: `d` base coefficients per slot. -/
def evN (w : Slot → List K) : Sym → List K
  | .k cs => cs.map ofNat
  | .s x => w x

def vadd : List K → List K → List K
  | x :: xs, y :: ys => (x + y) :: vadd xs ys
  | xs, [] => xs
  | [], ys => ys

def embed (d : Nat) (x : K) : List K := x :: List.replicate (d - 1) 0

/-- Acceptance of the D ≥ 2 rows (recompose table on): every exposed permutation output is
`π` of the limbs read from the bus; the tag add holds; hints and recompose rows impose nothing
(the recompose row's columns are free and its coefficient slots are not on the bus). -/
def accDn (c : Cfg) (π : List K → List K) (w : Slot → List K) : List Row → Bool
  | [] => true
  | Row.perm _ _ ins ex _ :: rs =>
    let out := π ((ins.map (evN w)).flatten)
    decide ((ex.map w).flatten = out.take c.rate) && accDn c π w rs
  | Row.addk a n y :: rs => decide (w y = vadd (w a) (embed c.d (ofNat n))) && accDn c π w rs
  | _ :: rs => accDn c π w rs

end Values

/-! ### Canonical text of the emitted rows (compared with the real `circuit.ops`) -/

def Slot.str : Slot → String
  | .o i => s!"o{i}"
  | .v n => s!"v{n}"

def Sym.str : Sym → String
  | .k cs => "k" ++ ".".intercalate (cs.map toString)
  | .s x => x.str

def Row.str (c : Cfg) : Row → String
  | .perm ns al ins ex hid =>
    let pad := if c.d = 1 then List.replicate (c.width - c.rate) "-" else []
    s!"P{if ns then 1 else 0}.{al}({",".intercalate (ins.map Sym.str ++ pad)}|{",".intercalate (ex.map Slot.str)}|{",".intercalate (hid.map Slot.str)})"
  | .recomp cs out => s!"R({",".intercalate (cs.map Sym.str)}>{out.str})"
  | .hint x outs => s!"H({x.str}>{",".intercalate (outs.map Slot.str)})"
  | .addk a n out => s!"A({a.str}+k{n}{String.join (List.replicate (c.d - 1) ".0")}>{out.str})"

def shapeStr (c : Cfg) (e : List Row × List Sym) : String :=
  ";".intercalate (e.1.map (Row.str c)) ++ "|S(" ++ ",".intercalate (e.2.map Sym.str) ++ ")"

end P3R.Transcript
