/-
C06 — the full statement is false of the current code: concrete accepted-but-unbound
assignments, in the model of `P3R.Model.Transcript`. Each witness is replayed on the real
prover/verifier by the harness on every run (BabyBear, WIDTH 16 / RATE 8; here a toy
WIDTH 4 / RATE 2 instance of the same emission and acceptance functions over the field
ℤ/101, with the
"permutation" `π₂ [a,b,c,d] = [b, a+c+d, a+d, c]` — the theorems of `Props/C06` hold for every
function, so any function may serve as a counter-example).

* `dn_capacity_output_unbound` (finding F5): D = 2, history observe/sample/observe/sample. Every
  recompose and hint relation holds, every exposed permutation output is `π` of the limbs read
  from the bus — the proof is accepted — but the *non-exposed* capacity output of the first
  permutation was replaced by 0: the second challenge is 7 = o₁ + 1 and ignores the first
  observation (native: 13).
* `dn_recompose_row_unbound` (finding F5b): same circuit, every permutation output (exposed and
  hidden) honest, every hint honest; the recompose row that packs the first observation carries
  9 instead of 5 (its coefficient slots are not on the bus): accepted, challenges 10, 17 instead
  of 6, 13.
* `dn_sampled_slot_free`: in the honest accepted assignment the sampled slot itself can be
  overwritten by any value (instance of `C06.accDn_ignores`).
* `d1_first_row_capacity_rejected` (finding F5c, **repaired** by fixes/C06-1.diff; kept as a
  regression record): D = 1, capacity cells (7, 0) of table row 0 instead of (0, 0). Before the
  repair this assignment was accepted with challenge 13 instead of 6 (no constraint addressed
  row 0); with the start-of-chain constraint on row 0 (`firstRowOk`) it is rejected, and the
  honest cells (0, 0) are accepted and bound (`d1_honest_first_row`).
* `challenges_bound_false`: the negation of the full statement (D ≥ 2).
-/
import Mathlib.Data.ZMod.Basic
import Mathlib.Algebra.Field.ZMod
import Mathlib.Tactic.NormNum.Prime
import P3R.Props.C06

namespace P3R.Witness.C06
open P3R.Transcript

/-- The witnesses live in the prime field ℤ/101 (arithmetic decidable in the kernel). -/
abbrev Q := ZMod 101

instance : Fact (Nat.Prime 101) := ⟨by norm_num⟩

/-- `Q` is a field, so the witnesses are instances of the field-quantified statement. -/
example : Field Q := inferInstance

def π₂ : List Q → List Q
  | [a, b, c, d] => [b, a + c + d, a + d, c]
  | _ => []

def cfg2 : Cfg := ⟨4, 2, 2⟩
def cfg1 : Cfg := ⟨4, 2, 1⟩
def hist : List HOp := [.obs, .smp, .obs, .smp]

def asg (obs vs : List (List Q)) : Slot → List Q
  | .o i => obs.getD i []
  | .v n => vs.getD n []

/-- coefficient value a recompose row is meant to pack -/
def coeffHead (w : Slot → List Q) : Sym → Q
  | .k cs => ofNat (cs.headD 0)
  | .s x => (w x).headD 0

def recompHolds (w : Slot → List Q) : Row → Bool
  | .recomp cs out => decide (w out = cs.map (coeffHead w))
  | _ => true

def hintHolds (d : Nat) (w : Slot → List Q) : Row → Bool
  | .hint x outs => decide (outs.map w = (w x).map (embed d))
  | _ => true

def hiddenHonest (c : Cfg) (π : List Q → List Q) (w : Slot → List Q) : Row → Bool
  | .perm _ _ ins _ hid => decide ((hid.map w).flatten = (π ((ins.map (evN w)).flatten)).drop c.rate)
  | _ => true

def rows2 : List Row := (emit cfg2 hist).1
def smp2 : List Sym := (emit cfg2 hist).2

def obsV : List (List Q) := [[5, 0], [6, 0]]

/-- the honest assignment -/
def wHonest : Slot → List Q := asg obsV
  [[5,0],[0,6],[5,1],[0,0],[6,0],[5,0],[1,0],[6,0],[6,0],[6,1],[0,13],[7,6],[0,0],[13,0],[7,0],[6,0]]

/-- F5: the non-exposed output `v2` of the first permutation is 0 instead of (5,1), everything
downstream recomputed. -/
def wF5 : Slot → List Q := asg obsV
  [[5,0],[0,6],[0,0],[0,0],[6,0],[0,0],[0,0],[1,0],[6,0],[1,0],[0,7],[6,1],[0,0],[7,0],[6,0],[1,0]]

/-- F5b: the recompose row `R(o0,0 > v0)` carries 9, everything downstream recomputed. -/
def wF5b : Slot → List Q := asg obsV
  [[9,0],[0,10],[9,1],[0,0],[10,0],[9,0],[1,0],[10,0],[6,0],[10,1],[0,17],[7,10],[0,0],[17,0],[7,0],[10,0]]

def nativeEmb (w : Slot → List Q) : List (List Q) :=
  (native cfg2 π₂ (fun i => (w (.o i)).headD 0) hist).map (embed 2)

theorem honest_accepted_and_bound :
    accDn cfg2 π₂ wHonest rows2 = true ∧ smp2.map (evN wHonest) = nativeEmb wHonest := by
  decide

theorem dn_capacity_output_unbound :
    accDn cfg2 π₂ wF5 rows2 = true
    ∧ rows2.all (recompHolds wF5) = true ∧ rows2.all (hintHolds 2 wF5) = true
    ∧ smp2.map (evN wF5) = [[6, 0], [7, 0]] ∧ nativeEmb wF5 = [[6, 0], [13, 0]] := by
  decide

theorem dn_recompose_row_unbound :
    accDn cfg2 π₂ wF5b rows2 = true
    ∧ rows2.all (hiddenHonest cfg2 π₂ wF5b) = true ∧ rows2.all (hintHolds 2 wF5b) = true
    ∧ smp2.map (evN wF5b) = [[10, 0], [17, 0]] ∧ nativeEmb wF5b = [[6, 0], [13, 0]] := by
  decide

/-- the second sampled slot is `v13`; it is not a bus slot of any accepted row -/
theorem dn_sampled_slot_free (v : List Q) :
    accDn cfg2 π₂ (fun x => if x = Slot.v 13 then v else wHonest x) rows2 = true := by
  rw [C06.accDn_ignores cfg2 π₂ wHonest rows2 (Slot.v 13) v (by decide)]
  exact honest_accepted_and_bound.1

/-! D = 1 -/

def rows1 : List Row := (emit cfg1 [.obs, .smp]).1
def smp1 : List Sym := (emit cfg1 [.obs, .smp]).2

/-- input (5, 0 | 7+1, 0) → output (0, 13, 5, 8): exposed `v0 = 0`, `v1 = 13` — the pre-fix
forgery (every exposed output is `π₂` of the forged row). -/
def w1 : Slot → Q
  | .o _ => 5
  | .v 1 => 13
  | _ => 0

/-- honest: input (5, 0 | 0+1, 0) → output (0, 6, 5, 1) -/
def w1h : Slot → Q
  | .o _ => 5
  | .v 1 => 6
  | _ => 0

/-- Regression record of F5c: the forged first-row capacity is no longer accepted. -/
theorem d1_first_row_capacity_rejected :
    accD1 cfg1 π₂ w1 (.first [7, 0]) rows1 = false := by
  decide

theorem d1_honest_first_row :
    accD1 cfg1 π₂ w1h (.first [0, 0]) rows1 = true
    ∧ smp1.map (ev1 w1h) = native cfg1 π₂ (fun i => w1h (.o i)) [.obs, .smp] := by
  decide

/-- The full statement of C06 over the model (every configuration, permutation function,
history, assignment and every value of the cells that are not fixed by the verifier) is false. -/
theorem challenges_bound_false :
    ¬ (∀ (c : Cfg) (π : List Q → List Q) (h : List HOp) (w : Slot → List Q),
        accDn c π w (emit c h).1 = true →
        (emit c h).2.map (evN w) = (native c π (fun i => (w (.o i)).headD 0) h).map (embed c.d)) := by
  intro hall
  have h := hall cfg2 π₂ hist wF5 dn_capacity_output_unbound.1
  have h1 : (emit cfg2 hist).2.map (evN wF5) = [[6, 0], [7, 0]] := dn_capacity_output_unbound.2.2.2.1
  have h2 : (native cfg2 π₂ (fun i => (wF5 (.o i)).headD 0) hist).map (embed cfg2.d) = [[6, 0], [13, 0]] :=
    dn_capacity_output_unbound.2.2.2.2
  rw [h1, h2] at h
  exact absurd h (by decide)

end P3R.Witness.C06

#print axioms P3R.Witness.C06.dn_capacity_output_unbound
#print axioms P3R.Witness.C06.dn_recompose_row_unbound
#print axioms P3R.Witness.C06.dn_sampled_slot_free
#print axioms P3R.Witness.C06.d1_first_row_capacity_rejected
#print axioms P3R.Witness.C06.d1_honest_first_row
#print axioms P3R.Witness.C06.challenges_bound_false
